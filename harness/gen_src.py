"""WP-T - source-to-Gallina translator for the pure integer arithmetic of lentil.

``translate_all(repo)`` reads the CURRENT source files of lentil (``<repo>/lentil/*.py``), and for every
entry of ``SPECS`` (a whitelisted function, specialised to one *instance* of its parameter kinds, e.g.
``array_extent`` called with a 2-tuple shape and ``parent_shape=None``) symbolically executes the function
body on symbolic integers and emits

  * a Gallina definition ``src_<name>`` over ``Z`` / ``bool`` / tuples / ``option`` / ``result``
    (file ``coq/theories/Gen/ExtentSrc.v``, rewritten on every check when its text changes);
  * the same term as a compiled Python function (used to look for a concrete witness when an equivalence
    theorem of ``Proofs/ExtentSrcP.v`` stops compiling, and to self-check the translator against the
    running code).

The translator is FAIL CLOSED per function: anything it does not understand in a whitelisted function that
can influence the translated integers raises ``TranslationRefused(function, reason)`` for THAT function; the
generated file then carries the declared fallback (the model term, marked REFUSED) so that the tree builds,
and the function is reported as ``refused`` (not an alarm - the correspondence check still covers it).

Accepted Python (everything else is refused):
  statements   docstring; ``x = e``; ``a, b = e`` (tuple unpacking, also of parameters); ``x += e`` (+ - * //);
               ``if/elif/else`` including early ``return``/``raise``; ``return e``; ``raise E(...)``;
               one ``for x in <list parameter>:`` loop of straight-line code (translated to ``fold_left``);
  expressions  integer literals, ``True/False/None/Ellipsis``, names, ``+ - * // %`` (``//`` and ``%`` only by a
               non-zero integer literal: ZeroDivisionError is not modelled), unary ``- +``, ``int(e)`` on an
               integer (identity), ``max/min`` (also ``np.max/np.min`` of a tuple), comparisons (chains too),
               ``and/or/not`` on booleans, ``a if c else b``, tuples, constant subscripts of tuples,
               ``len`` of a tuple (static), ``slice(a, b)`` and ``np.s_[a:b, c:d]`` (a slice is the pair
               (start, stop)), ``any/all`` of a tuple of booleans, ``is None``/``is not None`` and ``==`` with
               ``()``/``Ellipsis`` when they can be decided statically from the instance, calls of other
               functions of the same file (inlined), ``sys.maxsize`` (the interpreter's value);
  numpy on small integer vectors (needed by field.insert / helper.slice_offset):
               ``np.asarray/np.array`` of a tuple of integers, elementwise ``+ - * // %`` with scalar
               broadcasting, ``v[k]``, ``v == k``, ``np.all``, ``np.array_equal``, ``tuple(v)``, ``v.shape``.
               numpy's int64 wrap-around is NOT modelled (integers are mathematical integers).
Statements that cannot be translated and can only rebind names (``x = <call>``, ``out[...] += ...``, calls as
statements, ``if <opaque>:`` around such statements) make the names they bind - and every mutable value they
mention - OPAQUE; an opaque value reaching a translated condition, a loop or the result is a refusal.

Extensions of WP-T2 (one SPECS table and one generated file per property, see SUITES):
  * calls of functions of OTHER lentil files named in spec['modules'] are inlined too (lentil.extent.* from
    propagate.py), with keyword arguments; an argument that is a choice between shapes (() or (nr, nc)) is split;
  * spec['arr_calls'] takes the result of a call f(<array parameter>, ...) as an input (lentil.boundary(mask, 0));
    spec['assume'] makes a named local an INPUT: the first statement that binds it is never translated, whatever
    form it takes (fix_shift = np.fix(shift), fft_shape, the float row formula n of zernike_index - also when it
    is rewritten with math.isqrt or split over several statements; `import` statements are skipped); spec['assume_at_loop'] makes named locals arbitrary inputs when
    the focused loop is entered;
  * spec['loop_focus']: observe when a loop over untranslatable things is reached ('before') or at the end of ONE
    GENERIC iteration of its body ('body': every name the body binds is unknown at its start); an `if` that ends
    the observed block is observed branch by branch (a skipped `if` without else observes nothing = None);
  * spec['observe_calls']: the integer arguments of named calls inside untranslated statements (img.reshape(...),
    np.tile(...)) can be observed;
  * inputs declared positive (Z_POS, ('ARR', n, 'pos')) may be divisors of // % and /;
  * spec['rationals']: a true division a / b by a positive literal or positive input is an EXACT rational
    (num, den); + - * and comparisons are exact (cross-multiplied), int() truncates (Z.quot), np.floor/np.ceil
    are Z.div.  Python computes these in floating point: the translation agrees with it as long as all
    intermediate values are integers/dyadic fractions below 2^53 - larger magnitudes are NOT modelled;
  * `x & 1` is x mod 2; an integer used as a condition is `!= 0`; round() of an integer is the integer;
    `assert c` is `if not c: raise AssertionError`;
  * spec['lists']: lists built by the function itself - literals, `l.append(e)`, `l[-1]`, `l[k]`/`l[i]` (an index
    that may be out of range puts the rest of the block under a guard, else Err IndexError), `len(l)`, of integers
    or of integer tuples; every such list is single-owner (aliasing is refused); `for i in range(a, b)`: a
    constant trip count is unrolled, a symbolic one becomes `fold_left <step> (indices) <state>` with a named
    step function over the tuple of the variables the body rebinds; a body that can raise makes the step and the
    fold return a result; collections.namedtuple records of integers (attribute access), module-level constants
    named in spec['globals'] (evaluated from their single module-level assignment); calls of inlinable functions
    that can raise (an assert inside, as in segmented.Hex) are executed statement by statement with the caller's
    continuation;
  * loops the translator does not translate (`for d in range(...)`: over arrays) are skipped as ONE opaque
    statement when their body only assigns/calls: everything they bind becomes unknown;
  * mutation tracking is per object: an untranslated call poisons only the values passed to it DIRECTLY (or as a
    view/attribute), not the operands of arithmetic inside its arguments; an observation reads a numpy vector AS
    IT WAS ASSIGNED (poison is ignored for the observed expression only).

Decision policy of a layer (run_layer): a function the translator REFUSES is only reported; when an equivalence
lemma no longer compiles, the translated term is compared with the model's Python mirror (arguments sampled like the
self-check, an exhaustive small box, random points): a FOUND disagreement is a violation with that witness; if none
is found the function is reported like a refusal ("equivalence proof did not go through automatically, no
disagreement found on N points") - a failed proof script alone is not evidence against the code.

Two kinds of entries:
  * value entries: the translated term is the function's return value;
  * observation entries (functions that mix index arithmetic with array work: util.pad, util.subarray,
    field.insert): the translated term is the value of the expression ``observe`` (a tuple of local integer
    variables) at the function's ``return`` (``raise`` -> ``Err``); what the function then does with those
    integers (the actual slicing) is NOT translated - the correspondence check covers it.
"""
import ast
import functools
import hashlib
import os
import sys


class TranslationRefused(Exception):
    def __init__(self, function, reason):
        super().__init__(f'{function}: {reason}')
        self.function, self.reason = function, reason


class _Unsup(Exception):
    """an expression outside the whitelist (becomes an opaque value or a refusal, depending on where)"""


# ====================================================================== scalar expressions
class X:
    __slots__ = ('op', 'ty', 'a')

    def __init__(self, op, ty, *a):
        self.op, self.ty, self.a = op, ty, a


def _canon_term(v):
    """a structural key of a term / value (for comparing the two ways of an untranslated condition)"""
    if isinstance(v, X):
        return ('X', v.op, v.ty, tuple(_canon_term(a) for a in v.a))
    if isinstance(v, (tuple, list)):
        return (type(v).__name__,) + tuple(_canon_term(a) for a in v)
    if isinstance(v, dict):
        return ('dict',) + tuple((k, _canon_term(a)) for k, a in sorted(v.items(), key=lambda kv: str(kv[0])))
    if v is None or isinstance(v, (str, int, bool, float)):
        return v
    slots = getattr(type(v), '__slots__', None)
    attrs = {k: getattr(v, k, None) for k in slots} if slots else dict(getattr(v, '__dict__', {}))
    if not attrs and not slots and not hasattr(v, '__dict__'):
        return ('id', id(v))
    return (type(v).__name__,) + tuple((k, _canon_term(a)) for k, a in sorted(attrs.items()))


def _same_term(a, b):
    try:
        return _canon_term(a) == _canon_term(b)
    except RecursionError:
        return False


def zint(n):
    return X('int', 'Z', int(n))


def bconst(b):
    return X('bool', 'B', bool(b))


def var(name, ty):
    return X('var', ty, name)


def _quot(a, b):
    """truncation toward zero (Coq Z.quot; Python int() of an exact quotient)"""
    q = abs(a) // abs(b)
    return q if (a < 0) == (b < 0) else -q


_ARITH = {'add': lambda a, b: a + b, 'sub': lambda a, b: a - b, 'mul': lambda a, b: a * b,
          'div': lambda a, b: a // b, 'mod': lambda a, b: a % b, 'max': max, 'min': min, 'quot': _quot}
_CMP = {'le': lambda a, b: a <= b, 'lt': lambda a, b: a < b, 'ge': lambda a, b: a >= b,
        'gt': lambda a, b: a > b, 'eq': lambda a, b: a == b, 'ne': lambda a, b: a != b}


def _need(x, ty, what):
    if not isinstance(x, X) or x.ty != ty:
        raise _Unsup(f'{what}: operand is not {"an integer" if ty == "Z" else "a boolean"} ({describe(x)})')


_POSVARS = set()        # names of the inputs the spec declares positive (for the current translation)


def _is_pos(x):
    """an expression that is positive by construction: a positive literal, an input declared positive, products"""
    if x.op == 'int':
        return x.a[0] > 0
    if x.op == 'var':
        return x.a[0] in _POSVARS
    if x.op == 'mul':
        return _is_pos(x.a[0]) and _is_pos(x.a[1])
    return False


def arith(op, a, b):
    _need(a, 'Z', op)
    _need(b, 'Z', op)
    if op in ('div', 'mod', 'quot') and not ((b.op == 'int' and b.a[0] != 0) or _is_pos(b)):
        raise _Unsup('divisor of // or % is neither a non-zero integer literal nor an input the spec declares '
                     'positive (ZeroDivisionError is not modelled)')
    if a.op == 'int' and b.op == 'int':
        return zint(_ARITH[op](a.a[0], b.a[0]))
    return X(op, 'Z', a, b)


def neg(a):
    _need(a, 'Z', 'unary -')
    return zint(-a.a[0]) if a.op == 'int' else X('neg', 'Z', a)


def cmp_(op, a, b):
    _need(a, 'Z', 'comparison')
    _need(b, 'Z', 'comparison')
    if a.op == 'int' and b.op == 'int':
        return bconst(_CMP[op](a.a[0], b.a[0]))
    return X(op, 'B', a, b)


def band(a, b):
    _need(a, 'B', 'and')
    _need(b, 'B', 'and')
    if a.op == 'bool':
        return b if a.a[0] else a
    if b.op == 'bool':
        return a if b.a[0] else b          # a and False == False because a is pure and total
    return X('and', 'B', a, b)


def bor(a, b):
    _need(a, 'B', 'or')
    _need(b, 'B', 'or')
    if a.op == 'bool':
        return a if a.a[0] else b
    if b.op == 'bool':
        return b if b.a[0] else a
    return X('or', 'B', a, b)


def bnot(a):
    _need(a, 'B', 'not')
    return bconst(not a.a[0]) if a.op == 'bool' else X('not', 'B', a)


def ite(c, a, b):
    if c.op == 'bool':
        return a if c.a[0] else b
    if a is b:
        return a
    return X('ite', a.ty, c, a, b)


class Frac:
    """an exact rational num/den with a positive denominator (a literal, an input declared positive, or a product
    of those): the value of a true division of integers.  Python computes these in floating point; the
    translation is exact, which agrees with the floats as long as every intermediate value is an integer or a
    dyadic fraction below 2^53 (stated in the generated header; larger magnitudes are not modelled)."""

    def __init__(self, num, den):
        self.num, self.den = num, den


def _as_frac(v, what):
    if isinstance(v, Frac):
        return v
    _need(v, 'Z', what)
    return Frac(v, zint(1))


def _mk_frac(num, den):
    return Frac(num, den)


def s_arith(op, a, b):
    """arithmetic on integers and exact rationals"""
    if isinstance(a, X) and isinstance(b, X) and op != 'tdiv':
        return arith(op, a, b)
    if not isinstance(a, (X, Frac)) or not isinstance(b, (X, Frac)):
        raise _Unsup(f'operator {op} on {describe(a)} and {describe(b)}')
    if op == 'tdiv':
        if isinstance(b, Frac):
            if not _is_pos(b.num):
                raise _Unsup('division by a rational that the spec does not declare positive')
            fa = _as_frac(a, '/')
            return Frac(_mul1(fa.num, b.den), _mul1(fa.den, b.num))
        _need(b, 'Z', '/')
        fa = _as_frac(a, '/')
        if b.op == 'int' and b.a[0] < 0:
            return Frac(neg(fa.num), arith('mul', fa.den, zint(-b.a[0])))
        if not _is_pos(b):
            raise _Unsup('divisor of / is neither a non-zero literal nor an input the spec declares positive')
        return Frac(fa.num, b if (fa.den.op == 'int' and fa.den.a[0] == 1) else arith('mul', fa.den, b))
    fa, fb = _as_frac(a, op), _as_frac(b, op)
    same = _key(fa.den) == _key(fb.den)
    if op in ('add', 'sub'):
        if same:
            return Frac(arith(op, fa.num, fb.num), fa.den)
        return Frac(arith(op, _mul1(fa.num, fb.den), _mul1(fb.num, fa.den)), _mul1(fa.den, fb.den))
    if op == 'mul':
        return Frac(arith('mul', fa.num, fb.num), _mul1(fa.den, fb.den))
    raise _Unsup(f'operator {op} on a rational (only + - * / are exact)')


def _mul1(a, b):
    if b.op == 'int' and b.a[0] == 1:
        return a
    if a.op == 'int' and a.a[0] == 1:
        return b
    return arith('mul', a, b)


def _key(x):
    return (x.op, x.ty) + tuple(_key(y) if isinstance(y, X) else y for y in x.a)


def s_neg(a):
    return Frac(neg(a.num), a.den) if isinstance(a, Frac) else neg(a)


def s_cmp(op, a, b):
    if isinstance(a, X) and isinstance(b, X):
        return cmp_(op, a, b)
    fa, fb = _as_frac(a, 'comparison'), _as_frac(b, 'comparison')
    return cmp_(op, _mul1(fa.num, fb.den), _mul1(fb.num, fa.den))       # denominators are positive


def free_vars(x, acc=None):
    acc = set() if acc is None else acc
    if isinstance(x, PyTuple):
        for y in x.items:
            free_vars(y, acc)
    elif isinstance(x, tuple):
        for y in x:
            free_vars(y, acc)
    elif not isinstance(x, X):
        pass
    elif x.op == 'var':
        acc.add(x.a[0])
    elif x.op not in ('int', 'bool'):
        for y in x.a:
            free_vars(y, acc)
    return acc


# ====================================================================== structured values
class PyTuple:
    def __init__(self, items, kind='tuple'):
        self.items, self.kind = list(items), kind


class NamedTup(PyTuple):
    """an instance of a collections.namedtuple of integers"""

    def __init__(self, items, fields):
        PyTuple.__init__(self, items, 'tuple')
        self.fields = list(fields)


def _retuple(like, items):
    return NamedTup(items, like.fields) if isinstance(like, NamedTup) else PyTuple(items, like.kind)


class LList:
    """a Python list of integers (arity 0) or of integer tuples (arity n) built by the translated code itself: a list
    expression (X of type 'L'), a lower bound of its length, the arity of its elements (None: still empty).
    Lists are mutable in Python; the translator keeps every such list SINGLE-OWNER (binding it to a second name,
    storing it in a container or passing it to an untranslated call is refused / poisons it), so that `.append`
    can be translated as a rebinding."""

    def __init__(self, x, minlen, arity):
        self.x, self.minlen, self.arity, self.poisoned = x, minlen, arity, False


def llit(elems, arity):
    return X('llit', 'L', tuple(elems), arity)


class Vec:
    """a small 1-D numpy integer (or boolean) array: mutable, so aliases share the object"""

    def __init__(self, items, parents=()):
        self.items, self.parents, self.poisoned = list(items), list(parents), False


class Slice:
    def __init__(self, start, stop):
        self.start, self.stop = start, stop


class Seq:
    """an integer sequence of known length whose container type (list/tuple/array) is not known"""

    def __init__(self, items):
        self.items = list(items)


class Arr:
    """an abstract ndarray parameter: only .shape and .ndim are known"""

    def __init__(self, name, shape, ndim):
        self.name, self.shape, self.ndim, self.poisoned, self.parents = name, shape, ndim, False, []


class Obj:
    """an abstract object parameter with the integer attributes named in the spec"""

    def __init__(self, name, attrs):
        self.name, self.attrs, self.poisoned, self.parents = name, attrs, False, []


class ListOf:
    def __init__(self, name, elem):
        self.name, self.elem, self.poisoned = name, elem, False


class Opaque:
    def __init__(self, why):
        self.why = why


class Choice:
    """if c then t else f for values of different shapes (only a result may be one)"""

    def __init__(self, c, t, f):
        self.c, self.t, self.f = c, t, f


class _Const:
    def __init__(self, n):
        self.n = n

    def __repr__(self):
        return self.n


class GenArr:
    """np.arange(n) and what elementwise arithmetic with scalars makes of it: the array whose element number k is
    `elem`, an expression in the generic index k that the spec declares (spec['index_var'], an extra integer
    input).  Observing it yields the element at index k."""

    def __init__(self, elem):
        self.elem = elem


class StrV:
    """a string literal (only compared with other literals, e.g. mode == 'constant')"""

    def __init__(self, v):
        self.v = v


NONE = _Const('None')
ELLIPSIS = _Const('Ellipsis')


def describe(v):
    if isinstance(v, X):
        return 'integer' if v.ty == 'Z' else 'boolean'
    if isinstance(v, Opaque):
        return 'untranslatable value: ' + v.why
    if isinstance(v, PyTuple):
        return f'{v.kind} of {len(v.items)}'
    if isinstance(v, Frac):
        return 'rational (result of a true division)'
    if isinstance(v, LList):
        return 'list built by the function'
    return type(v).__name__ if not isinstance(v, _Const) else v.n


_IGNORE_POISON = False


def is_poisoned(v):
    if _IGNORE_POISON:
        return False
    return getattr(v, 'poisoned', False) or any(is_poisoned(p) for p in getattr(v, 'parents', ()))


def poison(v):
    if isinstance(v, (Vec, Arr, Obj)):
        v.poisoned = True
        for p in v.parents:
            poison(p)
    elif isinstance(v, (ListOf, LList)):
        v.poisoned = True
    elif isinstance(v, PyTuple):
        for it in v.items:
            poison(it)
    elif isinstance(v, Choice):
        poison(v.t)
        poison(v.f)


def find_opaque(v):
    """the reason if an opaque value occurs in v, else None"""
    if isinstance(v, Opaque):
        return v.why
    if isinstance(v, (Vec, Arr, Obj, LList)) and is_poisoned(v):
        return 'a mutable value that an untranslated statement may have changed'
    if isinstance(v, (PyTuple, Vec, Seq)):
        for it in v.items:
            r = find_opaque(it)
            if r:
                return r
    if isinstance(v, Slice):
        return find_opaque(v.start) or find_opaque(v.stop)
    if isinstance(v, Choice):
        return find_opaque(v.t) or find_opaque(v.f)
    return None


def _cast_nil(x, arity):
    """the empty literal, once the arity of its list is known"""
    return llit((), arity) if (x.op == 'llit' and not x.a[0]) else x


def _subst(x, name, by):
    """x with the variable `name` replaced by the expression `by` (scalars and exact rationals)"""
    if isinstance(x, Frac):
        return Frac(_subst(x.num, name, by), _subst(x.den, name, by))
    if not isinstance(x, X) or x.op in ('int', 'bool'):
        return x
    if x.op == 'var':
        return by if x.a[0] == name else x
    return X(x.op, x.ty, *[_subst(y, name, by) if isinstance(y, (X, Frac)) else y for y in x.a])


def _degen(v):
    """an observed arange-derived array stands for its element at the generic index"""
    if isinstance(v, GenArr):
        return v.elem
    if isinstance(v, PyTuple):
        return _retuple(v, [_degen(it) for it in v.items])
    return v


def lift_choice(v):
    """a tuple with a component that is a choice between shapes -> the choice between the two tuples"""
    if isinstance(v, PyTuple):
        for i, it in enumerate(v.items):
            it = lift_choice(it)
            if isinstance(it, Choice):
                return Choice(it.c, lift_choice(PyTuple(v.items[:i] + [it.t] + v.items[i + 1:], v.kind)),
                              lift_choice(PyTuple(v.items[:i] + [it.f] + v.items[i + 1:], v.kind)))
    return v


def merge_values(c, vt, vf):
    if vt is vf:
        return vt
    if isinstance(vt, Opaque) or isinstance(vf, Opaque):
        return vt if isinstance(vt, Opaque) else vf
    if isinstance(vt, X) and isinstance(vf, X) and vt.ty == vf.ty:
        return ite(c, vt, vf)
    if isinstance(vt, Frac) and isinstance(vf, Frac) and _key(vt.den) == _key(vf.den):
        return Frac(ite(c, vt.num, vf.num), vt.den)
    if (isinstance(vt, PyTuple) and isinstance(vf, PyTuple) and vt.kind == vf.kind
            and len(vt.items) == len(vf.items)):
        return _retuple(vt if isinstance(vf, NamedTup) else vf, [merge_values(c, a, b) for a, b in zip(vt.items, vf.items)])
    if isinstance(vt, LList) and isinstance(vf, LList) and (vt.arity == vf.arity or None in (vt.arity, vf.arity)):
        ar = vt.arity if vt.arity is not None else vf.arity
        return LList(ite(c, _cast_nil(vt.x, ar), _cast_nil(vf.x, ar)), min(vt.minlen, vf.minlen), ar)
    if isinstance(vt, Vec) and isinstance(vf, Vec) and len(vt.items) == len(vf.items):
        return Vec([merge_values(c, a, b) for a, b in zip(vt.items, vf.items)], parents=[vt, vf])
    if isinstance(vt, Slice) and isinstance(vf, Slice):
        return Slice(merge_values(c, vt.start, vf.start), merge_values(c, vt.stop, vf.stop))
    return Choice(c, vt, vf)


# ====================================================================== parameter kinds of the specs
def T(n):
    return ('T', n)


NONE_K = ('NONE',)
OPAQUE_K = ('OPAQUE',)
BOOL_K = ('B',)
SLICEBOX_K = ('SLICEBOX',)


def SEQ(n):
    return ('SEQ', n)


def CONSTB(b):
    return ('CONSTB', bool(b))


def STR(v):
    return ('STR', v)


def VEC(n):
    return ('VEC', n)


Z_K = ('Z',)
QPAIR_K = ('QPAIR',)
Q_K = ('Q',)                   # a rational input (numerator, positive denominator)
Q_POS = ('Q', 'pos')           # a positive rational input
Z_POS = ('Z', 'pos')           # an integer input the instance assumes positive (a divisor)


def ARR(ndim):
    return ('ARR', ndim)


def OBJ(**attrs):
    return ('OBJ', attrs)


def LISTOF(elem):
    return ('LISTOF', elem)


# result types
TZ, TB = ('Z',), ('B',)


def TT(*ts):
    return ('tuple', list(ts))


def TZn(n):
    return TT(*([TZ] * n))


def TOPT(t):
    return ('option', t)


def TRES(t):
    return ('result', t)


TSL = TT(TZ, TZ)                      # a slice: (start, stop)


def coq_type(t):
    k = t[0]
    if k == 'Z':
        return 'Z'
    if k == 'B':
        return 'bool'
    if k == 'tuple':
        return '(' + ' * '.join(coq_type(x) for x in t[1]) + ')'
    if k == 'option':
        return f'(option {coq_type(t[1])})'
    if k == 'result':
        return f'(result {coq_type(t[1])})'
    if k == 'list':
        return f'(list {coq_type(t[1])})'
    raise ValueError(t)


_RESERVED = set('''as at cofix else end exists exists2 fix for forall fun if IF in let match mod return Set Prop
SProp Type then using where with by nat Z bool list option result true false None Some Ok Err fst snd pair
Admitted admit Axiom Axioms Parameter Parameters Conjecture Conjectures Variable Variables Hypothesis
Hypotheses Context Definition Lemma Theorem Proof Qed negb andb orb nr nc get ValueError TypeError IndexError
fold_left map max min st el _reduce Z0 Zpos Zneg'''.split())


class Namer:
    def __init__(self):
        self.used = set()

    def fresh(self, base):
        base = ''.join(ch if (ch.isalnum() and ch.isascii()) or ch == '_' else '_' for ch in base) or 'v'
        if base[0].isdigit():
            base = 'v' + base
        base = base.rstrip('_') or 'v'           # a trailing underscore plus digits would look like an SSA suffix
        cand, k = base, 0
        while cand in self.used or cand in _RESERVED or cand.startswith('src_'):
            k += 1
            cand = f'{base}_{k}'
        self.used.add(cand)
        return cand


# ====================================================================== the symbolic executor
_ERRKINDS = {'ValueError': 'ValueError', 'TypeError': 'TypeError', 'IndexError': 'IndexError',
             'NotImplementedError': 'NotImplementedErr', 'AssertionError': 'AssertionErr',
             'AttributeError': 'AttributeErr'}
_BINOPS = {ast.Add: 'add', ast.Sub: 'sub', ast.Mult: 'mul', ast.FloorDiv: 'div', ast.Mod: 'mod'}
_CMPOPS = {ast.LtE: 'le', ast.Lt: 'lt', ast.GtE: 'ge', ast.Gt: 'gt', ast.Eq: 'eq', ast.NotEq: 'ne'}


def _elem_arity(items):
    """the common arity of the elements of a list of integers (0) / of integer tuples (n); None if empty; False if
    the items are something else"""
    ar = None
    for it in items:
        if isinstance(it, X) and it.ty == 'Z':
            a = 0
        elif isinstance(it, PyTuple) and it.kind == 'tuple' and len(it.items) >= 2 and all(
                isinstance(x, X) and x.ty == 'Z' for x in it.items):
            a = len(it.items)
        else:
            return False
        if ar is not None and ar != a:
            return False
        ar = a
    return ar


def _dotted(node):
    if isinstance(node, ast.Name):
        return node.id
    if isinstance(node, ast.Attribute):
        b = _dotted(node.value)
        return None if b is None else b + '.' + node.attr
    return None


def _is_docstring(s):
    return isinstance(s, ast.Expr) and isinstance(s.value, ast.Constant) and isinstance(s.value.value, str)


def _has_exit(stmts):
    for s in stmts:
        for n in ast.walk(s):
            if isinstance(n, (ast.Return, ast.Raise, ast.Break, ast.Continue, ast.Yield, ast.YieldFrom, ast.Assert)):
                return True
    return False


def _stored_names(s):
    out = []
    for n in ast.walk(s):
        if isinstance(n, ast.Name) and isinstance(n.ctx, (ast.Store, ast.Del)) and n.id not in out:
            out.append(n.id)
        elif isinstance(n, (ast.Import, ast.ImportFrom)):
            for a in n.names:
                nm = (a.asname or a.name).split('.')[0]
                if nm not in out:
                    out.append(nm)
    return out


def _loaded_names(s):
    return {n.id for n in ast.walk(s) if isinstance(n, ast.Name)}


def _base_name(e):
    while isinstance(e, (ast.Attribute, ast.Subscript, ast.Starred)):
        e = e.value
    return e.id if isinstance(e, ast.Name) else None


# numpy functions that neither modify their array arguments nor return a view of them (documented behaviour of
# numpy, not an assumption about lentil): passing a tracked array to them does not poison it
_PURE_NP = {'zeros_like', 'ones_like', 'empty_like', 'full_like', 'sum', 'iscomplexobj', 'isrealobj', 'issubdtype',
            'isscalar', 'abs', 'absolute', 'any', 'all', 'where', 'nonzero', 'count_nonzero', 'diff', 'min', 'max',
            'amin', 'amax', 'ndim', 'shape', 'size', 'finfo', 'ceil', 'floor', 'sqrt', 'square', 'array_equal',
            'allclose', 'isclose', 'mean', 'prod', 'dot', 'outer', 'tile', 'repeat', 'einsum', 'zeros', 'ones', 'empty'}
# attributes of an ndarray that are not views of its data
_ARR_META = {'dtype', 'shape', 'ndim', 'size', 'itemsize', 'nbytes'}


def _direct_refs(e, env):
    """names whose OBJECT (or a view of it) the expression can evaluate to: these are what a callee receiving the
    value could mutate.  Arithmetic, comparisons and literals create new objects."""
    if isinstance(e, ast.Name):
        return {e.id}
    if isinstance(e, (ast.Attribute, ast.Subscript)):
        b = _base_name(e)
        if b is None:
            return _direct_refs(e.value, env)
        v = env.get(b)
        inner = e
        while isinstance(inner, (ast.Attribute, ast.Subscript)) and not isinstance(inner.value, ast.Name):
            inner = inner.value
        if isinstance(inner, ast.Attribute) and isinstance(inner.value, ast.Name) and inner.attr in _ARR_META \
                and isinstance(v, (Arr, Vec)):
            return set()               # img.shape, img.shape[1], img.dtype.kind: metadata, not the data
        if isinstance(e, ast.Subscript) and isinstance(e.value, ast.Name) and isinstance(v, (Vec, Seq, PyTuple)):
            i = e.slice
            if isinstance(i, ast.UnaryOp) and isinstance(i.op, ast.USub):
                i = i.operand
            if isinstance(i, ast.Constant) and isinstance(i.value, int) and not isinstance(i.value, bool):
                return set()           # one element of a 1-d integer vector is a scalar, not a view
        if isinstance(v, Obj) and isinstance(e, ast.Attribute) and isinstance(e.value, ast.Name):
            a = v.attrs.get(e.attr)
            # an attribute of an abstract object: only a declared mutable integer attribute exposes it
            return {b} if isinstance(a, (Seq, Vec)) else set()
        return {b}
    if isinstance(e, ast.Starred):
        return _direct_refs(e.value, env)
    if isinstance(e, (ast.Tuple, ast.List, ast.Set)):
        return set().union(*[_direct_refs(x, env) for x in e.elts]) if e.elts else set()
    if isinstance(e, ast.Dict):
        return set().union(*[_direct_refs(x, env) for x in e.values if x is not None]) if e.values else set()
    if isinstance(e, ast.IfExp):
        return _direct_refs(e.body, env) | _direct_refs(e.orelse, env)
    if isinstance(e, ast.BoolOp):
        return set().union(*[_direct_refs(x, env) for x in e.values])
    if isinstance(e, ast.Call):
        out = set()
        d = _dotted(e.func)
        if d and d.split('.')[0] in ('np', 'numpy') and d.count('.') == 1 and d.split('.')[1] in _PURE_NP \
                and 'np' not in env and 'numpy' not in env:
            if any(k.arg == 'out' for k in e.keywords):
                return {m.id for m in ast.walk(e) if isinstance(m, ast.Name)}
            # the function itself does not touch its arguments; nested calls inside them are judged on their own
            for a in list(e.args) + [k.value for k in e.keywords]:
                for sub in ast.walk(a):
                    if isinstance(sub, ast.Call):
                        out |= _direct_refs(sub, env)
            return out
        if isinstance(e.func, ast.Attribute):
            out |= _direct_refs(e.func.value, env)        # the receiver (the result may alias it)
        for a in e.args:
            out |= _direct_refs(a, env)
        for k in e.keywords:
            out |= _direct_refs(k.value, env)
        return out
    if isinstance(e, (ast.BinOp, ast.UnaryOp, ast.Compare, ast.Constant, ast.JoinedStr, ast.FormattedValue,
                      ast.Slice)):
        return set()
    return {m.id for m in ast.walk(e) if isinstance(m, ast.Name)}          # anything else: be conservative


def _mutation_suspects(s, env):
    """the names whose (mutable) values an untranslated statement could change: the receiver and the directly
    passed arguments of every call, the base of a subscript/attribute store target, the target of an augmented
    assignment.  Operators, subscript and attribute READS on integers / numpy arrays do not mutate."""
    out = set()
    for n in ast.walk(s):
        if isinstance(n, ast.Call):
            out |= _direct_refs(n, env)
        elif isinstance(n, (ast.Subscript, ast.Attribute)) and isinstance(n.ctx, (ast.Store, ast.Del)):
            b = _base_name(n)
            if b and isinstance(n, ast.Subscript) and isinstance(n.value, ast.Name) and isinstance(env.get(b), Arr):
                continue               # a[...] = v changes the data of an array, never its shape / ndim
            out |= {b} if b else {m.id for m in ast.walk(n) if isinstance(m, ast.Name)}
        elif isinstance(n, ast.AugAssign):
            b = _base_name(n.target)
            if b:
                out.add(b)
    return out


class Exec:
    def __init__(self, spec, fdefs, namer):
        self.spec, self.fdefs, self.namer = spec, fdefs, namer
        self.binds = None          # current let list (None: substitute)
        self.helpers = []          # auxiliary definitions (loop step functions)
        self.depth = 0
        self.returns = []          # Return nodes of the translated region, textual order
        self.atoms = {}            # unparse(call) -> value
        self.index_var = None      # the generic index of arange-derived arrays (spec['index_var'])
        self.mesh_vars = None      # the generic (row, column) indices of np.meshgrid results (spec['mesh_vars'])
        self.call_obs = {}         # label -> values of the arguments of the observed calls
        self.call_named = {}       # <label>_<target name> -> arguments of the observed call bound to that name
        self.guards = []           # conditions under which the statement being executed raises IndexError
        self.retk = []             # return continuations of the calls being executed "with exits"
        self.globals_cache = {}    # (module prefix, name) -> value of a module-level constant
        self.exit_memo = {}        # id(FunctionDef) -> whether calling it can raise (assert/raise inside)
        self.assumed = {}          # local name -> input value (spec['assume'])
        self.assume_done = set()   # assumed names whose first binding statement has been passed
        self.assumed_at_loop = {}  # local name -> input value, rebound when the focused loop is entered
        self.arr_atoms = {}        # (callee, array parameter) -> value  (spec['arr_calls'])
        self.arr_sigs = {}         # (callee, array parameter) -> signature of the remaining arguments
        self.modstack = [('', fdefs)]   # (module prefix, function definitions) of the code being executed
        self.loader = None         # file -> function definitions (for spec['modules'])

    # ------------------------------------------------------------ binding
    def letbind(self, name, v):
        if self.binds is None:
            return v
        if isinstance(v, X):
            if v.op in ('var', 'int', 'bool'):
                return v
            nm = self.namer.fresh(name)
            self.binds.append(('let', nm, v))
            return var(nm, v.ty)
        if isinstance(v, PyTuple):
            return _retuple(v, [self.letbind(f'{name}_{i}', it) for i, it in enumerate(v.items)])
        if isinstance(v, LList):
            if v.x.op == 'var' or (v.x.op == 'llit' and not v.x.a[0]):
                return v
            nm = self.namer.fresh(name)
            self.binds.append(('let', nm, v.x))
            return LList(var(nm, 'L'), v.minlen, v.arity)
        if isinstance(v, Vec):
            v.items = [self.letbind(f'{name}_{i}', it) for i, it in enumerate(v.items)]      # in place: aliases
            return v
        if isinstance(v, Slice):
            return Slice(self.letbind(name + '_start', v.start), self.letbind(name + '_stop', v.stop))
        if isinstance(v, Frac):
            return Frac(self.letbind(name + '_num', v.num), v.den)
        return v

    # ------------------------------------------------------------ expressions
    def ev(self, node, env):
        m = getattr(self, 'ev_' + type(node).__name__, None)
        if m is None:
            raise _Unsup('expression form ' + type(node).__name__)
        return m(node, env)

    def ev_Constant(self, node, env):
        v = node.value
        if isinstance(v, bool):
            return bconst(v)
        if isinstance(v, int):
            return zint(v)
        if v is None:
            return NONE
        if v is Ellipsis:
            return ELLIPSIS
        if isinstance(v, float) and self.spec.get('rationals') and v.is_integer() and abs(v) < 2 ** 53:
            return zint(int(v))                     # 2.0 in `n/2.0`: the division is an exact rational anyway
        if isinstance(v, str):
            return StrV(v)
        raise _Unsup(f'literal {v!r} is not an integer')

    def ev_Name(self, node, env):
        if node.id in env:
            v = env[node.id]
            return v
        if node.id == 'Ellipsis':
            return ELLIPSIS
        if node.id in self.spec.get('globals', ()):
            return self.module_constant(node.id)
        raise _Unsup(f'name {node.id!r} is not a parameter or a translated local')

    def module_constant(self, name):
        """a module-level constant the spec names: assigned exactly once at module level, by an expression the
        translator can evaluate (e.g. a list of named tuples)"""
        prefix, fdefs = self.modstack[-1]
        key = (prefix, name)
        if key not in self.globals_cache:
            vals = fdefs.get('__module__', {}).get('assigns', {}).get(name, [])
            if len(vals) != 1:
                raise _Unsup(f'module constant {name} is assigned {len(vals)} times at module level')
            self.depth += 1
            saved, self.binds = self.binds, None
            try:
                self.globals_cache[key] = self.ev(vals[0], {})
            finally:
                self.depth -= 1
                self.binds = saved
        return self.globals_cache[key]

    def ev_Tuple(self, node, env):
        if any(isinstance(e, ast.Starred) for e in node.elts):
            raise _Unsup('starred tuple element')
        return PyTuple([self.ev(e, env) for e in node.elts], 'tuple')

    def ev_List(self, node, env):
        if any(isinstance(e, ast.Starred) for e in node.elts):
            raise _Unsup('starred list element')
        items = [self.ev(e, env) for e in node.elts]
        if self.spec.get('lists'):
            ar = _elem_arity(items)
            if ar is not False:
                return LList(llit(items, ar), len(items), ar)
        return PyTuple(items, 'list')

    def _elementwise(self, f, a, b):
        av, bv = isinstance(a, Vec), isinstance(b, Vec)
        for v in (a, b):
            if isinstance(v, Vec) and is_poisoned(v):
                raise _Unsup('array that an untranslated statement may have changed')
        if av and bv:
            if len(a.items) != len(b.items):
                raise _Unsup('numpy broadcasting of vectors of different lengths')
            return Vec([f(x, y) for x, y in zip(a.items, b.items)])
        if av:
            return Vec([f(x, b) for x in a.items])
        return Vec([f(a, y) for y in b.items])

    def ev_BinOp(self, node, env):
        op = _BINOPS.get(type(node.op))
        if isinstance(node.op, ast.Div):
            if not self.spec.get('rationals'):
                raise _Unsup('true division / (floating point) is not integer arithmetic')
            op = 'tdiv'
        if isinstance(node.op, ast.BitAnd):
            a, b = self.ev(node.left, env), self.ev(node.right, env)
            if isinstance(b, X) and b.op == 'int' and b.a[0] == 1:
                return arith('mod', a, zint(2))           # parity, also for negative integers
            if isinstance(a, X) and a.op == 'int' and a.a[0] == 1:
                return arith('mod', b, zint(2))
            raise _Unsup('bitwise & with something other than the literal 1')
        if isinstance(node.op, ast.Pow):
            # x ** 2, x ** 3 for an integer x and a literal exponent: repeated multiplication
            a, b = self.ev(node.left, env), self.ev(node.right, env)
            if isinstance(a, X) and a.ty == 'Z' and isinstance(b, X) and b.op == 'int' and 1 <= b.a[0] <= 4:
                r = a
                for _ in range(b.a[0] - 1):
                    r = s_arith('mul', r, a)
                return r
            raise _Unsup('** other than an integer to a literal power 1..4')
        if op is None:
            raise _Unsup('binary operator ' + type(node.op).__name__)
        a, b = self.ev(node.left, env), self.ev(node.right, env)
        if isinstance(a, GenArr) or isinstance(b, GenArr):
            for v in (a, b):
                if not isinstance(v, (GenArr, X, Frac)):
                    raise _Unsup(f'arithmetic between an arange-derived array and a {describe(v)}')
            ea = a.elem if isinstance(a, GenArr) else a
            eb = b.elem if isinstance(b, GenArr) else b
            return GenArr(s_arith(op, ea, eb))
        if isinstance(a, Vec) or isinstance(b, Vec):
            for v in (a, b):
                if not isinstance(v, (Vec, X, Frac)):
                    raise _Unsup(f'arithmetic between a numpy vector and a {describe(v)}')
            return self._elementwise(lambda x, y: s_arith(op, x, y), a, b)
        if op == 'add' and isinstance(a, PyTuple) and isinstance(b, PyTuple) and a.kind == b.kind \
                and not isinstance(a, NamedTup) and not isinstance(b, NamedTup):
            return PyTuple(list(a.items) + list(b.items), a.kind)         # tuple + tuple: concatenation
        return s_arith(op, a, b)

    def ev_UnaryOp(self, node, env):
        a = self.ev(node.operand, env)
        if isinstance(node.op, ast.USub):
            if isinstance(a, Vec):
                if is_poisoned(a):
                    raise _Unsup('array that an untranslated statement may have changed')
                return Vec([s_neg(x) for x in a.items])
            return s_neg(a)
        if isinstance(node.op, ast.UAdd):
            _need(a, 'Z', 'unary +')
            return a
        if isinstance(node.op, ast.Not):
            return bnot(a)
        raise _Unsup('unary operator ' + type(node.op).__name__)

    def ev_BoolOp(self, node, env):
        vals = [self.ev(v, env) for v in node.values]
        f = band if isinstance(node.op, ast.And) else bor
        return functools.reduce(f, vals)

    def struct_eq(self, a, b):
        """Python == between two values, as a boolean expression (statically decided where kinds differ)"""
        for v in (a, b):
            r = find_opaque(v)
            if r:
                raise _Unsup('== on ' + r)
        if isinstance(a, X) and isinstance(b, X):
            if a.ty == 'Z' and b.ty == 'Z':
                return cmp_('eq', a, b)
            raise _Unsup('== between booleans')
        if isinstance(a, PyTuple) and isinstance(b, PyTuple):
            if a.kind != b.kind:
                return bconst(False)        # a list never equals a tuple
            if len(a.items) != len(b.items):
                return bconst(False)
            return functools.reduce(band, [self.struct_eq(x, y) for x, y in zip(a.items, b.items)], bconst(True))
        if isinstance(a, Slice) and isinstance(b, Slice):
            return band(self.struct_eq(a.start, b.start), self.struct_eq(a.stop, b.stop))
        kinds = (PyTuple, Slice, _Const, StrV)
        if isinstance(a, StrV) and isinstance(b, StrV):
            return bconst(a.v == b.v)
        if isinstance(a, _Const) and isinstance(b, _Const):
            return bconst(a is b)
        if isinstance(a, kinds) and isinstance(b, kinds):
            return bconst(False)             # tuple vs slice vs None/Ellipsis: different types are unequal
        if isinstance(a, X) and a.ty == 'Z' and isinstance(b, (PyTuple, Slice, _Const)):
            return bconst(False)
        if isinstance(b, X) and b.ty == 'Z' and isinstance(a, (PyTuple, Slice, _Const)):
            return bconst(False)
        raise _Unsup(f'== between {describe(a)} and {describe(b)}')

    def ev_Compare(self, node, env):
        vals = [self.ev(node.left, env)] + [self.ev(c, env) for c in node.comparators]
        out = None
        for k, op in enumerate(node.ops):
            a, b = vals[k], vals[k + 1]
            if isinstance(op, (ast.Is, ast.IsNot)):
                for v in (a, b):
                    if find_opaque(v) or isinstance(v, Choice):
                        raise _Unsup('identity test on an untranslatable value')
                if not (isinstance(a, _Const) or isinstance(b, _Const)):
                    raise _Unsup('`is` between values other than None/Ellipsis')
                r = bconst((a is b) == isinstance(op, ast.Is))
            elif isinstance(op, (ast.In, ast.NotIn)):
                if isinstance(b, LList) and b.x.op == 'llit' and not b.poisoned:
                    b = PyTuple(list(b.x.a[0]), 'list')
                if not isinstance(b, PyTuple):
                    raise _Unsup('`in` with a right operand that is not a tuple/list literal value')
                r = functools.reduce(bor, [self.struct_eq(a, it) for it in b.items], bconst(False))
                if isinstance(op, ast.NotIn):
                    r = bnot(r)
            elif isinstance(a, Vec) or isinstance(b, Vec):
                cop = _CMPOPS.get(type(op))
                if cop is None:
                    raise _Unsup('comparison operator ' + type(op).__name__ + ' on a numpy vector')
                # numpy converts a tuple/list operand of the same length to an array
                a, b = [Vec(self._ints(v, 'comparison')) if isinstance(v, PyTuple) and v.items else v for v in (a, b)]
                if isinstance(a, Vec) and isinstance(b, Vec) and len(a.items) != len(b.items):
                    raise _Unsup('comparison of vectors of different lengths')
                for v in (a, b):
                    if not isinstance(v, (Vec, X, Frac)):
                        raise _Unsup('comparison of a numpy vector with a ' + describe(v))
                r = self._elementwise(lambda x, y: s_cmp(cop, x, y), a, b)
                if len(node.ops) > 1:
                    raise _Unsup('chained comparison of numpy vectors')
                return r
            elif isinstance(op, (ast.Eq, ast.NotEq)) and not (isinstance(a, (X, Frac)) and isinstance(b, (X, Frac))):
                r = self.struct_eq(a, b)
                if isinstance(op, ast.NotEq):
                    r = bnot(r)
            else:
                cop = _CMPOPS.get(type(op))
                if cop is None:
                    raise _Unsup('comparison operator ' + type(op).__name__)
                r = s_cmp(cop, a, b)
            out = r if out is None else band(out, r)
        return out

    def ev_IfExp(self, node, env):
        c = self.ev(node.test, env)
        _need(c, 'B', 'condition of a conditional expression')
        if c.op == 'bool':
            return self.ev(node.body if c.a[0] else node.orelse, env)
        return merge_values(c, self.ev(node.body, env), self.ev(node.orelse, env))

    def ev_Slice(self, node, env):
        if node.step is not None:
            raise _Unsup('slice with a step')
        lo = NONE if node.lower is None else self.ev(node.lower, env)
        hi = NONE if node.upper is None else self.ev(node.upper, env)
        return Slice(lo, hi)

    def ev_Subscript(self, node, env):
        if _dotted(node.value) == 'np.s_':
            idx = self.ev(node.slice, env)
            return idx
        if _dotted(node.value) in ('np.mgrid', 'numpy.mgrid'):
            # np.mgrid[0:n, 0:m] -> (yy, xx) with yy[i, j] = i, xx[i, j] = j for the generic indices of the spec
            idx = self.ev(node.slice, env)
            if self.mesh_vars is None or not (isinstance(idx, PyTuple) and len(idx.items) == 2 and all(
                    isinstance(sl, Slice) and isinstance(sl.start, X) and sl.start.op == 'int' and sl.start.a[0] == 0
                    and isinstance(sl.stop, X) and sl.stop.ty == 'Z' for sl in idx.items)):
                raise _Unsup('np.mgrid other than np.mgrid[0:n, 0:m] with integer n, m')
            i, j = self.mesh_vars
            return PyTuple([GenArr(i), GenArr(j)])
        base = self.ev(node.value, env)
        if isinstance(base, Opaque):
            raise _Unsup(base.why)
        if isinstance(base, LList):
            return self.list_index(base, self.ev(node.slice, env))
        if isinstance(base, Arr) and not is_poisoned(base) and isinstance(node.slice, ast.Tuple) \
                and len(node.slice.elts) == 2 and isinstance(node.slice.elts[0], ast.Constant) \
                and node.slice.elts[0].value is Ellipsis and _dotted(node.slice.elts[1]) in ('np.newaxis', 'numpy.newaxis'):
            # a[..., np.newaxis]: a view with one more axis, of length 1, at the end
            return Arr(base.name, PyTuple(list(base.shape.items) + [zint(1)]), base.ndim + 1)
        if isinstance(base, (PyTuple, Vec, Seq)):
            if isinstance(base, Vec) and is_poisoned(base):
                raise _Unsup('array that an untranslated statement may have changed')
            idx = self.ev(node.slice, env)
            if not (isinstance(idx, X) and idx.op == 'int'):
                raise _Unsup('subscript that is not a constant integer')
            k = idx.a[0]
            if not -len(base.items) <= k < len(base.items):
                raise _Unsup(f'constant subscript {k} out of range (IndexError)')
            return base.items[k]
        raise _Unsup('subscript of a ' + describe(base))

    def list_index(self, l, idx):
        """l[idx] with Python's negative indices; an index that may be out of range adds a guard (IndexError)"""
        if is_poisoned(l):
            raise _Unsup('list that an untranslated statement may have changed')
        if not (isinstance(idx, X) and idx.ty == 'Z'):
            raise _Unsup('list subscript that is not an integer')
        if idx.op == 'int' and l.x.op == 'llit' and -len(l.x.a[0]) <= idx.a[0] < len(l.x.a[0]):
            return l.x.a[0][idx.a[0]]
        if l.arity != 0:
            raise _Unsup('indexing a list of tuples by a non-constant index')
        ln = X('llen', 'Z', l.x)
        if idx.op == 'int':
            k = idx.a[0]
            if k == -1 and l.minlen >= 1:
                return X('llast', 'Z', l.x)
            if 0 <= k < l.minlen:
                return X('lnth', 'Z', l.x, idx)
            if k < 0 and -k <= l.minlen:
                return X('lnth', 'Z', l.x, arith('add', ln, idx))
        if self.binds is None or self.depth:
            raise _Unsup('list index that may be out of range, inside a branch or an inlined call')
        kk = ite(cmp_('lt', idx, zint(0)), arith('add', idx, ln), idx)
        self.guards.append(band(cmp_('le', zint(0), kk), cmp_('lt', kk, ln)))
        return X('lnth', 'Z', l.x, kk)

    def ev_Attribute(self, node, env):
        d = _dotted(node)
        if d == 'sys.maxsize' and 'sys' not in env:
            return zint(sys.maxsize)
        base = self.ev(node.value, env)
        if isinstance(base, Opaque):
            raise _Unsup(base.why)
        if isinstance(base, (Arr, Obj)) and is_poisoned(base):
            raise _Unsup(f'{base.name} may have been changed by an untranslated statement')
        if isinstance(base, Arr):
            if node.attr == 'shape':
                return base.shape
            if node.attr == 'ndim':
                return zint(base.ndim)
            if node.attr == 'size':
                return functools.reduce(lambda x, y: arith('mul', x, y), base.shape.items) if base.shape.items else zint(1)
        if isinstance(base, Obj) and node.attr in base.attrs:
            return base.attrs[node.attr]
        if isinstance(base, Slice) and node.attr in ('start', 'stop'):
            return getattr(base, node.attr)
        if isinstance(base, NamedTup) and node.attr in base.fields:
            return base.items[base.fields.index(node.attr)]
        if isinstance(base, Vec) and node.attr == 'shape':
            return PyTuple([zint(len(base.items))])
        raise _Unsup(f'attribute .{node.attr} of a {describe(base)}')

    def _ints(self, v, what):
        """the integer items of a tuple/list/vector/sequence value"""
        if isinstance(v, (PyTuple, Vec, Seq)):
            if isinstance(v, Vec) and is_poisoned(v):
                raise _Unsup('array that an untranslated statement may have changed')
            for it in v.items:
                _need(it, 'Z', what)
            return list(v.items)
        raise _Unsup(f'{what}: argument is a {describe(v)}')

    def resolve(self, d):
        """the definition of an inlinable function named d in the code being executed, or None"""
        inl = self.spec.get('inline', ())
        prefix, fdefs = self.modstack[-1]
        if '.' not in d:
            q = d if not prefix else prefix + '.' + d
            return ((prefix, fdefs), fdefs[d]) if (d in fdefs and q in inl) else None
        for mp, mfile in self.spec.get('modules', {}).items():
            if d.startswith(mp + '.') and '.' not in d[len(mp) + 1:] and d in inl and self.loader:
                mf = self.loader(mfile)
                f = d[len(mp) + 1:]
                if f in mf:
                    return (mp, mf), mf[f]
        return None

    def ev_Call(self, node, env):
        if any(isinstance(a, ast.Starred) for a in node.args) or any(k.arg is None for k in node.keywords):
            raise _Unsup('call with a starred argument')
        d = _dotted(node.func)
        if (isinstance(node.func, ast.Attribute) and node.func.attr == 'astype' and len(node.args) == 1
                and not node.keywords and isinstance(node.args[0], ast.Name) and node.args[0].id == 'int'
                and 'int' not in env):
            v = self.ev(node.func.value, env)          # <integer vector>.astype(int): the same integers
            if isinstance(v, Vec) and not is_poisoned(v) and all(isinstance(x, X) and x.ty == 'Z' for x in v.items):
                return Vec(list(v.items))
            if isinstance(v, X) and v.ty == 'Z':
                return v
            raise _Unsup('astype(int) of a ' + describe(v))
        if d is None:
            raise _Unsup('call of a computed function')
        head = d.split('.')[0]
        if head in env:
            raise _Unsup(f'call of {d}: the name {head!r} is a local value here')
        if d in ('np.zeros', 'numpy.zeros', 'np.ones', 'numpy.ones', 'np.empty', 'numpy.empty') and len(node.args) == 1 \
                and all(k.arg == 'dtype' for k in node.keywords) and self.spec.get('new_arrays'):
            sh = self.ev(node.args[0], env)
            if isinstance(sh, PyTuple) and all(isinstance(x, X) and x.ty == 'Z' for x in sh.items):
                return Arr('a fresh array', PyTuple(list(sh.items)), len(sh.items))
            raise _Unsup(f'{d} of a shape that is not a tuple of integers')
        if d in ('np.arange', 'numpy.arange') and self.index_var is not None and len(node.args) == 1 \
                and all(k.arg == 'dtype' for k in node.keywords):
            _need(self.ev(node.args[0], env), 'Z', d)
            return GenArr(self.index_var)                # element number k of np.arange(n) is k (for 0 <= k < n)
        if d in ('np.meshgrid', 'numpy.meshgrid') and self.mesh_vars is not None and len(node.args) == 2 \
                and all(k.arg == 'indexing' and isinstance(k.value, ast.Constant) and k.value.value in ('ij', 'xy')
                        for k in node.keywords):
            A, B = self.ev(node.args[0], env), self.ev(node.args[1], env)
            if not (isinstance(A, GenArr) and isinstance(B, GenArr) and self.index_var is not None):
                raise _Unsup('np.meshgrid of something that is not derived from np.arange')
            ij = any(k.value.value == 'ij' for k in node.keywords)
            i, j = self.mesh_vars
            k0 = self.index_var.a[0]
            # indexing='ij': X[i, j] = A[i], Y[i, j] = B[j];  default 'xy': X[i, j] = A[j], Y[i, j] = B[i]
            return PyTuple([GenArr(_subst(A.elem, k0, i if ij else j)), GenArr(_subst(B.elem, k0, j if ij else i))])
        target = self.resolve(d)
        if target is not None:
            args = [self.ev(a, env) for a in node.args]
            kw = {k.arg: self.ev(k.value, env) for k in node.keywords}
            return self.inline_split(d, target, args, kw)
        if node.keywords:
            raise _Unsup('call with keyword arguments')
        recs = self.modstack[-1][1].get('__module__', {}).get('records', {})
        if d in recs:
            vals = [self.ev(a, env) for a in node.args]
            if len(vals) != len(recs[d]):
                raise _Unsup(f'{d}: wrong number of fields')
            for v in vals:
                _need(v, 'Z', d)
            return NamedTup(vals, recs[d])
        if d in self.spec.get('arr_calls', {}):
            return self.arr_call(d, node, env)
        key = ast.unparse(node)
        calls = self.spec.get('calls', {})
        if key in calls:
            if key not in self.atoms:
                raise _Unsup(f'{key}: an argument was rebound before the call')
            for nm in _loaded_names(node) - {head}:
                if env.get(nm) is not self.param0.get(nm):
                    raise _Unsup(f'{key}: argument {nm} is no longer the parameter')
            return self.atoms[key]
        args = [self.ev(a, env) for a in node.args]
        n = len(args)
        if d == 'int' and n == 1:
            if isinstance(args[0], Frac):
                return arith('quot', args[0].num, args[0].den)        # truncation toward zero
            _need(args[0], 'Z', 'int()')
            return args[0]
        if d == 'round' and n == 1:
            _need(args[0], 'Z', 'round()')                  # round of an integer is the integer
            return args[0]
        if d in ('np.isscalar', 'numpy.isscalar') and n == 1:
            v = args[0]
            if isinstance(v, (X, Frac)):
                return bconst(True)
            if isinstance(v, (PyTuple, Vec, Seq, LList, Slice)) or v is NONE:
                return bconst(False)
            raise _Unsup('np.isscalar of a ' + describe(v))
        if d in ('np.floor', 'numpy.floor', 'math.floor', 'np.ceil', 'numpy.ceil', 'math.ceil') and n == 1:
            v = args[0]                                     # (the float result is an integer: kept as an integer)
            if isinstance(v, (PyTuple, Vec)) and d.startswith('n') and v.items:
                if isinstance(v, Vec) and is_poisoned(v):
                    raise _Unsup('array that an untranslated statement may have changed')
                out = []
                for it in v.items:
                    if isinstance(it, Frac):
                        out.append(arith('div', it.num, it.den) if d.endswith('floor')
                                   else neg(arith('div', neg(it.num), it.den)))
                    else:
                        _need(it, 'Z', d)
                        out.append(it)
                return Vec(out)
            if isinstance(v, Frac):
                if d.endswith('floor'):
                    return arith('div', v.num, v.den)
                return neg(arith('div', neg(v.num), v.den))
            _need(v, 'Z', d)
            return v
        if d in ('max', 'min', 'np.max', 'np.min', 'numpy.max', 'numpy.min'):
            op = d.split('.')[-1]
            if n == 1:
                items = self._ints(args[0], op)
            elif d in ('max', 'min') and n >= 2:
                items = args
                for it in items:
                    _need(it, 'Z', op)
            else:
                raise _Unsup(f'{d} with {n} arguments')
            if not items:
                raise _Unsup(f'{op} of an empty sequence (ValueError)')
            return functools.reduce(lambda x, y: arith(op, x, y), items)
        if d == 'len' and n == 1:
            if isinstance(args[0], LList) and not is_poisoned(args[0]):
                return X('llen', 'Z', args[0].x)
            if isinstance(args[0], (PyTuple, Vec, Seq)):
                return zint(len(args[0].items))
            raise _Unsup('len of a ' + describe(args[0]))
        if d == 'slice' and n == 2:
            for a in args:
                if not (a is NONE or (isinstance(a, X) and a.ty == 'Z')):
                    raise _Unsup('slice bound is a ' + describe(a))
            return Slice(args[0], args[1])
        if d in ('any', 'all', 'np.all', 'np.any', 'numpy.all', 'numpy.any') and n == 1:
            f, unit = (bor, False) if d.endswith('any') else (band, True)
            v = args[0]
            if isinstance(v, X) and d.startswith('n'):
                _need(v, 'B', d)
                return v
            if isinstance(v, (PyTuple, Vec)):
                if isinstance(v, Vec) and is_poisoned(v):
                    raise _Unsup('array that an untranslated statement may have changed')
                for it in v.items:
                    _need(it, 'B', d)
                return functools.reduce(f, v.items, bconst(unit))
            raise _Unsup(f'{d} of a {describe(v)}')
        if d == 'tuple' and n == 1:
            if isinstance(args[0], PyTuple):
                return PyTuple(args[0].items, 'tuple')
            if isinstance(args[0], (Vec, Seq)):
                return PyTuple(self._ints(args[0], 'tuple()'), 'tuple')
            raise _Unsup('tuple() of a ' + describe(args[0]))
        if d in ('np.asarray', 'np.array', 'numpy.asarray', 'numpy.array') and n == 1:
            v = args[0]
            if isinstance(v, Arr):
                if is_poisoned(v):
                    raise _Unsup(f'{v.name} may have been changed by an untranslated statement')
                return v                                   # shape and ndim are preserved
            if isinstance(v, Vec):
                if d.endswith('asarray'):
                    return v                               # no copy
                return Vec(self._ints(v, d))
            if isinstance(v, (PyTuple, Seq)) and v.items:
                return Vec(self._ints(v, d))
            raise _Unsup(f'{d} of a {describe(v)}')
        if d in ('np.array_equal', 'numpy.array_equal') and n == 2:
            a, b = self._ints(args[0], d), self._ints(args[1], d)
            if len(a) != len(b):
                return bconst(False)
            return functools.reduce(band, [cmp_('eq', x, y) for x, y in zip(a, b)], bconst(True))
        if d in ('np.append', 'numpy.append') and n == 2:
            return Vec(self._flat_ints(args[0], d) + self._flat_ints(args[1], d))
        if d in ('np.broadcast_to', 'numpy.broadcast_to') and n == 2:
            sh = args[1]
            if not (isinstance(sh, PyTuple) and len(sh.items) == 1 and isinstance(sh.items[0], X)
                    and sh.items[0].op == 'int' and sh.items[0].a[0] >= 1):
                raise _Unsup('np.broadcast_to with a shape that is not a literal (n,)')
            k = sh.items[0].a[0]
            v = args[0]
            if isinstance(v, X):
                _need(v, 'Z', d)
                return Vec([v] * k)
            items = self._ints(v, d)
            if len(items) == k:
                return Vec(items, parents=[v] if isinstance(v, Vec) else ())      # a read-only view
            if len(items) == 1:
                return Vec(items * k, parents=[v] if isinstance(v, Vec) else ())
            raise _Unsup(f'np.broadcast_to of {len(items)} items to ({k},) (ValueError)')
        raise _Unsup(f'call of {d} (not in the whitelist)')

    def arr_call(self, d, node, env):
        """a call f(array parameter, ...) the spec takes as an input: one atom per (f, array parameter); the other
        arguments must be the same literal integers / untouched opaque parameters at every such call"""
        args = [self.ev(a, env) for a in node.args]
        tab = self.spec['arr_calls'][d]
        if not args or not isinstance(args[0], Arr) or args[0].name not in tab:
            raise _Unsup(f'{d}: first argument is not one of the array parameters {sorted(tab)}')
        if is_poisoned(args[0]):
            raise _Unsup(f'{d}: {args[0].name} may have been changed by an untranslated statement')
        sig = []
        for v in args[1:]:
            if isinstance(v, X) and v.op == 'int':
                sig.append(('int', v.a[0]))
            elif isinstance(v, Opaque):
                sig.append(('opaque', id(v)))
            else:
                raise _Unsup(f'{d}: an argument after the array is neither a literal nor an untouched parameter')
        key = (d, args[0].name)
        if self.arr_sigs.setdefault(key, sig) != sig:
            raise _Unsup(f'{d}: called with different arguments at different places')
        return self.arr_atoms[key]

    def inline_split(self, d, target, args, kw):
        """inline a call; an argument that is a choice between values of different shapes is split"""
        for i, v in enumerate(args):
            if isinstance(v, Choice):
                t = self.inline_split(d, target, args[:i] + [v.t] + args[i + 1:], kw)
                f = self.inline_split(d, target, args[:i] + [v.f] + args[i + 1:], kw)
                return merge_values(v.c, t, f)
        for k, v in kw.items():
            if isinstance(v, Choice):
                t = self.inline_split(d, target, args, dict(kw, **{k: v.t}))
                f = self.inline_split(d, target, args, dict(kw, **{k: v.f}))
                return merge_values(v.c, t, f)
        return self.inline(d, target, args, kw)

    def _flat_ints(self, v, what):
        if isinstance(v, X):
            _need(v, 'Z', what)
            return [v]
        return self._ints(v, what)

    def inline(self, fname, target, args, kw):
        mod, fd = target
        if self.depth > 4:
            raise _Unsup('call depth')
        a = fd.args
        if a.vararg or a.kwarg or a.kwonlyargs or a.posonlyargs or fd.decorator_list:
            raise _Unsup(f'{fname} has a signature the translator does not handle')
        names = [x.arg for x in a.args]
        if len(args) > len(names):
            raise _Unsup(f'too many arguments for {fname}')
        env = dict(zip(names, args))
        for k, v in kw.items():
            if k not in names or k in env:
                raise _Unsup(f'unexpected or repeated keyword argument {k} of {fname}')
            env[k] = v
        ndef = len(a.defaults)
        for i, nm in enumerate(names):
            if nm not in env:
                j = i - (len(names) - ndef)
                if j < 0:
                    raise _Unsup(f'missing argument {nm} of {fname}')
                env[nm] = self.ev(a.defaults[j], {})
        body = [s for s in fd.body if not _is_docstring(s)]
        if not body or not isinstance(body[-1], ast.Return) or body[-1].value is None or _has_exit(
                [t for t in body[:-1] if not isinstance(t, ast.Assert)]):
            raise _Unsup(f'{fname} is not straight-line code ending in a single return (cannot be inlined)')
        self.depth += 1
        self.modstack.append(mod)
        try:
            for s in body[:-1]:
                if isinstance(s, ast.Assert):
                    c = self.cond(s.test, env)
                    if not (isinstance(c, X) and c.op == 'bool' and c.a[0]):
                        raise _Unsup(f'{fname} asserts a condition that is not decided statically')
                    continue
                self.stmt(s, env)
            v = self.ev(body[-1].value, env)
        finally:
            self.depth -= 1
            self.modstack.pop()
        r = find_opaque(v)
        if r:
            raise _Unsup(f'result of {fname} depends on: {r}')
        return v

    # ------------------------------------------------------------ statements without exits
    def record_calls(self, s, env):
        """spec['observe_calls'] = {label: 'np.tile' | '.reshape'}: the integer arguments of the matching calls inside
        untranslated statements, in execution order, become observable as <label>_0, <label>_1, ..."""
        pats = self.spec.get('observe_calls')
        if not pats or self.depth:
            return
        calls = [n for n in ast.walk(s) if isinstance(n, ast.Call)]
        calls.sort(key=lambda n: (n.lineno, n.col_offset))
        for n in calls:
            d = _dotted(n.func)
            for label, pat in pats.items():
                hit = (d == pat) or (pat.startswith('.') and isinstance(n.func, ast.Attribute)
                                      and n.func.attr == pat[1:])
                if not hit:
                    continue
                if self.binds is None:
                    v = Opaque(f'the call of {pat} at line {n.lineno} is inside a branch')
                else:
                    try:
                        if n.keywords:
                            raise _Unsup('keyword arguments')
                        v = PyTuple([self.ev(a, env) for a in n.args])
                    except _Unsup as e:
                        v = Opaque(f'arguments of {pat} at line {n.lineno}: {e}')
                self.call_obs.setdefault(label, []).append(v)
                # `x = f(...)`: also observable under the name it is bound to (<label>_x), which does not depend
                # on the order of the statements
                if isinstance(s, ast.Assign) and len(s.targets) == 1 and isinstance(s.targets[0], ast.Name) \
                        and s.value is n:
                    self.call_named[f'{label}_{s.targets[0].id}'] = v

    def opaque_stmt(self, s, env, why):
        self.record_calls(s, env)
        suspects = _mutation_suspects(s, env)
        if isinstance(s, (ast.Assign, ast.AnnAssign)) and s.value is not None:
            suspects |= _direct_refs(s.value, env)       # the statement may create an alias of a mutable value
        for nm in suspects:
            if nm in env:
                poison(env[nm])
        assume = self.assumed if self.depth == 0 else {}
        plain = isinstance(s, ast.Assign) and len(s.targets) == 1 and (
            isinstance(s.targets[0], ast.Name) or (isinstance(s.targets[0], ast.Tuple) and all(
                isinstance(t, ast.Name) for t in s.targets[0].elts)))
        for nm in _stored_names(s):
            if nm in assume and plain:
                env[nm] = assume[nm]          # the spec takes the value of this local as an argument
            else:
                env[nm] = Opaque(f'{nm} is bound by an untranslated statement (line {s.lineno}: {why})')

    _OPAQUE_OK = (ast.Assign, ast.AugAssign, ast.AnnAssign, ast.Expr, ast.Pass, ast.Import, ast.ImportFrom)

    def check_opaque_ok(self, s, loops=False):
        """statements that may be skipped as opaque: they can only (re)bind names or mutate objects"""
        if isinstance(s, ast.If) or (loops and isinstance(s, ast.For)):
            for t in s.body + s.orelse:
                self.check_opaque_ok(t, loops)
            return
        if loops and isinstance(s, (ast.Break, ast.Continue)):
            return
        if not isinstance(s, self._OPAQUE_OK):
            raise TranslationRefused(self.spec['name'], f'line {s.lineno}: statement {type(s).__name__} '
                                                         'is outside the whitelist')
        for n in ast.walk(s):
            if isinstance(n, (ast.Yield, ast.YieldFrom, ast.Await, ast.Lambda)):
                raise TranslationRefused(self.spec['name'], f'line {s.lineno}: {type(n).__name__} expression')

    def assign(self, target, v, env, s):
        if isinstance(v, LList) and any(v is o for o in env.values()):
            raise _Unsup('a list bound to a second name (aliasing of mutable lists is not translated)')
        if isinstance(target, ast.Name):
            env[target.id] = self.letbind(target.id, v)
            return
        if isinstance(target, (ast.Tuple, ast.List)):
            if any(not isinstance(t, ast.Name) for t in target.elts):
                raise _Unsup('nested or starred unpacking target')
            if isinstance(v, Opaque):
                raise _Unsup(v.why)
            if isinstance(v, Vec) and is_poisoned(v):
                raise _Unsup('array that an untranslated statement may have changed')
            if not isinstance(v, (PyTuple, Vec, Seq)):
                raise _Unsup('unpacking of a ' + describe(v))
            if len(v.items) != len(target.elts):
                raise TranslationRefused(self.spec['name'], f'line {s.lineno}: unpacking {len(v.items)} values '
                                                             f'into {len(target.elts)} names (ValueError)')
            for t, it in zip(target.elts, v.items):
                env[t.id] = self.letbind(t.id, it)
            return
        raise _Unsup('assignment target ' + type(target).__name__)

    def stmt(self, s, env):
        """a statement that cannot leave the function; updates env (and the let list)"""
        if _is_docstring(s) or isinstance(s, ast.Pass):
            return
        if isinstance(s, ast.If):
            return self.stmt_if(s, env)
        if isinstance(s, ast.For):
            return self.stmt_for(s, env)
        self.check_opaque_ok(s)
        if self.forced_assume(s, env):
            return
        if (isinstance(s, ast.Assign) and len(s.targets) == 1 and isinstance(s.targets[0], ast.Name)
                and isinstance(s.value, ast.Call) and isinstance(s.value.func, ast.Attribute)
                and s.value.func.attr == 'astype' and isinstance(s.value.func.value, ast.Name)
                and s.value.func.value.id == s.targets[0].id and isinstance(env.get(s.targets[0].id), Arr)
                and not is_poisoned(env[s.targets[0].id])):
            return                   # img = img.astype(dtype): a new array of the same shape and ndim
        try:
            if self.list_append(s, env):
                return
            if isinstance(s, ast.Assign):
                if len(s.targets) != 1:
                    raise _Unsup('chained assignment')
                if isinstance(s.targets[0], (ast.Subscript, ast.Attribute)):
                    raise _Unsup('store into an object')
                v = self.ev(s.value, env)
                self.assign(s.targets[0], v, env, s)
            elif isinstance(s, ast.AugAssign):
                if not isinstance(s.target, ast.Name):
                    raise _Unsup('augmented store into an object')
                op = _BINOPS.get(type(s.op))
                if op is None:
                    raise _Unsup('augmented operator ' + type(s.op).__name__)
                cur = self.ev(ast.Name(id=s.target.id, ctx=ast.Load()), env)
                if not isinstance(cur, X):
                    raise _Unsup('augmented assignment to a ' + describe(cur) + ' (in-place update)')
                rhs = self.ev(s.value, env)
                if not isinstance(rhs, X):
                    raise _Unsup('augmented assignment with a ' + describe(rhs))
                env[s.target.id] = self.letbind(s.target.id, arith(op, cur, rhs))
            else:
                raise _Unsup(type(s).__name__ + ' statement')
        except _Unsup as e:
            self.opaque_stmt(s, env, str(e))

    def forced_assume(self, s, env):
        """spec['assume'] names whose value is an INPUT of the translated function: the first assignment statement
        that binds such a name is not translated at all, whatever form its right-hand side takes (the float row
        formula of zernike_index, np.fix(shift), _fft_shape(...)); the other names it binds become unknown"""
        if self.depth or not isinstance(s, ast.Assign) or len(s.targets) != 1:
            return False
        t = s.targets[0]
        ok = isinstance(t, ast.Name) or (isinstance(t, ast.Tuple) and all(isinstance(e, ast.Name) for e in t.elts))
        names = [n for n in _stored_names(s) if n in self.assumed and n not in self.assume_done]
        if not (ok and names):
            return False
        for nm in _mutation_suspects(s, env):
            if nm in env:
                poison(env[nm])
        for nm in _stored_names(s):
            if nm in names:
                env[nm] = self.assumed[nm]
                self.assume_done.add(nm)
            else:
                env[nm] = Opaque(f'{nm} is bound together with an input of the translated function (line {s.lineno})')
        return True

    def list_append(self, s, env):
        """`name.append(e)` on a list built by the function: a rebinding of the (single-owner) list"""
        if not (isinstance(s, ast.Expr) and isinstance(s.value, ast.Call) and isinstance(s.value.func, ast.Attribute)
                and s.value.func.attr == 'append' and isinstance(s.value.func.value, ast.Name)):
            return False
        nm = s.value.func.value.id
        l = env.get(nm)
        if not isinstance(l, LList):
            return False
        if is_poisoned(l) or len(s.value.args) != 1 or s.value.keywords:
            raise _Unsup('append on a list that may have been changed, or with unusual arguments')
        e = self.ev(s.value.args[0], env)
        ar = _elem_arity([e])
        if ar is False or (l.arity is not None and l.arity != ar):
            raise _Unsup('append of an element of another kind than the elements of the list')
        if isinstance(e, PyTuple):
            e = PyTuple(list(e.items))
        env[nm] = self.letbind(nm, LList(X('lapp', 'L', _cast_nil(l.x, ar), e), l.minlen + 1, ar))
        return True

    def cond(self, test, env):
        try:
            c = self.ev(test, env)
            if isinstance(c, X) and c.ty == 'Z':
                c = cmp_('ne', c, zint(0))                 # truthiness of an integer
            if not (isinstance(c, X) and c.ty == 'B'):
                raise _Unsup('condition is a ' + describe(c) + ' (truthiness is not translated)')
            return c
        except _Unsup as e:
            return Opaque(str(e))

    def stmt_if(self, s, env):
        if _has_exit([s]):
            raise TranslationRefused(self.spec['name'], f'line {s.lineno}: return/raise/break inside a nested '
                                                         'block the translator executes without exits')
        c = self.cond(s.test, env)
        if isinstance(c, Opaque):
            # an untranslatable condition: both branches are executed; a name keeps its value only if both branches
            # leave it bound to the very same value, everything else they bind becomes unknown
            for t in s.body + s.orelse:
                self.check_opaque_ok(t)
            et, ef = dict(env), dict(env)
            saved, self.binds = self.binds, None
            try:
                for t in s.body:
                    self.stmt(t, et)
                for t in s.orelse:
                    self.stmt(t, ef)
            finally:
                self.binds = saved
            for nm in list(et) + [k for k in ef if k not in et]:
                if et.get(nm) is ef.get(nm):
                    env[nm] = et[nm]
                else:
                    env[nm] = Opaque(f'{nm} is bound under an untranslatable condition (line {s.lineno}: {c.why})')
            return
        if c.op == 'bool':
            for t in (s.body if c.a[0] else s.orelse):
                self.stmt(t, env)
            return
        et, ef = dict(env), dict(env)
        saved, self.binds = self.binds, None
        try:
            for t in s.body:
                self.stmt(t, et)
            for t in s.orelse:
                self.stmt(t, ef)
        finally:
            self.binds = saved
        names = list(et) + [k for k in ef if k not in et]
        for nm in names:
            vt, vf = et.get(nm), ef.get(nm)
            if vt is vf:
                continue
            if vt is None or vf is None:
                env[nm] = Opaque(f'{nm} is bound on one branch only (line {s.lineno})')
            else:
                env[nm] = self.letbind(nm, merge_values(c, vt, vf))

    def opaque_loop(self, s, env):
        """a loop that is not over a list parameter: skipped as one opaque statement when it can only rebind names
        and mutate objects (no return/raise inside, only assignments/calls/ifs); everything it binds is unknown
        afterwards, everything it may mutate is poisoned"""
        name = self.spec['name']
        for t in s.body + s.orelse:
            for n in ast.walk(t):
                if isinstance(n, (ast.Return, ast.Raise, ast.Yield, ast.YieldFrom, ast.Assert)):
                    raise TranslationRefused(name, f'line {n.lineno}: return/raise/assert inside a loop the '
                                                   'translator does not translate')
            self.check_opaque_ok(t, loops=True)
        self.opaque_stmt(s, env, 'loop that is not over a list parameter')

    def stmt_for(self, s, env):
        name = self.spec['name']
        lst0 = env.get(s.iter.id) if isinstance(s.iter, ast.Name) else None
        if not isinstance(lst0, ListOf):
            return self.opaque_loop(s, env)
        if self.binds is None or self.depth:
            raise TranslationRefused(name, f'line {s.lineno}: loop inside a branch or an inlined call')
        lst = env.get(s.iter.id) if isinstance(s.iter, ast.Name) else None
        if not isinstance(lst, ListOf):
            return self.opaque_loop(s, env)
        if s.orelse or _has_exit(s.body) or not isinstance(s.target, ast.Name):
            raise TranslationRefused(name, f'line {s.lineno}: loop is not `for x in <parameter>:` over '
                                           'straight-line code')
        if lst.poisoned:
            raise TranslationRefused(name, f'line {s.lineno}: the list may have been changed by an untranslated '
                                           'statement before the loop')
        for t in s.body:
            for n in ast.walk(t):
                if isinstance(n, (ast.For, ast.While, ast.With, ast.Try, ast.FunctionDef, ast.ClassDef)):
                    raise TranslationRefused(name, f'line {s.lineno}: compound statement inside the loop')
        stored = [n for t in s.body for n in _stored_names(t)]
        stored = [n for i, n in enumerate(stored) if n not in stored[:i] and n != s.target.id]
        carried = [n for n in stored if n in env]
        # canonical order of the state tuple: first use after the loop (e.g. the order of the returned tuple),
        # then the order of the bindings before the loop - NOT the order of the statements of the loop body,
        # so that reordering independent assignments does not change the translated term
        after = sorted((n.lineno, n.col_offset, n.id) for n in ast.walk(self.fdefs[self.spec['func']])
                       if isinstance(n, ast.Name) and isinstance(n.ctx, ast.Load)
                       and n.lineno > (s.end_lineno or s.lineno))
        first_use = {}
        for k, (_, _, nm_) in enumerate(after):
            first_use.setdefault(nm_, k)
        pre = list(env)
        carried.sort(key=lambda n: (first_use.get(n, len(after)), pre.index(n)))
        for n in carried:
            if not isinstance(env[n], X):
                raise TranslationRefused(name, f'line {s.lineno}: loop-carried variable {n} is a {describe(env[n])}')
        nm2 = Namer()
        nm2.used |= self.namer.used | {'st', 'el'}
        st_names = [nm2.fresh(n) for n in carried]
        kind, attrs = lst.elem
        assert kind == 'OBJ' and len(attrs) == 1
        (attr, aty), = attrs.items()
        el_names = [nm2.fresh(f'{s.target.id}_{attr}_{i}') for i in range(aty[1])]
        env2 = dict(env)
        for n, sn in zip(carried, st_names):
            env2[n] = var(sn, env[n].ty)
        env2[s.target.id] = Obj(s.target.id, {attr: PyTuple([var(e, 'Z') for e in el_names])})
        saved, self.binds = self.binds, None
        try:
            for t in s.body:
                self.stmt(t, env2)
        finally:
            self.binds = saved
        outs = []
        for n in carried:
            v = env2[n]
            if not isinstance(v, X) or v.ty != env[n].ty:
                raise TranslationRefused(name, f'line {s.lineno}: loop-carried variable {n} becomes a {describe(v)}')
            extra = free_vars(v) - set(st_names) - set(el_names)
            if extra:
                raise TranslationRefused(name, f'line {s.lineno}: loop body reads {sorted(extra)} from outside '
                                               '(closures are not translated)')
            outs.append(v)
        if not carried:
            raise TranslationRefused(name, f'line {s.lineno}: loop carries no integer state')
        step = f'src_{name}_step'
        self.helpers.append({'name': step, 'st_names': st_names, 'st_types': [env[n].ty for n in carried],
                             'el_names': el_names, 'outs': outs})
        new = [self.namer.fresh(n) for n in carried]
        self.binds.append(('fold', new, step, self.listvars[s.iter.id], [env[n] for n in carried],
                           [env[n].ty for n in carried]))
        for n, nn in zip(carried, new):
            env[n] = var(nn, env[n].ty)
        for n in stored:
            if n not in carried:
                env[n] = Opaque(f'{n} is local to the loop body')
        env[s.target.id] = Opaque('loop variable after the loop')

    # ------------------------------------------------------------ blocks with exits -> terms
    def wrap(self, binds, t):
        for b in reversed(binds):
            t = (b[0],) + tuple(b[1:]) + (t,)
        return t

    def leaf_value(self, v, where):
        r = find_opaque(v)
        if r:
            raise TranslationRefused(self.spec['name'], f'{where} depends on: {r}')
        v = _degen(v)
        v = lift_choice(v)
        if isinstance(v, Choice):
            return ('ite', v.c, self.leaf_value(v.t, where), self.leaf_value(v.f, where))
        return ('ret', v)

    def observe(self, env, where):
        """the observed expression over the named locals.  A numpy vector is observed AS IT WAS ASSIGNED: a later
        in-place change by an untranslated call is tracked for every use in translated code (poison) but not
        for the observation itself, which is a statement about the values the locals were bound to."""
        global _IGNORE_POISON
        _IGNORE_POISON = True
        if self.call_obs:
            env = dict(env)
            for label, vals in self.call_obs.items():
                for i, v in enumerate(vals):
                    env[f'{label}_{i}'] = v
            env.update(self.call_named)
        try:
            v = self.ev(self.spec['observe_ast'], env)
            return self.leaf_value(v, where)
        except _Unsup as e:
            raise TranslationRefused(self.spec['name'], f'{where}: observed expression: {e}')
        finally:
            _IGNORE_POISON = False

    def do_return(self, s, env):
        where = f'line {s.lineno}: returned value'
        mode = self.spec.get('returns')
        if mode is None:
            if s.value is None:
                raise TranslationRefused(self.spec['name'], f'line {s.lineno}: bare return')
            try:
                v = self.ev(s.value, env)
            except _Unsup as e:
                raise TranslationRefused(self.spec['name'], f'{where}: {e}')
            return self.leaf_value(v, where)
        k = [i for i, r in enumerate(self.returns) if r is s][0]
        if k >= len(mode):
            raise TranslationRefused(self.spec['name'], f'line {s.lineno}: the function has more return '
                                                         f'statements than the {len(mode)} the spec describes')
        if mode[k] == 'none':
            return ('none',)
        if mode[k].startswith('callarg:') or mode[k] == 'callargs' or mode[k].startswith('expr:'):
            # `return f(a, b, ...)`: one positional argument / all of them; or a given expression over the locals
            try:
                if mode[k].startswith('expr:'):
                    v = self.ev(ast.parse(mode[k][5:], mode='eval').body, env)
                else:
                    if not isinstance(s.value, ast.Call) or any(isinstance(a, ast.Starred) for a in s.value.args):
                        raise _Unsup('the returned value is not a call')
                    if mode[k] == 'callargs':
                        v = PyTuple([self.ev(a, env) for a in s.value.args])
                    else:
                        v = self.ev(s.value.args[int(mode[k][8:])], env)
            except (_Unsup, IndexError) as e:
                raise TranslationRefused(self.spec['name'], f'line {s.lineno}: observed part of the return: {e}')
            return self.leaf_value(v, f'line {s.lineno}: observed part of the return')
        if mode[k] == 'subscript':
            # `return a[..., r0:r1, c0:c1]`: the observed value is the index itself (the slices, without Ellipsis)
            if not isinstance(s.value, ast.Subscript):
                raise TranslationRefused(self.spec['name'], f'line {s.lineno}: the returned value is not a subscript')
            try:
                base = self.ev(s.value.value, env)
                idx = self.ev(s.value.slice, env)
            except _Unsup as e:
                raise TranslationRefused(self.spec['name'], f'line {s.lineno}: returned subscript: {e}')
            if not isinstance(base, Arr):
                raise TranslationRefused(self.spec['name'], f'line {s.lineno}: the subscripted value is not the array')
            items = idx.items if isinstance(idx, PyTuple) else [idx]
            items = [it for it in items if it is not ELLIPSIS]
            return self.leaf_value(PyTuple(items), f'line {s.lineno}: returned subscript')
        return self.observe(env, f'line {s.lineno}: observation at return')

    def loop_focus(self, s, env):
        """the spec observes the integers at (mode 'before') or inside (mode 'body': one generic iteration of)
        the loop `for <target> in <iter>:`; what follows the loop is not translated"""
        name, lf = self.spec['name'], self.spec['loop_focus']
        if lf['mode'] == 'before':
            return self.observe(env, f'line {s.lineno}: observation when the loop is reached')
        enum_target = None
        if (isinstance(s.target, ast.Tuple) and len(s.target.elts) == 2 and all(isinstance(t, ast.Name) for t in s.target.elts)
                and isinstance(s.iter, ast.Call) and _dotted(s.iter.func) in ('np.ndenumerate', 'numpy.ndenumerate')
                and len(s.iter.args) == 1 and self.index_var is not None):
            try:
                it = self.ev(s.iter.args[0], env)
            except _Unsup:
                it = None
            if isinstance(it, Arr) and it.ndim == 1 and not is_poisoned(it):
                enum_target = (s.target.elts[0].id, s.target.elts[1].id)
        if s.orelse or _has_exit(s.body) or not (isinstance(s.target, ast.Name) or enum_target):
            raise TranslationRefused(name, f'line {s.lineno}: the focused loop has an else block, a return/raise/'
                                           'break/continue, or a structured target')
        for nm, v in self.assumed_at_loop.items():
            env[nm] = v
        env2 = dict(env)
        for t in s.body:
            for nm in _stored_names(t):
                if nm not in self.assumed:
                    env2[nm] = Opaque(f'{nm} may hold the value of a previous iteration of the loop')
        if enum_target:
            # np.ndenumerate of a 1-d array yields ((k,), a[k]) for k = 0, 1, ...: k is the generic index
            env2[enum_target[0]] = PyTuple([self.index_var])
            env2[enum_target[1]] = Opaque('an element of the enumerated array')
        else:
            env2[s.target.id] = Opaque('the loop variable is not an integer')

        def end(env_):
            return self.observe(env_, 'end of the loop body')
        # a first pass finds the loop-invariant mutable values the body may change (they stay poisoned, so the
        # real pass treats them as unknown from the START of the iteration)
        used = set(self.namer.used)
        snap = {k: list(v) for k, v in self.call_obs.items()}
        self.block(list(s.body), dict(env2), end, tail=True)
        self.namer.used = used
        self.call_obs = snap
        return self.block(list(s.body), dict(env2), end, tail=True)

    def block(self, stmts, env, end, tail=False):
        saved = self.binds
        self.binds = binds = []
        try:
            stmts = list(stmts)
            i = 0
            while i < len(stmts):
                s = stmts[i]
                rest = stmts[i + 1:]
                if isinstance(s, ast.Return):
                    return self.wrap(binds, self.return_stmt(s, env))
                if isinstance(s, ast.Raise):
                    return self.wrap(binds, ('raise', self.exc_name(s)))
                call = self.exitful_call(s)
                if call is not None:
                    def k(v, s=s, env=env, rest=rest):
                        if isinstance(s, ast.Assign):
                            try:
                                self.assign(s.targets[0], v, env, s)
                            except _Unsup as e:
                                raise TranslationRefused(self.spec['name'], f'line {s.lineno}: {e}')
                        return self.block(rest, env, end, tail)
                    return self.wrap(binds, self.call_exits(call, env, k))
                rng_ = self.range_of(s, env)
                if rng_ is not None:
                    lo, hi = rng_
                    if lo.op == 'int' and hi.op == 'int' and hi.a[0] - lo.a[0] <= 24:
                        new = []                  # a constant trip count: unrolled
                        for kk in range(lo.a[0], hi.a[0]):
                            new.append(ast.copy_location(ast.Assign(
                                targets=[ast.Name(id=s.target.id, ctx=ast.Store())], value=ast.Constant(value=kk),
                                lineno=s.lineno), s))
                            new.extend(s.body)
                        stmts = new + rest
                        i = 0
                        continue
                    self.range_loop(s, env, lo, hi)
                    i += 1
                    continue
                if isinstance(s, ast.Assert):
                    c = self.cond(s.test, env)
                    if isinstance(c, Opaque):
                        raise TranslationRefused(self.spec['name'], f'line {s.lineno}: assert on: {c.why}')
                    if c.op == 'bool':
                        if c.a[0]:
                            i += 1
                            continue
                        return self.wrap(binds, ('raise', 'AssertionErr'))
                    t = self.block(rest, dict(env), end, tail)
                    self.binds = binds
                    return self.wrap(binds, ('ite', c, t, ('raise', 'AssertionErr')))
                lf = self.spec.get('loop_focus')
                if isinstance(s, ast.For) and lf and self.depth == 0 and ast.unparse(s.iter) == lf['iter']:
                    return self.wrap(binds, self.loop_focus(s, env))
                if isinstance(s, ast.If) and tail and not rest and not _has_exit([s]):
                    # the last statement of an observed block: observe inside the branches (a skipped `if`
                    # without else observes nothing)
                    c = self.cond(s.test, env)
                    if isinstance(c, Opaque):
                        raise TranslationRefused(self.spec['name'], f'line {s.lineno}: the observed block is entered '
                                                                     f'depending on: {c.why}')
                    if c.op == 'bool':
                        stmts = list(s.body if c.a[0] else s.orelse)
                        i = 0
                        if not stmts:
                            return self.wrap(binds, ('none',))
                        continue
                    snap = {k: list(v) for k, v in self.call_obs.items()}
                    t = self.block(list(s.body), dict(env), end, tail)
                    self.binds = binds
                    self.call_obs = {k: list(v) for k, v in snap.items()}
                    f = self.block(list(s.orelse), dict(env), end, tail) if s.orelse else ('none',)
                    self.binds = binds
                    return self.wrap(binds, ('ite', c, t, f))
                if isinstance(s, ast.If) and (_has_exit([s]) or self.needs_split(s)):
                    c = self.cond(s.test, env)
                    if isinstance(c, Opaque):
                        # an untranslated condition is harmless when both ways give the SAME term (for instance two
                        # returns whose value is not observed): what is translated does not depend on it
                        snap = {k: list(v) for k, v in self.call_obs.items()}
                        snap_named = dict(self.call_named)
                        try:
                            t = self.block(list(s.body) + rest, dict(env), end, tail)
                            self.binds = binds
                            self.call_obs = {k: list(v) for k, v in snap.items()}
                            self.call_named = dict(snap_named)
                            f = self.block(list(s.orelse) + rest, dict(env), end, tail)
                            self.binds = binds
                            same = _same_term(t, f)
                        except TranslationRefused:
                            same = False
                        if same:
                            return self.wrap(binds, t)
                        raise TranslationRefused(self.spec['name'], f'line {s.lineno}: the function returns or '
                                                                     f'raises depending on: {c.why}')
                    if c.op == 'bool':
                        stmts = list(s.body if c.a[0] else s.orelse) + rest
                        i = 0
                        continue
                    snap = {k: list(v) for k, v in self.call_obs.items()}
                    t = self.block(list(s.body) + rest, dict(env), end, tail)
                    self.binds = binds
                    self.call_obs = {k: list(v) for k, v in snap.items()}
                    f = self.block(list(s.orelse) + rest, dict(env), end, tail)
                    self.binds = binds
                    return self.wrap(binds, ('ite', c, t, f))
                mark = len(binds)
                self.guards = []
                self.stmt(s, env)
                if self.guards:
                    # the statement raises IndexError unless every guard holds: what it bound, and the rest of the
                    # block, are under the guard
                    g = functools.reduce(band, self.guards)
                    self.guards = []
                    inner = binds[mark:]
                    del binds[mark:]
                    t = self.block(rest, env, end, tail)
                    self.binds = binds
                    return self.wrap(binds, ('ite', g, self.wrap(inner, t), ('raise', 'IndexError')))
                i += 1
            return self.wrap(binds, end(env))
        finally:
            self.binds = saved

    # ------------------------------------------------------------ calls that can raise, `for ... in range(...)`
    def can_exit(self, target):
        """whether calling the (inlinable) function can raise: an assert/raise in it or in what it calls"""
        mod, fd = target
        if id(fd) in self.exit_memo:
            return self.exit_memo[id(fd)]
        self.exit_memo[id(fd)] = False                 # (recursion: assume no)
        r = False
        self.modstack.append(mod)
        try:
            for n in ast.walk(fd):
                if isinstance(n, (ast.Assert, ast.Raise)):
                    r = True
                elif isinstance(n, ast.Call):
                    d = _dotted(n.func)
                    t = self.resolve(d) if d else None
                    if t is not None and t[1] is not fd and self.can_exit(t):
                        r = True
        finally:
            self.modstack.pop()
        self.exit_memo[id(fd)] = r
        return r

    def exitful_call(self, s):
        """the call node if the statement is `x = f(...)`, `a, b = f(...)` or `f(...)` with f an inlinable function
        that can raise"""
        if isinstance(s, ast.Assign) and len(s.targets) == 1 and isinstance(s.targets[0], (ast.Name, ast.Tuple)):
            v = s.value
        elif isinstance(s, ast.Expr):
            v = s.value
        else:
            return None
        if not isinstance(v, ast.Call):
            return None
        d = _dotted(v.func)
        t = self.resolve(d) if d else None
        return v if (t is not None and self.can_exit(t)) else None

    def call_exits(self, node, env, k):
        """execute the body of an inlinable function that can raise; k(value) builds the term of what follows the
        call in the caller.  The caller's context is restored while k runs."""
        d = _dotted(node.func)
        target = self.resolve(d)
        name = self.spec['name']
        try:
            args = [self.ev(a, env) for a in node.args]
            kw = {q.arg: self.ev(q.value, env) for q in node.keywords}
            if any(q.arg is None for q in node.keywords) or any(isinstance(a, ast.Starred) for a in node.args):
                raise _Unsup('starred argument')
            mod, fd = target
            cenv = self.bind_params(d, fd, args, kw)
        except _Unsup as e:
            raise TranslationRefused(name, f'line {node.lineno}: call of {d}: {e}')
        if self.depth > 6:
            raise TranslationRefused(name, f'line {node.lineno}: call depth')
        ctx = (self.depth, list(self.modstack), list(self.retk))
        self.depth += 1
        self.modstack.append(mod)
        self.retk.append((k, ctx))
        try:
            body = [t for t in fd.body if not _is_docstring(t)]
            return self.block(body, cenv, lambda e: self.ret_value(NONE))
        finally:
            self.depth, self.modstack, self.retk = ctx[0], list(ctx[1]), list(ctx[2])

    def ret_value(self, v):
        k, ctx = self.retk[-1]
        cur = (self.depth, list(self.modstack), list(self.retk))
        self.depth, self.modstack, self.retk = ctx[0], list(ctx[1]), list(ctx[2])
        try:
            return k(v)
        finally:
            self.depth, self.modstack, self.retk = cur

    def return_stmt(self, s, env):
        call = None
        if isinstance(s.value, ast.Call):
            d = _dotted(s.value.func)
            t = self.resolve(d) if d else None
            if t is not None and self.can_exit(t):
                call = s.value
        if not self.retk:
            if call is None:
                return self.do_return(s, env)
            if self.spec.get('returns') is not None:
                raise TranslationRefused(self.spec['name'], f'line {s.lineno}: observed return of a call that can raise')
            where = f'line {s.lineno}: returned value'
            return self.call_exits(call, env, lambda v: self.leaf_value(v, where))
        if call is not None:                              # a tail call inside a call with exits
            k, ctx = self.retk[-1]
            return self.call_exits(call, env, lambda v: self.ret_value(v))
        try:
            v = NONE if s.value is None else self.ev(s.value, env)
        except _Unsup as e:
            raise TranslationRefused(self.spec['name'], f'line {s.lineno}: returned value: {e}')
        if self.guards:
            raise TranslationRefused(self.spec['name'], f'line {s.lineno}: list index that may be out of range in a return')
        return self.ret_value(v)

    def bind_params(self, fname, fd, args, kw):
        a = fd.args
        if a.vararg or a.kwarg or a.kwonlyargs or a.posonlyargs or fd.decorator_list:
            raise _Unsup(f'{fname} has a signature the translator does not handle')
        names = [x.arg for x in a.args]
        if len(args) > len(names):
            raise _Unsup(f'too many arguments for {fname}')
        env = dict(zip(names, args))
        for k, v in kw.items():
            if k not in names or k in env:
                raise _Unsup(f'unexpected or repeated keyword argument {k} of {fname}')
            env[k] = v
        ndef = len(a.defaults)
        for i, nm in enumerate(names):
            if nm not in env:
                j = i - (len(names) - ndef)
                if j < 0:
                    raise _Unsup(f'missing argument {nm} of {fname}')
                env[nm] = self.ev(a.defaults[j], {})
        return env

    def needs_split(self, s):
        """an if whose branches contain a translated range loop or a call that can raise: executed branch by branch"""
        for n in ast.walk(s):
            if isinstance(n, ast.For) and isinstance(n.iter, ast.Call) and _dotted(n.iter.func) == 'range':
                return bool(self.spec.get('lists'))
            if isinstance(n, (ast.Assign, ast.Expr)) and self.exitful_call(n) is not None:
                return True
        return False

    def range_of(self, s, env):
        """(lo, hi) if s is `for <name> in range(hi)` / `range(lo, hi)` that the translator handles"""
        if not (isinstance(s, ast.For) and isinstance(s.iter, ast.Call) and _dotted(s.iter.func) == 'range'
                and 'range' not in env and self.spec.get('lists') and self.depth == 0):
            return None
        name = self.spec['name']
        if s.orelse or not isinstance(s.target, ast.Name) or s.iter.keywords or not 1 <= len(s.iter.args) <= 2:
            raise TranslationRefused(name, f'line {s.lineno}: range loop with an else block, a step or a structured target')
        for t in s.body:
            for n in ast.walk(t):
                if isinstance(n, (ast.Return, ast.Break, ast.Continue, ast.Yield, ast.YieldFrom)):
                    raise TranslationRefused(name, f'line {n.lineno}: return/break/continue inside a range loop')
        try:
            vals = [self.ev(a, env) for a in s.iter.args]
            for v in vals:
                _need(v, 'Z', 'range()')
        except _Unsup as e:
            raise TranslationRefused(name, f'line {s.lineno}: range bound: {e}')
        return (zint(0), vals[0]) if len(vals) == 1 else (vals[0], vals[1])

    def range_loop(self, s, env, lo, hi):
        """`for i in range(lo, hi): body` with a symbolic trip count: a fold of a named step function over the
        indices; the state is the tuple of the variables the body rebinds; a step that can raise makes the fold
        (and the function) return a result"""
        name = self.spec['name']
        binds = self.binds
        stored = []
        for t in s.body:
            for n in _stored_names(t):
                if n not in stored and n != s.target.id:
                    stored.append(n)
            for n in ast.walk(t):                      # x.append(...) rebinds x
                if (isinstance(n, ast.Call) and isinstance(n.func, ast.Attribute) and n.func.attr == 'append'
                        and isinstance(n.func.value, ast.Name) and n.func.value.id not in stored):
                    stored.append(n.func.value.id)
        pre = list(env)
        carried = sorted([n for n in stored if n in env], key=pre.index)
        if not carried:
            raise TranslationRefused(name, f'line {s.lineno}: the loop carries no state')

        def fresh_like(base, v):
            """(parameter value, pattern, type) for a state component like v"""
            if isinstance(v, X) and v.ty in ('Z', 'B'):
                nm = self.namer.fresh(base)
                return var(nm, v.ty), nm, (TZ if v.ty == 'Z' else TB)
            if isinstance(v, LList) and not is_poisoned(v):
                nm = self.namer.fresh(base)
                return (LList(var(nm, 'L'), v.minlen, v.arity), nm,
                        ('list', TZ if not v.arity else TZn(v.arity)))
            if isinstance(v, PyTuple) and v.kind == 'tuple' and len(v.items) >= 2 and all(
                    isinstance(x, X) and x.ty == 'Z' for x in v.items):
                nms = [self.namer.fresh(f'{base}_{i}') for i in range(len(v.items))]
                return _retuple(v, [var(n, 'Z') for n in nms]), '(' + ', '.join(nms) + ')', TZn(len(v.items))
            raise TranslationRefused(name, f'line {s.lineno}: loop-carried variable {base} is a {describe(v)}')

        def run(arities):
            env2 = dict(env)
            params = []
            for n in carried:
                v = env[n]
                if isinstance(v, LList) and v.arity is None and arities.get(n) is not None:
                    v = LList(_cast_nil(v.x, arities[n]), v.minlen, arities[n])
                pv_, pat, ty = fresh_like(n, v)
                env2[n] = pv_
                params.append((n, pv_, pat, ty))
            for n in stored:
                if n not in carried:
                    env2.pop(n, None)
            ivar = self.namer.fresh(s.target.id)
            env2[s.target.id] = var(ivar, 'Z')

            def end(e):
                return ('ret', PyTuple([e[n] for n in carried]))
            term = self.block(list(s.body), env2, end)
            return params, ivar, term
        # the arity of a list that is still empty before the loop is found by a first, discarded, run
        arities = {}
        if any(isinstance(env[n], LList) and env[n].arity is None for n in carried):
            used = set(self.namer.used)
            params, ivar, term = run({})
            self.namer.used = used
            for leaf in _ret_leaves(term):
                for (n, _, _, _), v in zip(params, leaf.items):
                    if isinstance(env[n], LList) and env[n].arity is None and isinstance(v, LList):
                        arities[n] = v.arity
        params, ivar, term = run(arities)
        self.binds = binds
        fallible = _has_raise(term)
        for leaf in _ret_leaves(term):
            for (n, pv_, _, _), v in zip(params, leaf.items):
                ok = (type(v) is type(pv_) or (isinstance(v, PyTuple) and isinstance(pv_, PyTuple)))
                if ok and isinstance(v, X):
                    ok = v.ty == pv_.ty
                if ok and isinstance(v, LList):
                    ok = v.arity == pv_.arity and v.minlen >= pv_.minlen and not is_poisoned(v)
                if ok and isinstance(v, PyTuple):
                    ok = len(v.items) == len(pv_.items) and all(isinstance(x, X) and x.ty == 'Z' for x in v.items)
                if not ok:
                    raise TranslationRefused(name, f'line {s.lineno}: loop-carried variable {n} changes its kind '
                                                   f'(a {describe(v)})')
        bound = {ivar}
        for _, _, pat, _ in params:
            bound |= set(pat.strip('()').replace(' ', '').split(','))
        extra = _term_free_vars(term) - bound
        if extra:
            raise TranslationRefused(name, f'line {s.lineno}: the loop body reads {sorted(extra)} from outside '
                                           '(closures are not translated)')
        k = sum(1 for h in self.helpers if h.get('kind') == 'loop')
        step = f'src_{name}_step' + (f'_{k}' if k else '')
        sty = TT(*[p[3] for p in params]) if len(params) > 1 else params[0][3]
        self.helpers.append({'kind': 'loop', 'name': step, 'params': params, 'ivar': ivar, 'term': term,
                             'sty': sty, 'fallible': fallible})
        inits, news, pats = [], [], []
        for n, pv_, pat, ty in params:
            v = env[n]
            if isinstance(v, LList) and v.arity is None:
                v = LList(_cast_nil(v.x, pv_.arity), v.minlen, pv_.arity)
            inits.append(v)
            nv, npat, _ = fresh_like(n, pv_)
            news.append(nv)
            pats.append(npat)
        binds.append(('loop', pats, step, lo, hi, inits, fallible))
        for (n, _, _, _), nv in zip(params, news):
            env[n] = nv
        for n in stored:
            if n not in carried:
                env[n] = Opaque(f'{n} is local to the loop body')
        env[s.target.id] = Opaque('loop variable after the loop')

    def exc_name(self, s):
        e = s.exc
        if isinstance(e, ast.Call):
            e = e.func
        if isinstance(e, ast.Name) and e.id in _ERRKINDS:
            return _ERRKINDS[e.id]
        raise TranslationRefused(self.spec['name'], f'line {s.lineno}: raise of something that is not one of '
                                                     f'{sorted(_ERRKINDS)}')


def _ret_leaves(t):
    k = t[0]
    if k == 'let':
        return _ret_leaves(t[3])
    if k == 'fold':
        return _ret_leaves(t[6])
    if k == 'loop':
        return _ret_leaves(t[7])
    if k == 'ite':
        return _ret_leaves(t[2]) + _ret_leaves(t[3])
    return [t[1]] if k == 'ret' else []


def _has_raise(t):
    k = t[0]
    if k == 'let':
        return _has_raise(t[3])
    if k == 'fold':
        return _has_raise(t[6])
    if k == 'loop':
        return t[6] or _has_raise(t[7])
    if k == 'ite':
        return _has_raise(t[2]) or _has_raise(t[3])
    return k == 'raise'


def _val_free_vars(v, acc):
    if isinstance(v, X):
        free_vars(v, acc)
    elif isinstance(v, LList):
        free_vars(v.x, acc)
    elif isinstance(v, (PyTuple, Vec, Seq)):
        for it in v.items:
            _val_free_vars(it, acc)
    elif isinstance(v, GenArr):
        _val_free_vars(v.elem, acc)
    elif isinstance(v, Slice):
        _val_free_vars(v.start, acc)
        _val_free_vars(v.stop, acc)
    elif isinstance(v, Frac):
        free_vars(v.num, acc)
        free_vars(v.den, acc)
    return acc


def _term_free_vars(t):
    """free variables of a term (variables bound by its lets/loops removed)"""
    k = t[0]
    if k == 'let':
        return free_vars(t[2]) | (_term_free_vars(t[3]) - {t[1]})
    if k == 'fold':
        inner = _term_free_vars(t[6]) - set(t[1])
        for x in t[4]:
            inner |= free_vars(x)
        return inner | {t[3]}
    if k == 'loop':
        _, pats, step, lo, hi, inits, fallible, body = t
        bound = set()
        for p in pats:
            bound |= set(p.strip('()').replace(' ', '').split(','))
        out = _term_free_vars(body) - bound
        out |= free_vars(lo) | free_vars(hi)
        for v in inits:
            _val_free_vars(v, out)
        return out
    if k == 'ite':
        return free_vars(t[1]) | _term_free_vars(t[2]) | _term_free_vars(t[3])
    if k == 'ret':
        return _val_free_vars(t[1], set())
    return set()


# ====================================================================== from a spec to a term
def _make_input(kind, base, namer, inputs):
    """the symbolic value of a parameter/atom of the given kind; appends (name, type, component names)"""
    k = kind[0]
    pos = 'pos' in kind[1:]
    if k == 'T':
        n = kind[1]
        if n == 0:
            return PyTuple([])
        nm = namer.fresh(base)
        comps = [namer.fresh(f'{base}_{i}') for i in range(n)]
        if pos:
            _POSVARS.update(comps)
        inputs.append({'name': nm, 'type': TZn(n) if n > 1 else TZ, 'comps': comps})
        return PyTuple([var(c, 'Z') for c in comps])
    if k == 'SEQ':
        v = _make_input(T(kind[1]), base, namer, inputs)
        return Seq(v.items)
    if k == 'Q':                         # a rational input num/den with den > 0 ('pos': num > 0 too)
        nm = namer.fresh(base)
        comps = [namer.fresh(f'{base}_num'), namer.fresh(f'{base}_den')]
        inputs.append({'name': nm, 'type': TZn(2), 'comps': comps})
        _POSVARS.add(comps[1])
        if pos:
            _POSVARS.add(comps[0])
        return Frac(var(comps[0], 'Z'), var(comps[1], 'Z'))
    if k == 'QPAIR':                     # a pair of rationals ((n0, d0), (n1, d1)), denominators positive
        nm = namer.fresh(base)
        comps = [namer.fresh(f'{base}_{t}') for t in ('n0', 'd0', 'n1', 'd1')]
        inputs.append({'name': nm, 'type': TT(TZn(2), TZn(2)), 'comps': comps, 'nested': True})
        _POSVARS.update((comps[1], comps[3]))
        return PyTuple([Frac(var(comps[0], 'Z'), var(comps[1], 'Z')), Frac(var(comps[2], 'Z'), var(comps[3], 'Z'))])
    if k == 'NT':                        # a named tuple of integers with the given field names
        v = _make_input(T(len(kind[1])), base, namer, inputs)
        return NamedTup(v.items, kind[1])
    if k == 'VEC':                       # a small integer numpy vector
        v = _make_input(T(kind[1]), base, namer, inputs)
        return Vec(v.items)
    if k == 'B':
        nm = namer.fresh(base)
        inputs.append({'name': nm, 'type': TB, 'comps': None})
        return var(nm, 'B')
    if k == 'Z':
        nm = namer.fresh(base)
        inputs.append({'name': nm, 'type': TZ, 'comps': None})
        if pos:
            _POSVARS.add(nm)
        return var(nm, 'Z')
    if k == 'NONE':
        return NONE
    if k == 'STR':                       # the instance fixes this (string) argument
        return StrV(kind[1])
    if k == 'CONSTB':                    # the instance fixes this boolean argument
        return bconst(kind[1])
    if k == 'OPAQUE':
        return Opaque(f'parameter {base} is not an integer')
    if k == 'SLICEBOX':
        nm = namer.fresh(base)
        comps = [namer.fresh(f'{base}_{s}') for s in ('r0', 'r1', 'c0', 'c1')]
        inputs.append({'name': nm, 'type': TT(TSL, TSL), 'comps': comps, 'nested': True})
        z = [var(c, 'Z') for c in comps]
        return PyTuple([Slice(z[0], z[1]), Slice(z[2], z[3])])
    if k == 'ARR':
        shape = _make_input(('T', kind[1]) + (('pos',) if pos else ()), base + '_shape', namer, inputs)
        return Arr(base, shape, kind[1])
    if k == 'OBJ':
        return Obj(base, {a: _make_input(t, f'{base}_{a}', namer, inputs) for a, t in kind[1].items()})
    if k == 'LISTOF':
        ek, attrs = kind[1]
        (attr, aty), = attrs.items()
        nm = namer.fresh(f'{base}_{attr}')
        inputs.append({'name': nm, 'type': ('list', TZn(aty[1])), 'comps': None})
        v = ListOf(base, kind[1])
        v.input = nm
        return v
    raise ValueError(kind)


def _returns_in_order(stmts):
    out = []

    def go(node):
        if isinstance(node, ast.Return):
            out.append(node)
        for ch in ast.iter_child_nodes(node):
            if not isinstance(ch, (ast.FunctionDef, ast.Lambda, ast.ClassDef, ast.AsyncFunctionDef)):
                go(ch)
    for s in stmts:
        go(s)
    return out


def _vtype(v, name, where):
    if isinstance(v, X):
        return TZ if v.ty == 'Z' else TB
    if isinstance(v, PyTuple):
        if v.kind != 'tuple':
            raise TranslationRefused(name, f'{where}: the result contains a list')
        if not v.items:
            return ('unit',)
        if len(v.items) == 1:
            raise TranslationRefused(name, f'{where}: 1-tuples are not translated')
        return TT(*[_vtype(it, name, where) for it in v.items])
    if isinstance(v, Slice):
        if not (isinstance(v.start, X) and isinstance(v.stop, X)):
            raise TranslationRefused(name, f'{where}: slice with an open bound')
        return TSL
    if isinstance(v, LList) and v.arity is not None and not is_poisoned(v):
        return ('list', TZ if v.arity == 0 else TZn(v.arity))
    if isinstance(v, Frac):
        return TZn(2)                      # a rational result: the pair (numerator, positive denominator)
    raise TranslationRefused(name, f'{where}: the result is a {describe(v)}')


def _leaf_types(t, name, acc):
    k = t[0]
    if k == 'let':
        _leaf_types(t[3], name, acc)
    elif k == 'fold':
        _leaf_types(t[6], name, acc)
    elif k == 'loop':
        if t[6]:
            acc['raise'] = True
        _leaf_types(t[7], name, acc)
    elif k == 'ite':
        _leaf_types(t[2], name, acc)
        _leaf_types(t[3], name, acc)
    elif k == 'ret':
        acc['ret'].append(_vtype(t[1], name, 'result'))
    elif k == 'none':
        acc['none'] = True
    elif k == 'raise':
        acc['raise'] = True


def _unify(a, b, name):
    """the common type of two result shapes: () against T is option T, componentwise inside tuples"""
    if a == b:
        return a
    if a == ('unit',) or b == ('unit',):
        o = b if a == ('unit',) else a
        return o if o[0] == 'option' else TOPT(o)
    if a[0] == 'option' or b[0] == 'option':
        return TOPT(_unify(a[1] if a[0] == 'option' else a, b[1] if b[0] == 'option' else b, name))
    if a[0] == 'tuple' and b[0] == 'tuple' and len(a[1]) == len(b[1]):
        return TT(*[_unify(x, y, name) for x, y in zip(a[1], b[1])])
    raise TranslationRefused(name, f'the function returns values of different shapes: {a} and {b}')


def _has_unit(t):
    return t == ('unit',) or (t[0] in ('tuple',) and any(_has_unit(x) for x in t[1])) or \
        (t[0] in ('option', 'result') and _has_unit(t[1]))


def _map_leaves(t, f):
    k = t[0]
    if k == 'let':
        return t[:3] + (_map_leaves(t[3], f),)
    if k == 'fold':
        return t[:6] + (_map_leaves(t[6], f),)
    if k == 'loop':
        return t[:7] + (_map_leaves(t[7], f),)
    if k == 'ite':
        return (k, t[1], _map_leaves(t[2], f), _map_leaves(t[3], f))
    return ('ret', f(t[1])) if k == 'ret' else t


def _strip(t):
    """a result type without the marker of an option that stands for an unobserved return"""
    if t[0] in ('option', 'result', 'list'):
        return (t[0], _strip(t[1]))
    if t[0] == 'tuple':
        return ('tuple', [_strip(x) for x in t[1]])
    return t


def _result_type(term, name):
    acc = {'ret': [], 'none': False, 'raise': False}
    _leaf_types(term, name, acc)
    if not acc['ret']:
        raise TranslationRefused(name, 'no path of the function yields a value')
    ty = acc['ret'][0]
    for t in acc['ret'][1:]:
        ty = _unify(ty, t, name)
    if _has_unit(ty):
        raise TranslationRefused(name, 'the function returns () on every path (or inside a tuple on every path)')
    if acc['none']:
        if ty[0] == 'option':
            raise TranslationRefused(name, 'both () results and unobserved returns')
        ty = ('option', ty, 'none-leaf')
    if acc['raise']:
        ty = TRES(ty)
    return ty


def _extra_inputs(spec, namer, inputs, ex=None):
    """the inputs that are not parameters, in the fixed order: calls, arr_calls, assume, assume_at_loop"""
    for key, (anm, kind) in spec.get('calls', {}).items():
        v = _make_input(kind, anm, namer, inputs)
        if ex:
            ex.atoms[key] = v
    for d, tab in spec.get('arr_calls', {}).items():
        for arr, (anm, kind) in tab.items():
            v = _make_input(kind, anm, namer, inputs)
            if ex:
                ex.arr_atoms[(d, arr)] = v
    for nm, kind in spec.get('assume', {}).items():
        v = _make_input(kind, nm, namer, inputs)
        if ex:
            ex.assumed[nm] = v
    for nm, kind in spec.get('assume_at_loop', {}).items():
        v = _make_input(kind, nm, namer, inputs)
        if ex:
            ex.assumed_at_loop[nm] = v
    if spec.get('index_var'):
        v = _make_input(Z_K, spec['index_var'], namer, inputs)
        if ex:
            ex.index_var = v
    if spec.get('mesh_vars'):
        vs = [_make_input(Z_K, nm, namer, inputs) for nm in spec['mesh_vars']]
        if ex:
            ex.mesh_vars = vs
            if ex.index_var is None:
                ex.index_var = var('k_arange_', 'Z')     # placeholder: must be substituted by np.meshgrid


def translate_one(spec, fdefs, loader=None):
    """-> dict(defs=[coq text...], py=source text, inputs=[...], rtype=...) or raises TranslationRefused"""
    name = spec['name']
    _POSVARS.clear()
    fd = fdefs.get(spec['func'])
    if fd is None:
        raise TranslationRefused(name, f'function {spec["func"]} not found in {spec["file"]}')
    a = fd.args
    kwarg_ok = a.kwarg is None or spec.get('kwarg') == a.kwarg.arg
    deco_ok = all(ast.unparse(d_) in spec.get('decorators', ()) for d_ in fd.decorator_list)
    if a.vararg or not kwarg_ok or a.kwonlyargs or a.posonlyargs or not deco_ok:
        raise TranslationRefused(name, 'signature has decorators, *args, **kwargs or keyword-only parameters')
    pnames = [x.arg for x in a.args]
    if pnames != list(spec['params']):
        raise TranslationRefused(name, f'parameters are {pnames}, the spec expects {list(spec["params"])}')
    namer = Namer()
    inputs = []
    env = {}
    ex = Exec(spec, fdefs, namer)
    ex.listvars = {}
    for p in pnames:
        env[p] = _make_input(spec['params'][p], p, namer, inputs)
        if isinstance(env[p], ListOf):
            ex.listvars[p] = env[p].input
    if a.kwarg is not None:
        env[a.kwarg.arg] = Opaque(f'**{a.kwarg.arg} is not an integer')
    ex.param0 = dict(env)
    ex.loader = loader
    _extra_inputs(spec, namer, inputs, ex)
    body = list(fd.body)
    if 'focus' in spec:
        pre, body = spec['focus'](fd, name)
        for s in pre:
            if not _is_docstring(s):
                raise TranslationRefused(name, f'line {s.lineno}: statement before the translated block')
    ex.returns = _returns_in_order(body)
    if 'observe' in spec:
        spec = dict(spec)
        spec['observe_ast'] = ast.parse(spec['observe'], mode='eval').body
        ex.spec = spec
        if 'returns' not in spec:
            spec['returns'] = ['obs'] * len(ex.returns)
        if len(ex.returns) != len(spec['returns']):
            raise TranslationRefused(name, f'{len(ex.returns)} return statements, the spec describes '
                                           f'{len(spec["returns"])}')

    def end(env_):
        if spec.get('end') == 'obs':
            return ex.observe(env_, 'end of the translated block')
        raise TranslationRefused(name, 'control can reach the end of the function without a return')

    for n in ast.walk(ast.Module(body=body, type_ignores=[])):
        if isinstance(n, (ast.FunctionDef, ast.AsyncFunctionDef, ast.ClassDef, ast.Global, ast.Nonlocal, ast.While,
                          ast.Try, ast.With, ast.Delete, ast.NamedExpr,
                          ast.Match if hasattr(ast, 'Match') else ast.While)):
            raise TranslationRefused(name, f'line {n.lineno}: {type(n).__name__} is outside the whitelist')
    try:
        term = ex.block(body, env, end)
    except _Unsup as e:          # should have been converted; fail closed
        raise TranslationRefused(name, str(e))
    rtype = _result_type(term, name)
    if _strip(rtype) != spec['rtype']:
        raise TranslationRefused(name, f'result type {coq_type(rtype)} is not the declared {coq_type(spec["rtype"])}')
    return {'term': term, 'inputs': inputs, 'rtype': rtype, 'helpers': ex.helpers}


# ====================================================================== printing: Gallina
def gz(n):
    return str(n) if n >= 0 else f'({n})'


_GBIN = {'add': '+', 'sub': '-', 'mul': '*', 'div': '/', 'mod': 'mod', 'le': '<=?', 'lt': '<?', 'ge': '>=?',
         'gt': '>?', 'eq': '=?', 'and': '&&', 'or': '||'}


def gx(x):
    o = x.op
    if o == 'int':
        return gz(x.a[0])
    if o == 'bool':
        return 'true' if x.a[0] else 'false'
    if o == 'var':
        return x.a[0]
    if o in _GBIN:
        return f'({gx(x.a[0])} {_GBIN[o]} {gx(x.a[1])})'
    if o == 'ne':
        return f'(negb ({gx(x.a[0])} =? {gx(x.a[1])}))'
    if o in ('max', 'min', 'quot'):
        return f'(Z.{o} {gx(x.a[0])} {gx(x.a[1])})'
    if o == 'neg':
        return f'(- {gx(x.a[0])})'
    if o == 'not':
        return f'(negb {gx(x.a[0])})'
    if o == 'ite':
        return f'(if {gx(x.a[0])} then {gx(x.a[1])} else {gx(x.a[2])})'
    if o == 'llit':
        if not x.a[0]:
            et = 'Z' if x.a[1] in (0, None) else coq_type(TZn(x.a[1]))
            return f'(@nil {et})'
        return '[' + '; '.join(gv(e) for e in x.a[0]) + ']'
    if o == 'lapp':
        return f'({gx(x.a[0])} ++ [{gv(x.a[1])}])'
    if o == 'llen':
        return f'(Z.of_nat (length {gx(x.a[0])}))'
    if o == 'lnth':
        return f'(nth (Z.to_nat {gx(x.a[1])}) {gx(x.a[0])} 0)'
    if o == 'llast':
        return f'(last {gx(x.a[0])} 0)'
    raise ValueError(o)


def gv(v, ty=None, top=False):
    """a value printed against its (unified) type: under an option type () is None, anything else Some"""
    if ty is not None and ty[0] == 'option':
        if isinstance(v, PyTuple) and not v.items:
            return 'None'
        r = f'Some {gv(v, ty[1])}'
        return r if top else f'({r})'
    if isinstance(v, X):
        return gx(v)
    if isinstance(v, LList):
        return gx(v.x)
    if isinstance(v, Frac):
        return f'({gx(v.num)}, {gx(v.den)})'
    if isinstance(v, PyTuple):
        ts = ty[1] if ty is not None else [None] * len(v.items)
        return '(' + ', '.join(gv(it, t) for it, t in zip(v.items, ts)) + ')'
    if isinstance(v, Slice):
        return f'({gx(v.start)}, {gx(v.stop)})'
    raise ValueError(v)


def g_leaf(t, rtype):
    """a leaf of the term under the result type"""
    res = rtype[0] == 'result'
    inner = rtype[1] if res else rtype
    if t[0] == 'raise':
        return f'Err {t[1]}'
    if t[0] == 'none':
        s = 'None'
    elif len(inner) == 3:                       # option that stands for an unobserved return
        s = f'Some {gv(t[1], inner[1])}'
    else:
        s = gv(t[1], inner, top=True)
    return f'Ok ({s})' if res else s


def g_term(t, rtype, ind):
    p = '  ' * ind
    k = t[0]
    if k == 'let':
        return f'{p}let {t[1]} := {gx(t[2])} in\n' + g_term(t[3], rtype, ind)
    if k == 'fold':
        _, new, step, lst, inits, _tys, body = t
        pat = new[0] if len(new) == 1 else "'(" + ', '.join(new) + ')'
        init = gx(inits[0]) if len(inits) == 1 else '(' + ', '.join(gx(i) for i in inits) + ')'
        return f'{p}let {pat} := fold_left {step} {lst} {init} in\n' + g_term(body, rtype, ind)
    if k == 'loop':
        _, pats, step, lo, hi, inits, fallible, body = t
        if lo.op == 'int' and lo.a[0] == 0:
            idx = f'(map Z.of_nat (seq 0 (Z.to_nat {gx(hi)})))'
        else:
            idx = f'(map (fun k_ => {gx(lo)} + Z.of_nat k_) (seq 0 (Z.to_nat ({gx(hi)} - {gx(lo)}))))'
        init = gv(inits[0]) if len(inits) == 1 else '(' + ', '.join(gv(v) for v in inits) + ')'
        pat = pats[0] if len(pats) == 1 else '(' + ', '.join(pats) + ')'
        if not fallible:
            lhs = pat if not pat.startswith('(') else "'" + pat
            return f'{p}let {lhs} := fold_left {step} {idx} {init} in\n' + g_term(body, rtype, ind)
        return (f'{p}match fold_left (fun acc_ i_ => rbind acc_ (fun st_ => {step} st_ i_)) {idx} (Ok {init}) with\n'
                f'{p}| Err e_ => Err e_\n{p}| Ok {pat} =>\n' + g_term(body, rtype, ind + 1) + f'\n{p}end')
    if k == 'ite':
        return (f'{p}if {gx(t[1])} then\n' + g_term(t[2], rtype, ind + 1) + f'\n{p}else\n'
                + g_term(t[3], rtype, ind + 1))
    return p + g_leaf(t, rtype)


def g_pattern(inp):
    c = inp['comps']
    if inp.get('nested'):
        return f"'(({c[0]}, {c[1]}), ({c[2]}, {c[3]}))"
    return "'(" + ', '.join(c) + ')'


def g_binders(inputs):
    return ' '.join(f'({i["name"]} : {coq_type(i["type"])})' for i in inputs)


def g_def(spec, tr):
    out = []
    for h in tr['helpers']:
        if h.get('kind') == 'loop':
            pats = [q[2] for q in h['params']]
            pat = pats[0] if len(pats) == 1 else '(' + ', '.join(pats) + ')'
            rty = TRES(h['sty']) if h['fallible'] else h['sty']
            term = h['term'] if len(pats) > 1 else _map_leaves(h['term'], lambda v: v.items[0])
            lhs = pat if not pat.startswith('(') else "'" + pat
            out.append(f'Definition {h["name"]} (st_ : {coq_type(h["sty"])}) ({h["ivar"]} : Z) : {coq_type(rty)} :=\n'
                       f'  let {lhs} := st_ in\n' + g_term(term, rty, 1) + '.')
            continue
        sty = [TZ if t == 'Z' else TB for t in h['st_types']]
        st_t = coq_type(TT(*sty)) if len(sty) > 1 else coq_type(sty[0])
        el_t = coq_type(TZn(len(h['el_names'])))
        st_pat = h['st_names'][0] if len(sty) == 1 else "'(" + ', '.join(h['st_names']) + ')'
        body = gx(h['outs'][0]) if len(sty) == 1 else '(' + ', '.join(gx(o) for o in h['outs']) + ')'
        out.append(f'Definition {h["name"]} (st : {st_t}) (el : {el_t}) : {st_t} :=\n'
                   f"  let {st_pat} := st in\n  let '({', '.join(h['el_names'])}) := el in\n  {body}.")
    lines = [f'Definition src_{spec["name"]} {g_binders(tr["inputs"])} : {coq_type(tr["rtype"])} :=']
    for i in tr['inputs']:
        if i['comps'] and len(i['comps']) > 1:
            lines.append(f'  let {g_pattern(i)} := {i["name"]} in')
        elif i['comps']:
            lines.append(f'  let {i["comps"][0]} := {i["name"]} in')
    out.append('\n'.join(lines) + '\n' + g_term(tr['term'], tr['rtype'], 1) + '.')
    return '\n'.join(out)


# ====================================================================== printing: Python
_PBIN = {'add': '+', 'sub': '-', 'mul': '*', 'div': '//', 'mod': '%', 'le': '<=', 'lt': '<', 'ge': '>=',
         'gt': '>', 'eq': '==', 'ne': '!=', 'and': 'and', 'or': 'or'}


def px(x):
    o = x.op
    if o == 'int':
        return f'({x.a[0]})'
    if o == 'bool':
        return 'True' if x.a[0] else 'False'
    if o == 'var':
        return x.a[0]
    if o in _PBIN:
        return f'({px(x.a[0])} {_PBIN[o]} {px(x.a[1])})'
    if o in ('max', 'min'):
        return f'{o}({px(x.a[0])}, {px(x.a[1])})'
    if o == 'quot':
        return f'_quot({px(x.a[0])}, {px(x.a[1])})'
    if o == 'neg':
        return f'(-{px(x.a[0])})'
    if o == 'not':
        return f'(not {px(x.a[0])})'
    if o == 'ite':
        return f'({px(x.a[1])} if {px(x.a[0])} else {px(x.a[2])})'
    if o == 'llit':
        return '[' + ', '.join(pv(e) for e in x.a[0]) + ']'
    if o == 'lapp':
        return f'({px(x.a[0])} + [{pv(x.a[1])}])'
    if o == 'llen':
        return f'len({px(x.a[0])})'
    if o == 'lnth':
        return f'{px(x.a[0])}[{px(x.a[1])}]'
    if o == 'llast':
        return f'{px(x.a[0])}[-1]'
    raise ValueError(o)


def pv(v, ty=None):
    if ty is not None and ty[0] == 'option':
        if isinstance(v, PyTuple) and not v.items:
            return 'None'
        return pv(v, ty[1])
    if isinstance(v, X):
        return px(v)
    if isinstance(v, LList):
        return px(v.x)
    if isinstance(v, Frac):
        return f'({px(v.num)}, {px(v.den)},)'
    if isinstance(v, PyTuple):
        ts = ty[1] if ty is not None else [None] * len(v.items)
        return '(' + ', '.join(pv(it, t) for it, t in zip(v.items, ts)) + ',)'
    if isinstance(v, Slice):
        return f'({px(v.start)}, {px(v.stop)},)'
    raise ValueError(v)


def p_leaf(t, rtype):
    """python value conventions: option -> None | value; result -> ('err', kind) | ('ok', value)"""
    res = rtype[0] == 'result'
    inner = rtype[1] if res else rtype
    if t[0] == 'raise':
        return f"('err', {t[1]!r})"
    if t[0] == 'none':
        s = 'None'
    else:
        s = pv(t[1], inner[1] if len(inner) == 3 else inner)
    return f"('ok', {s})" if res else s


def p_term(t, rtype, ind, out):
    p = '    ' * ind
    k = t[0]
    if k == 'let':
        out.append(f'{p}{t[1]} = {px(t[2])}')
        p_term(t[3], rtype, ind, out)
    elif k == 'fold':
        _, new, step, lst, inits, _tys, body = t
        init = px(inits[0]) if len(inits) == 1 else '(' + ', '.join(px(i) for i in inits) + ')'
        tgt = new[0] if len(new) == 1 else '(' + ', '.join(new) + ')'
        out.append(f'{p}{tgt} = _reduce({step}, {lst}, {init})')
        p_term(body, rtype, ind, out)
    elif k == 'loop':
        _, pats, step, lo, hi, inits, fallible, body = t
        init = pv(inits[0]) if len(inits) == 1 else '(' + ', '.join(pv(v) for v in inits) + ',)'
        pat = pats[0] if len(pats) == 1 else '(' + ', '.join(pats) + ')'
        out.append(f'{p}st_ = {init}')
        out.append(f'{p}for i_ in range({px(lo)}, {px(hi)}):')
        if fallible:
            out += [f'{p}    r_ = {step}(st_, i_)', f"{p}    if r_[0] == 'err':", f'{p}        return r_',
                    f'{p}    st_ = r_[1]']
        else:
            out.append(f'{p}    st_ = {step}(st_, i_)')
        out.append(f'{p}{pat} = st_')
        p_term(body, rtype, ind, out)
    elif k == 'ite':
        out.append(f'{p}if {px(t[1])}:')
        p_term(t[2], rtype, ind + 1, out)
        out.append(f'{p}else:')
        p_term(t[3], rtype, ind + 1, out)
    else:
        out.append(f'{p}return {p_leaf(t, rtype)}')


def p_def(spec, tr):
    out = []
    for h in tr['helpers']:
        if h.get('kind') == 'loop':
            pats = [q[2] for q in h['params']]
            pat = pats[0] if len(pats) == 1 else '(' + ', '.join(pats) + ')'
            rty = TRES(h['sty']) if h['fallible'] else h['sty']
            term = h['term'] if len(pats) > 1 else _map_leaves(h['term'], lambda v: v.items[0])
            out += [f'def {h["name"]}(st_, {h["ivar"]}):', f'    {pat} = st_']
            p_term(term, rty, 1, out)
            continue
        n = len(h['st_names'])
        st = h['st_names'][0] if n == 1 else '(' + ', '.join(h['st_names']) + ')'
        body = px(h['outs'][0]) if n == 1 else '(' + ', '.join(px(o) for o in h['outs']) + ')'
        out += [f'def {h["name"]}(st, el):', f'    {st} = st', f'    ({", ".join(h["el_names"])},) = el',
                f'    return {body}']
    out.append(f'def src_{spec["name"]}({", ".join(i["name"] for i in tr["inputs"])}):')
    for i in tr['inputs']:
        c = i['comps']
        if c and i.get('nested'):
            out.append(f'    (({c[0]}, {c[1]}), ({c[2]}, {c[3]})) = {i["name"]}')
        elif c and len(c) > 1:
            out.append(f'    ({", ".join(c)},) = {i["name"]}')
        elif c:
            out.append(f'    {c[0]} = {i["name"]}')
    p_term(tr['term'], tr['rtype'], 1, out)
    return '\n'.join(out)


# ====================================================================== the whitelist
def _focus_first_else(fd, name):
    """the else-block of the first top-level `if` of the function"""
    for k, s in enumerate(fd.body):
        if isinstance(s, ast.If):
            if not s.orelse:
                raise TranslationRefused(name, f'line {s.lineno}: the first top-level if has no else block')
            return fd.body[:k], list(s.orelse)
    raise TranslationRefused(name, 'no top-level if statement')


EXT = 'lentil/extent.py'
_EXT_INLINE = ('array_extent', 'array_center', 'intersect', 'intersection_extent', 'intersection_shape',
               'intersection_slices', 'intersection_shift')
_E4 = '(a : Z * Z * Z * Z) (b : Z * Z * Z * Z)'

SPECS = [
    # ---------------------------------------------------------------- lentil/extent.py (all of it)
    dict(name='array_extent', file=EXT, func='array_extent', inline=_EXT_INLINE,
         params={'shape': T(2), 'shift': T(2), 'parent_shape': NONE_K}, rtype=TZn(4),
         doc='array_extent(shape, shift) for a 2-tuple shape, parent_shape=None',
         fallback='array_extent (fst shape) (snd shape) (fst shift) (snd shift)'),
    dict(name='array_extent_0d', file=EXT, func='array_extent', inline=_EXT_INLINE,
         params={'shape': T(0), 'shift': T(2), 'parent_shape': NONE_K}, rtype=TZn(4),
         doc='array_extent((), shift): the `len(shape) < 2` guard replaces the shape by (1, 1)',
         fallback='array_extent 1 1 (fst shift) (snd shift)'),
    dict(name='array_extent_parent', file=EXT, func='array_extent', inline=_EXT_INLINE,
         params={'shape': T(2), 'shift': T(2), 'parent_shape': T(2)}, rtype=TZn(4),
         doc='array_extent(shape, shift, parent_shape) for 2-tuples (extent relative to the parent corner)',
         fallback="let '(r0, r1, c0, c1) := array_extent (fst shape) (snd shape) (fst shift) (snd shift) in\n"
                  '  (r0 + fst parent_shape / 2, r1 + fst parent_shape / 2, c0 + snd parent_shape / 2, '
                  'c1 + snd parent_shape / 2)'),
    dict(name='array_center', file=EXT, func='array_center', inline=_EXT_INLINE,
         params={'extent': T(4)}, rtype=TZn(2), doc='array_center(extent)', fallback='array_center extent'),
    dict(name='intersect', file=EXT, func='intersect', inline=_EXT_INLINE,
         params={'a': T(4), 'b': T(4)}, rtype=TB, doc='intersect(a, b)', fallback='intersect a b'),
    dict(name='intersection_extent', file=EXT, func='intersection_extent', inline=_EXT_INLINE,
         params={'a': T(4), 'b': T(4)}, rtype=TZn(4), doc='intersection_extent(a, b)',
         fallback='intersection_extent a b'),
    dict(name='intersection_shape', file=EXT, func='intersection_shape', inline=_EXT_INLINE,
         params={'a': T(4), 'b': T(4)}, rtype=TOPT(TZn(2)), doc='intersection_shape(a, b); () is None',
         fallback='intersection_shape a b'),
    dict(name='intersection_slices', file=EXT, func='intersection_slices', inline=_EXT_INLINE,
         params={'a': T(4), 'b': T(4)}, rtype=TT(TT(TSL, TSL), TT(TSL, TSL)),
         doc='intersection_slices(a, b); slice(x, y) is the pair (x, y)', fallback='intersection_slices a b'),
    dict(name='intersection_shift', file=EXT, func='intersection_shift', inline=_EXT_INLINE,
         params={'a': T(4), 'b': T(4)}, rtype=TZn(2), doc='intersection_shift(a, b)',
         fallback='intersection_shift a b'),
    # ---------------------------------------------------------------- lentil/field.py
    dict(name='field_boundary', file='lentil/field.py', func='boundary',
         params={'fields': LISTOF(OBJ(extent=T(4)))}, rtype=TZn(4),
         doc='boundary(fields) as a function of the list [f.extent for f in fields]',
         fallback='fold_left src_field_boundary_step fields_extent '
                  '(9223372036854775807, -9223372036854775807, 9223372036854775807, -9223372036854775807)',
         fallback_helpers=['Definition src_field_boundary_step (st el : Z * Z * Z * Z) : Z * Z * Z * Z :=\n'
                           "  let '(rmin, rmax, cmin, cmax) := st in let '(frmin, frmax, fcmin, fcmax) := el in\n"
                           '  (if frmin <? rmin then frmin else rmin, if frmax >? rmax then frmax else rmax,\n'
                           '   if fcmin <? cmin then fcmin else cmin, if fcmax >? cmax then fcmax else cmax).']),
    dict(name='merge_offset', file='lentil/field.py', func='_merge_offset',
         params={'fields': OPAQUE_K}, calls={'boundary(fields)': ('bnd', T(4))}, rtype=TZn(2),
         doc='_merge_offset(fields) as a function of bnd = boundary(fields)',
         fallback="let '(rmin, rmax, cmin, cmax) := bnd in (rmin + (rmax - rmin + 1) / 2, "
                  'cmin + (cmax - cmin + 1) / 2)'),
    dict(name='merge_shape', file='lentil/field.py', func='_merge_shape',
         params={'fields': OPAQUE_K},
         calls={'boundary(fields)': ('bnd', T(4)), '_merge_scalars(fields)': ('scalars', BOOL_K)},
         rtype=TOPT(TZn(2)),
         doc='_merge_shape(fields) as a function of bnd = boundary(fields) and scalars = _merge_scalars(fields)',
         fallback="let '(rmin, rmax, cmin, cmax) := bnd in if scalars then None else "
                  'Some (rmax - rmin + 1, cmax - cmin + 1)'),
    dict(name='insert_clip', file='lentil/field.py', func='insert',
         params={'field': OBJ(shape=T(2), offset=SEQ(2)), 'out': ARR(2), 'intensity': OPAQUE_K,
                 'weight': OPAQUE_K},
         focus=_focus_first_else, returns=['none'], end='obs', observe='(out_slice, field_slice)',
         rtype=TOPT(TT(TT(TSL, TSL), TT(TSL, TSL))),
         doc='insert(field, out, ...): the else-block of its first if (the clipping arithmetic); the value of '
             '(out_slice, field_slice) after that block, None where the block returns early (nothing to add)',
         fallback="let cr := reconcile (fst out_shape) (fst field_shape) "
                  '(fst out_shape / 2 - fst field_shape / 2 + fst field_offset) in\n'
                  '  let cc := reconcile (snd out_shape) (snd field_shape) '
                  '(snd out_shape / 2 - snd field_shape / 2 + snd field_offset) in\n'
                  '  if negb (clip_nonempty cr) || negb (clip_nonempty cc) then None else\n'
                  '  Some (((o_lo cr, o_hi cr), (o_lo cc, o_hi cc)), ((f_lo cr, f_hi cr), (f_lo cc, f_hi cc)))'),
    # ---------------------------------------------------------------- lentil/helper.py
    dict(name='slice_offset', file='lentil/helper.py', func='slice_offset',
         params={'slice': SLICEBOX_K, 'shape': T(2)}, rtype=TZn(2),
         doc='slice_offset(slice, shape) for slice = (slice(r0, r1), slice(c0, c1)) and a 2-tuple shape',
         fallback="let '((r0, r1), (c0, c1)) := slice in Geometry.slice_offset (SlBox r0 r1 c0 c1) "
                  '(fst shape) (snd shape)'),
    dict(name='boundary_slice', file='lentil/helper.py', func='boundary_slice',
         params={'x': ARR(2), 'threshold': OPAQUE_K, 'pad': T(2)},
         calls={'lentil.boundary(x, threshold)': ('bnd', T(4))}, rtype=TT(TSL, TSL),
         doc='boundary_slice(x, threshold, pad) for a 2-d x and a 2-tuple pad, as a function of x.shape, pad '
             'and bnd = lentil.boundary(x, threshold)',
         fallback="let '(r0, r1, c0, c1) := bslice_of (fst x_shape) (snd x_shape) (fst pad) (snd pad) bnd in "
                  '((r0, r1), (c0, c1))'),
    # ---------------------------------------------------------------- lentil/util.py
    dict(name='pad_bounds', file='lentil/util.py', func='pad',
         params={'array': ARR(2), 'shape': T(2)},
         observe='(rmin0, rmax0, rmin1, rmax1, cmin0, cmax0, cmin1, cmax1)', rtype=TZn(8),
         doc='pad(array, shape) for a 2-d array: the slice bounds (rmin0, rmax0, rmin1, rmax1, cmin0, cmax0, '
             'cmin1, cmax1) at its return, as a function of array.shape and shape',
         fallback='(pad_src_lo (fst array_shape) (fst shape), pad_src_hi (fst array_shape) (fst shape), '
                  'pad_dst_lo (fst array_shape) (fst shape), pad_dst_hi (fst array_shape) (fst shape), '
                  'pad_src_lo (snd array_shape) (snd shape), pad_src_hi (snd array_shape) (snd shape), '
                  'pad_dst_lo (snd array_shape) (snd shape), pad_dst_hi (snd array_shape) (snd shape))'),
    dict(name='pad_bounds_3d', file='lentil/util.py', func='pad',
         params={'array': ARR(3), 'shape': T(2)},
         observe='(rmin0, rmax0, rmin1, rmax1, cmin0, cmax0, cmin1, cmax1)', rtype=TZn(8),
         doc='pad(array, shape) for a 3-d array (cube): the same bounds, computed from array.shape[1:]',
         fallback="let '(d, n, m) := array_shape in (pad_src_lo n (fst shape), pad_src_hi n (fst shape), "
                  'pad_dst_lo n (fst shape), pad_dst_hi n (fst shape), pad_src_lo m (snd shape), '
                  'pad_src_hi m (snd shape), pad_dst_lo m (snd shape), pad_dst_hi m (snd shape))'),
    dict(name='subarray_bounds', file='lentil/util.py', func='subarray',
         params={'a': ARR(2), 'shape': T(2), 'shift': T(2)},
         observe='(rmin, rmax, cmin, cmax)', rtype=TRES(TZn(4)),
         doc='subarray(a, shape, shift) for a 2-d a: Err ValueError where it raises, else the slice bounds '
             '(rmin, rmax, cmin, cmax) at its return',
         fallback="let rmin := sub_lo (fst a_shape) (fst shape) (fst shift) in\n"
                  '  let cmin := sub_lo (snd a_shape) (snd shape) (snd shift) in\n'
                  '  if (rmin <? 0) || (cmin <? 0) || (rmin + fst shape >? fst a_shape) || '
                  '(cmin + snd shape >? snd a_shape) then Err ValueError\n'
                  '  else Ok (rmin, rmin + fst shape, cmin, cmin + snd shape)'),
]


# ---------------------------------------------------------------------- C02: lentil/propagate.py
PRP = 'lentil/propagate.py'
_PRP_INLINE = ('_mask_shape', '_mask_shift') + tuple('lentil.extent.' + f for f in _EXT_INLINE)
_PRP_PARAMS = {'wavefront': OBJ(shape=T(2)), 'pixelscale': OPAQUE_K, 'shape': T(2), 'prop_shape': T(2),
               'oversample': Z_K, 'mask': NONE_K}
_T_SHAPES = TT(TZn(2), TZn(2), TZn(4))
_OBS_SHAPES = '(tuple(shape_out), tuple(prop_shape_out), out_extent)'
_FB_SHAPES = ('((fst {s} * oversample, snd {s} * oversample), (fst {p} * oversample, snd {p} * oversample), '
              'array_extent (fst {s} * oversample) (snd {s} * oversample) 0 0)')

SPECS_C02 = [
    dict(name='mask_shape', file=PRP, func='_mask_shape', params={'x': ARR(2), 'threshold': OPAQUE_K},
         arr_calls={'lentil.boundary': {'x': ('bnd', T(4))}}, rtype=TZn(2),
         doc='_mask_shape(x, threshold) as a function of bnd = lentil.boundary(x, threshold)',
         fallback='mask_shape bnd'),
    dict(name='mask_shift', file=PRP, func='_mask_shift', params={'x': ARR(2), 'threshold': OPAQUE_K},
         arr_calls={'lentil.boundary': {'x': ('bnd', T(4))}}, rtype=TZn(2),
         doc='_mask_shift(x, threshold) as a function of x.shape and bnd = lentil.boundary(x, threshold)',
         fallback='mask_shift (fst x_shape) (snd x_shape) bnd'),
    dict(name='dft_shapes', file=PRP, func='propagate_dft', params=_PRP_PARAMS, inline=_PRP_INLINE,
         modules={'lentil.extent': EXT}, loop_focus={'iter': 'data', 'mode': 'before'}, observe=_OBS_SHAPES,
         rtype=_T_SHAPES,
         doc='propagate_dft(wavefront, pixelscale, shape, prop_shape, oversample, mask=None) for 2-tuple shape and '
             'prop_shape: (shape_out, prop_shape_out, out_extent) when the loop over the fields is reached',
         fallback=_FB_SHAPES.format(s='shape', p='prop_shape')),
    dict(name='dft_shapes_default', file=PRP, func='propagate_dft',
         params=dict(_PRP_PARAMS, shape=NONE_K, prop_shape=NONE_K), inline=_PRP_INLINE,
         modules={'lentil.extent': EXT}, loop_focus={'iter': 'data', 'mode': 'before'}, observe=_OBS_SHAPES,
         rtype=_T_SHAPES,
         doc='the same with shape=None, prop_shape=None: both default to wavefront.shape',
         fallback=_FB_SHAPES.format(s='wavefront_shape', p='wavefront_shape')),
    dict(name='dft_shapes_mask', file=PRP, func='propagate_dft', params=dict(_PRP_PARAMS, mask=ARR(2)),
         inline=_PRP_INLINE, modules={'lentil.extent': EXT},
         arr_calls={'lentil.boundary': {'mask': ('bnd', T(4))}},
         loop_focus={'iter': 'data', 'mode': 'before'}, observe=_OBS_SHAPES, rtype=TRES(_T_SHAPES),
         doc='the same with a 2-d mask, as a function of mask.shape and bnd = lentil.boundary(mask, 0): Err ValueError '
             'where the shape check raises, else the output window is the bounding box of the mask',
         fallback='if negb (fst mask_shape =? fst shape * oversample) && negb (snd mask_shape =? snd shape * oversample) '
                  'then Err ValueError else\n'
                  "  let '(msr, msc) := Propagate.mask_shape bnd in\n"
                  "  let '(mhr, mhc) := Propagate.mask_shift (fst mask_shape) (snd mask_shape) bnd in\n"
                  '  Ok ((fst shape * oversample, snd shape * oversample), '
                  '(fst prop_shape * oversample, snd prop_shape * oversample), array_extent msr msc mhr mhc)'),
    dict(name='dft_field_window', file=PRP, func='propagate_dft',
         params=dict(_PRP_PARAMS, shape=NONE_K, prop_shape=NONE_K), inline=_PRP_INLINE,
         modules={'lentil.extent': EXT}, loop_focus={'iter': 'data', 'mode': 'body'},
         assume={'fix_shift': VEC(2)}, assume_at_loop={'out_extent': T(4), 'prop_shape_out': VEC(2)},
         observe='(intersect_shape, intersect_shift, tuple(prop_shift))',
         rtype=TOPT(TT(TOPT(TZn(2)), TZn(2), TZn(2))),
         doc='one iteration of the loop of propagate_dft over the fields, for ARBITRARY integer values of out_extent and '
             'prop_shape_out at the loop and of fix_shift = np.fix(shift) (taken as an integer pair): the value of '
             '(intersect_shape, intersect_shift, prop_shift) at the end of the `if intersect(...)` block, None when '
             'the block is skipped; intersect_shape () is None',
         fallback="let pe := array_extent (fst prop_shape_out) (snd prop_shape_out) (fst fix_shift) (snd fix_shift) in\n"
                  '  if intersect out_extent pe then\n'
                  '    let ishape := intersection_shape out_extent pe in\n'
                  '    let ishift := intersection_shift out_extent pe in\n'
                  "    let '(Ir1, Ic1) := match ishape with Some sh => sh | None => (1, 1) end in\n"
                  '    let ie := array_extent Ir1 Ic1 (fst ishift) (snd ishift) in\n'
                  "    let '(pcr, pcc) := array_center pe in let '(icr, icc) := array_center ie in\n"
                  '    Some (ishape, ishift, (pcr - icr, pcc - icc))\n'
                  '  else None'),
]

# ---------------------------------------------------------------------- C20: lentil/util.py rebin
UTL = 'lentil/util.py'
SPECS_C20 = [
    dict(name='rebin_reshape', file=UTL, func='rebin', params={'img': ARR(2), 'factor': Z_POS},
         calls={'np.iscomplexobj(img)': ('is_complex', BOOL_K)}, observe_calls={'RESHAPE': '.reshape'},
         observe='RESHAPE_0', rtype=TRES(TZn(4)),
         doc='rebin(img, factor) for a 2-d img and factor > 0: Err ValueError for complex data, else the four integers '
             'passed to img.reshape (is_complex = np.iscomplexobj(img))',
         fallback='if is_complex then Err ValueError else Ok (fst img_shape / factor, factor, snd img_shape / factor, '
                  'factor)'),
    dict(name='rebin_reshape_3d', file=UTL, func='rebin', params={'img': ARR(3), 'factor': Z_POS},
         calls={'np.iscomplexobj(img)': ('is_complex', BOOL_K)}, observe_calls={'RESHAPE': '.reshape'},
         observe='(rebinned_shape, RESHAPE_0)', rtype=TRES(TT(TZn(3), TZn(5))),
         doc='rebin(img, factor) for a cube: rebinned_shape and the five integers passed to img.reshape',
         fallback="let '(d, n, m) := img_shape in if is_complex then Err ValueError else "
                  'Ok ((d, n / factor, m / factor), (d, n / factor, factor, m / factor, factor))'),
]

SEG = 'lentil/segmented.py'
_HEX_INLINE = ('Hex', 'hex_add', 'hex_direction', 'hex_neighbor')
_HEXK = ('NT', ['q', 'r', 's'])
SPECS_C20 += [
    dict(name='hex_add', file=SEG, func='hex_add', params={'a': _HEXK, 'b': _HEXK}, inline=_HEX_INLINE,
         rtype=TRES(TZn(3)),
         doc='hex_add(a, b) for two Hex named tuples of integers, including the assertion of Hex() that the cube '
             'coordinates sum to zero (Err AssertionErr)',
         fallback="let '(aq, ar, as_) := a in let '(bq, br, bs) := b in\n"
                  '  if aq + bq + (ar + br) + (as_ + bs) =? 0 then Ok (aq + bq, ar + br, as_ + bs) else Err AssertionErr'),
    dict(name='hex_ring', file=SEG, func='hex_ring', params={'radius': Z_K}, inline=_HEX_INLINE, lists=True,
         globals=('hex_directions',), rtype=TRES(('list', TZn(3))),
         doc='hex_ring(radius): the list of Hex cells of one ring (as integer triples), with the assertions of Hex(); '
             'the outer loop over the six directions is unrolled, each inner `for j in range(radius)` is a fold',
         fallback='Ok (Shapes.hex_ring radius)',
         fallback_helpers=[
             f'Definition src_hex_ring_step{"" if k == 0 else "_" + str(k)} (st_ : (list (Z * Z * Z)) * (Z * Z * Z)) '
             '(j : Z) : result ((list (Z * Z * Z)) * (Z * Z * Z)) :=\n'
             "  let '(res, (q, r, s)) := st_ in\n"
             f'  if (q + {gz(d[0])}) + (r + {gz(d[1])}) + (s + {gz(d[2])}) =? 0\n'
             f'  then Ok (res ++ [(q, r, s)], (q + {gz(d[0])}, r + {gz(d[1])}, s + {gz(d[2])})) else Err AssertionErr.'
             for k, d in enumerate([(1, 0, -1), (1, -1, 0), (0, -1, 1), (-1, 0, 1), (-1, 1, 0), (0, 1, -1)])]),
]

_WIN = dict(file=UTL, func='window', returns=['none', 'none', 'subscript', 'none'])
_WINFB = ("let '(s0, s1, s2, s3) := slice in if {size} =? 1 then Ok None else "
          '{asserts}Ok (Some ((s0, s1), (s2, s3)))')
_WINAS = ('if negb (s1 - s0 =? fst shape) then Err AssertionErr else if negb (s3 - s2 =? snd shape) then '
          'Err AssertionErr else ')
SPECS_C20 += [
    dict(_WIN, name='window_slice', params={'img': ARR(2), 'shape': T(2), 'slice': T(4)},
         rtype=TRES(TOPT(TT(TSL, TSL))),
         doc='window(img, shape, slice) for a 2-d img with both shape and slice given: None when img.size == 1 (img is '
             'returned as is), Err AssertionErr where a size-consistency assert fails, else the two slices of the '
             'returned view img[..., slice[0]:slice[1], slice[2]:slice[3]]',
         fallback=_WINFB.format(size='fst img_shape * snd img_shape', asserts=_WINAS)),
    dict(_WIN, name='window_slice_noshape', params={'img': ARR(2), 'shape': NONE_K, 'slice': T(4)},
         rtype=TOPT(TT(TSL, TSL)),
         doc='window(img, None, slice) for a 2-d img: no assert, the two slices of the returned view',
         fallback="let '(s0, s1, s2, s3) := slice in if fst img_shape * snd img_shape =? 1 then None else "
                  'Some ((s0, s1), (s2, s3))'),
    dict(_WIN, name='window_slice_cube', params={'img': ARR(3), 'shape': T(2), 'slice': T(4)},
         rtype=TRES(TOPT(TT(TSL, TSL))),
         doc='window(cube, shape, slice) for a 3-d img: the slices apply to the last two axes',
         fallback="let '(d, n, m) := img_shape in " + _WINFB.format(size='d * n * m', asserts=_WINAS)),
    dict(name='mesh_origin', file='lentil/helper.py', func='mesh',
         params={'shape': T(2), 'shift': T(2), 'angle': OPAQUE_K}, rationals=True, mesh_vars=('i', 'j'),
         observe='(rr, cc)', rtype=TZn(2),
         doc='helper.mesh(shape, shift, angle) for an integer shift: element (i, j) of the coordinate arrays rr, cc '
             'before the rotation - np.arange(n) - np.floor(n/2.0) - shift, through np.meshgrid(indexing="ij") - '
             'for generic indices i, j: the origin convention (index floor(n/2) is coordinate 0)',
         fallback='(i - fst shape / 2 - fst shift, j - snd shape / 2 - snd shift)'),
]

# ---------------------------------------------------------------------- C11: lentil/zernike.py zernike_index
ZRN = 'lentil/zernike.py'
SPECS_C11 = [
    dict(name='zernike_index', file=ZRN, func='zernike_index', params={'j': Z_K}, assume={'n': Z_K}, lists=True,
         rationals=True, rtype=TRES(TZn(2)),
         doc='zernike_index(j) with the row n (the float formula int(np.ceil((-1 + np.sqrt(1 + 8*j)) / 2) - 1)) as an '
             'argument: everything after it - the position in the row, the sign, the list row_m built by the loop, '
             'the lookup row_m[r] (IndexError when out of range) - and the ValueError for j < 1.  True divisions are '
             'exact rationals (k = (n+1)(n+2)/2, n/2)',
         fallback='noll_code (fun _ => n) j',
         fallback_helpers=['Definition src_zernike_index_step (st_ : list Z) (i : Z) : list Z := append2 st_.']),
]

# ---------------------------------------------------------------------- C15 / C13: lentil/radiometry.py
RAD = 'lentil/radiometry.py'
_CEILD = '(- ((- ({a})) / {d}))'
SPECS_C15 = [
    dict(name='pad_linspace', file=RAD, func='Spectrum.pad', kwarg='kwargs',
         params={'self': OPAQUE_K, 'ends': SEQ(2), 'sampling': OPAQUE_K, 'mode': STR('constant')},
         assume={'dwave': Z_POS, 'minwave': Z_K, 'maxwave': Z_K}, rationals=True,
         observe_calls={'LINSPACE': 'np.linspace'}, observe='(LINSPACE_leftwave, LINSPACE_rightwave)', end='obs', returns=[],
         rtype=TT(TZn(3), TZn(3)),
         doc="Spectrum.pad(ends, sampling, mode='constant') on an INTEGER wavelength grid: with dwave = "
             '_sampling(self.wave, sampling) > 0, minwave, maxwave = self.wave.min(), self.wave.max() as integer '
             'arguments, the arguments (start, stop, num) of the two np.linspace calls that build the padding: '
             'nleft = int(np.ceil((minwave - ends[0])/dwave)) + 1, nright likewise (exact rationals)',
         fallback='((fst ends, minwave, ' + _CEILD.format(a='minwave - fst ends', d='dwave') + ' + 1), '
                  '(maxwave, snd ends, ' + _CEILD.format(a='snd ends - maxwave', d='dwave') + ' + 1))'),
    dict(name='pad_linspace_edge', file=RAD, func='Spectrum.pad', kwarg='kwargs',
         params={'self': OPAQUE_K, 'ends': SEQ(2), 'sampling': OPAQUE_K, 'mode': STR('edge')},
         assume={'dwave': Z_POS, 'minwave': Z_K, 'maxwave': Z_K}, rationals=True,
         observe_calls={'LINSPACE': 'np.linspace'}, observe='(LINSPACE_leftwave, LINSPACE_rightwave)', end='obs', returns=[],
         rtype=TT(TZn(3), TZn(3)), doc="the same for mode='edge'",
         fallback='((fst ends, minwave, ' + _CEILD.format(a='minwave - fst ends', d='dwave') + ' + 1), '
                  '(maxwave, snd ends, ' + _CEILD.format(a='snd ends - maxwave', d='dwave') + ' + 1))'),
]
SPECS_C13 = [
    dict(name='common_grid_linspace', file=RAD, func='_interp_common',
         params={'s1': OPAQUE_K, 's2': OPAQUE_K, 'sampling': OPAQUE_K, 'method': OPAQUE_K, 'fill_value': OPAQUE_K},
         assume={'minwave': Z_K, 'maxwave': Z_K, 'dwave': Z_POS}, rationals=True,
         observe_calls={'LINSPACE': 'np.linspace'}, observe='LINSPACE_commonwave', rtype=TZn(3),
         doc='_interp_common(s1, s2, sampling, ...) on INTEGER wavelength grids: with minwave, maxwave (the common '
             'range) and dwave = _sampling(...) > 0 as integer arguments, the arguments (start, stop, num + 1) of the '
             'np.linspace call that builds the common grid, num = int(np.ceil((maxwave - minwave)/dwave))',
         fallback='(minwave, maxwave, ' + _CEILD.format(a='maxwave - minwave', d='dwave') + ' + 1)'),
]

# ---------------------------------------------------------------------- C01: lentil/fourier.py
FOU = 'lentil/fourier.py'
_DFT_PARAMS = {'f': ARR(2), 'alpha': OPAQUE_K, 'shape': NONE_K, 'shift': T(2), 'offset': T(2), 'unitary': OPAQUE_K,
               'out': NONE_K}
_DFT = dict(file=FOU, func='dft2', observe_calls={'MATS': '_dft2_matrices'},
            observe='(MATS_0[0], MATS_0[1], MATS_0[2], MATS_0[3], MATS_0[6], MATS_0[7], MATS_0[8], MATS_0[9])',
            rtype=TZn(8))
SPECS_C01 = [
    dict(name='dft2_coords', file=FOU, func='_dft2_coords', decorators=('functools.lru_cache(maxsize=32)',),
         params={'m': Z_K, 'n': Z_K, 'M': Z_K, 'N': Z_K}, rationals=True, index_var='k', rtype=TZn(4),
         doc='_dft2_coords(m, n, M, N): element k of the four coordinate vectors R, S, U, V it returns '
             '(np.arange(n) - np.floor(n/2.0)), for a generic index k - the origin convention of both planes',
         fallback='(k - m / 2, k - n / 2, k - M / 2, k - N / 2)'),
    dict(_DFT, name='dft2_args', params=_DFT_PARAMS,
         doc='dft2(f, alpha, shape=None, shift, offset) for a 2-d f and integer shift / offset pairs: the integer '
             'arguments (m, n, M, N, shift_row, shift_col, offset_row, offset_col) handed to _dft2_matrices',
         fallback="(fst f_shape, snd f_shape, fst f_shape, snd f_shape, fst shift, snd shift, fst offset, snd offset)"),
    dict(_DFT, name='dft2_args_shape', params=dict(_DFT_PARAMS, shape=T(2)),
         doc='the same with a 2-tuple shape argument',
         fallback="(fst f_shape, snd f_shape, fst shape, snd shape, fst shift, snd shift, fst offset, snd offset)"),
    dict(_DFT, name='dft2_args_scalars', params=dict(_DFT_PARAMS, shape=Z_K, shift=Z_K, offset=Z_K),
         doc='the same with scalar shape, shift and offset (np.broadcast_to(x, (2,)) duplicates them)',
         fallback="(fst f_shape, snd f_shape, shape, shape, shift, shift, offset, offset)"),
    dict(name='idft2_divisor', file=FOU, func='idft2',
         params={'F': ARR(2), 'alpha': OPAQUE_K, 'shape': OPAQUE_K, 'shift': OPAQUE_K, 'unitary': BOOL_K,
                 'out': OPAQUE_K},
         observe='F', returns=['none', 'callarg:1'], rtype=TOPT(TZ),
         doc='idft2(F, ...) for a 2-d F: None when unitary (returned undivided), else the divisor handed to np.divide '
             '(F.size of the INPUT, taken before F is rebound)',
         fallback='if unitary then None else Some (fst F_shape * snd F_shape)'),
]

# ---------------------------------------------------------------------- C12: lentil/zernike.py basis / compose bookkeeping
_ZB_PARAMS = {'mask': ARR(2), 'modes': ARR(1), 'vectorize': CONSTB(False), 'normalize': OPAQUE_K, 'rho': OPAQUE_K,
              'theta': OPAQUE_K}
_ZB = dict(file=ZRN, func='zernike_basis', new_arrays=True, observe='basis', returns=['callargs', 'expr:basis.shape'])
SPECS_C12 = [
    dict(_ZB, name='basis_shape', params=_ZB_PARAMS, rtype=TZn(3),
         doc='zernike_basis(mask, modes, vectorize=False) for a 1-d array of modes and a 2-d mask: the shape of the '
             'returned cube, np.zeros(modes.shape + mask.shape)',
         fallback="(modes_shape, fst mask_shape, snd mask_shape)"),
    dict(_ZB, name='basis_shape_scalar_mode', params=dict(_ZB_PARAMS, modes=ARR(0)), rtype=TZn(3),
         doc='the same for a scalar mode: modes[..., np.newaxis] makes it a one-element vector',
         fallback="(1, fst mask_shape, snd mask_shape)"),
    dict(_ZB, name='basis_vectorized', params=dict(_ZB_PARAMS, vectorize=CONSTB(True)), rtype=TZn(2),
         doc='zernike_basis(mask, modes, vectorize=True): the arguments of the returned basis.reshape(basis.shape[0], -1) '
             '(one row per mode; -1 = the flattened mask)',
         fallback="(modes_shape, -1)"),
    dict(name='compose_mode', file=ZRN, func='zernike_compose',
         params={'mask': ARR(2), 'coeffs': ARR(1), 'normalize': OPAQUE_K, 'rho': OPAQUE_K, 'theta': OPAQUE_K},
         new_arrays=True, index_var='k', loop_focus={'iter': 'np.ndenumerate(coeffs)', 'mode': 'body'},
         observe_calls={'ZERN': 'zernike'}, observe='ZERN_0[1]', rtype=TZ,
         doc='zernike_compose(mask, coeffs): in iteration k of the loop over np.ndenumerate(coeffs) (a 1-d array), the '
             'Noll index handed to zernike(): coefficient number k multiplies mode k + 1',
         fallback='k + 1'),
]

# ---------------------------------------------------------------------- C07: lentil/plane.py multiplication bookkeeping
_TQP = TT(TZn(2), TZn(2))
_MULSH = dict(file='lentil/plane.py', func='Plane.multiply',
              calls={'_can_mul_ptype(wavefront.ptype, self.ptype)': ('can_mul', BOOL_K)},
              loop_focus={'iter': 'data', 'mode': 'before'}, observe='shape', rtype=TRES(TZn(2)))
SPECS_C07 = [
    dict(name='mul_pixelscale', file='lentil/plane.py', func='_mul_pixelscale',
         params={'a_pixelscale': QPAIR_K, 'b_pixelscale': QPAIR_K}, rationals=True, rtype=TRES(_TQP),
         doc='_mul_pixelscale(a, b) for two (row, column) pixel scales given as exact rationals: equal per axis -> a, '
             'else ValueError (rational equality, cross-multiplied)',
         fallback="let '((an0, ad0), (an1, ad1)) := a_pixelscale in let '((bn0, bd0), (bn1, bd1)) := b_pixelscale in\n"
                  '  if (an0 * bd0 =? bn0 * ad0) && (an1 * bd1 =? bn1 * ad1) then Ok a_pixelscale else Err ValueError'),
    dict(name='mul_pixelscale_left_none', file='lentil/plane.py', func='_mul_pixelscale',
         params={'a_pixelscale': NONE_K, 'b_pixelscale': QPAIR_K}, rationals=True, rtype=_TQP,
         doc='_mul_pixelscale(None, b): b is inherited', fallback='b_pixelscale'),
    dict(name='mul_pixelscale_right_none', file='lentil/plane.py', func='_mul_pixelscale',
         params={'a_pixelscale': QPAIR_K, 'b_pixelscale': NONE_K}, rationals=True, rtype=_TQP,
         doc='_mul_pixelscale(a, None): a is inherited', fallback='a_pixelscale'),
    dict(_MULSH, name='multiply_shape', params={'self': OBJ(shape=T(2)), 'wavefront': OBJ(shape=T(2))},
         doc='Plane.multiply(wavefront) for a plane with a 2-d shape: TypeError when the plane types cannot be '
             'multiplied (can_mul = _can_mul_ptype(...)), else the shape of the result when the loop over the fields is '
             'reached: the plane\'s shape',
         fallback='if negb can_mul then Err TypeError else Ok self_shape'),
    dict(_MULSH, name='multiply_shape_scalar_plane', params={'self': OBJ(shape=T(0)), 'wavefront': OBJ(shape=T(2))},
         doc='the same for a plane whose shape is () (scalar mask): the wavefront\'s shape is kept',
         fallback='if negb can_mul then Err TypeError else Ok wavefront_shape'),
]

# ---------------------------------------------------------------------- C03: lentil/plane.py segment bookkeeping
PLN = 'lentil/plane.py'
SPECS_C03 = [
    dict(name='plane_slice_2d', file=PLN, func='_plane_slice', params={'mask': ARR(2)},
         inline=('lentil.helper.boundary_slice',), modules={'lentil.helper': 'lentil/helper.py'},
         arr_calls={'lentil.boundary': {'mask': ('bnd', T(4))}}, observe='s[0]', rtype=TT(TSL, TSL),
         doc='_plane_slice(mask) for a 2-d mask: the one slice pair it returns, helper.boundary_slice(mask) inlined '
             '(pad = (0, 0)), as a function of mask.shape and bnd = lentil.boundary(mask, 0)',
         fallback="let '(r0, r1, c0, c1) := bnd in ((Z.max (r0 - 0) 0, Z.min (r1 + 0 + 1) (fst mask_shape)), "
                  '(Z.max (c0 - 0) 0, Z.min (c1 + 0 + 1) (snd mask_shape)))'),
    dict(name='plane_slice_offset', file='lentil/helper.py', func='slice_offset',
         params={'slice': SLICEBOX_K, 'shape': T(2)}, rtype=TZn(2),
         doc='helper.slice_offset(slice, shape) for a pair of slices (the offset Plane.multiply gives each segment)',
         fallback="let '((r0, r1), (c0, c1)) := slice in (r0 + (r1 - r0) / 2 - fst shape / 2, "
                  'c0 + (c1 - c0) / 2 - snd shape / 2)'),
    dict(name='plane_shape_2d', file=PLN, func='Plane.shape', decorators=('property',),
         params={'self': OBJ(mask=ARR(2))}, rtype=TZn(2),
         doc='Plane.shape for a 2-d mask', fallback='self_mask_shape'),
    dict(name='plane_shape_3d', file=PLN, func='Plane.shape', decorators=('property',),
         params={'self': OBJ(mask=ARR(3))}, rtype=TZn(2),
         doc='Plane.shape for a 3-d mask (a cube of segment masks): the trailing two dimensions',
         fallback="let '(k, n, m) := self_mask_shape in (n, m)"),
    dict(name='plane_size_2d', file=PLN, func='Plane.size', decorators=('property',),
         params={'self': OBJ(mask=ARR(2))}, rtype=TZ, doc='Plane.size for a 2-d mask', fallback='1'),
    dict(name='plane_size_3d', file=PLN, func='Plane.size', decorators=('property',),
         params={'self': OBJ(mask=ARR(3))}, rtype=TZ,
         doc='Plane.size for a 3-d mask: the number of segment masks',
         fallback="let '(k, n, m) := self_mask_shape in k"),
]

# ---------------------------------------------------------------------- C19: the frequency axes of the blur kernels
CNV = 'lentil/convolvable.py'
_DETP = 'lentil/detector.py'
_FREQ = dict(observe_calls={'FREQ': 'np.fft.fftfreq'}, observe='(FREQ_x[0], FREQ_y[0])', rtype=TZn(2),
             fallback='(snd img_shape, fst img_shape)')
SPECS_C19 = [
    dict(_FREQ, name='pixel_freq_sizes', file=_DETP, func='pixel', params={'img': ARR(2), 'oversample': OPAQUE_K},
         doc='detector.pixel(img, oversample) for a 2-d img: the lengths handed to the two np.fft.fftfreq calls, in '
             'the order (x, y) of the names they are bound to (x: the COLUMN count, y: the ROW count)'),
    dict(_FREQ, name='jitter_freq_sizes', file=CNV, func='jitter',
         params={'img': ARR(2), 'scale': OPAQUE_K, 'pixelscale': OPAQUE_K, 'oversample': OPAQUE_K},
         doc='jitter(img, scale, pixelscale, oversample): the lengths handed to the two np.fft.fftfreq calls (x, y)'),
    dict(_FREQ, name='smear_freq_sizes', file=CNV, func='smear',
         params={'img': ARR(2), 'distance': OPAQUE_K, 'angle': OPAQUE_K, 'pixelscale': OPAQUE_K,
                 'oversample': OPAQUE_K},
         doc='smear(img, distance, angle, pixelscale, oversample): the lengths handed to the two np.fft.fftfreq calls'),
]

# ---------------------------------------------------------------------- C17: lentil/util.py rescale
_RSC_PARAMS = {'img': ARR(2), 'scale': Q_K, 'shape': NONE_K, 'mask': OPAQUE_K, 'order': OPAQUE_K, 'mode': OPAQUE_K,
               'unitary': OPAQUE_K}
_RSC = dict(file=UTL, func='rescale', rationals=True, observe='tuple(shape)', rtype=TZn(2))
_CEILQ = '(- ((- ({n} * fst scale)) / snd scale))'
SPECS_C17 = [
    dict(_RSC, name='rescale_shape', params=_RSC_PARAMS,
         doc='rescale(img, scale, shape=None, ...) for a 2-d img and a rational scale = num/den (den > 0): the output '
             'shape np.ceil((img.shape[0]*scale, img.shape[1]*scale)).astype(int) at its return',
         fallback='(' + _CEILQ.format(n='fst img_shape') + ', ' + _CEILQ.format(n='snd img_shape') + ')'),
    dict(_RSC, name='rescale_shape_given', params=dict(_RSC_PARAMS, shape=T(2)),
         doc='the same with a 2-tuple shape argument (the output shape is ceil(shape*scale))',
         fallback='(' + _CEILQ.format(n='fst shape') + ', ' + _CEILQ.format(n='snd shape') + ')'),
    dict(_RSC, name='rescale_shape_scalar', params=dict(_RSC_PARAMS, shape=Z_K),
         doc='the same with a scalar shape argument',
         fallback='(' + _CEILQ.format(n='shape') + ', ' + _CEILQ.format(n='shape') + ')'),
    dict(_RSC, name='rescale_coords', params=dict(_RSC_PARAMS, scale=Q_POS), index_var='k', observe='(x, y)',
         rtype=TT(TZn(2), TZn(2)),
         doc='rescale(img, scale) for a positive rational scale: element k of the interpolation coordinates x = '
             '(np.arange(shape[1]) - shape[1]/2.)/scale + img.shape[1]/2. and y (rows), as exact rationals '
             '(numerator, denominator), for a generic index k',
         fallback="let N1 := " + _CEILQ.format(n='snd img_shape') + " in let N0 := " + _CEILQ.format(n='fst img_shape')
                  + " in\n  (((k * 2 - N1) * snd scale * 2 + snd img_shape * (2 * fst scale), 2 * fst scale * 2), "
                    "((k * 2 - N0) * snd scale * 2 + fst img_shape * (2 * fst scale), 2 * fst scale * 2))"),
]

# ---------------------------------------------------------------------- C16: lentil/detector.py
DET = 'lentil/detector.py'
_ADC_PARAMS = {'img': OPAQUE_K, 'gain': ARR(0), 'saturation_capacity': OPAQUE_K, 'warn_saturate': OPAQUE_K,
               'dtype': OPAQUE_K}
SPECS_C16 = [
    dict(name='bayer_mosaic', file=DET, func='collect_charge_bayer',
         params={'img': ARR(3), 'wave': OPAQUE_K, 'qe_red': OPAQUE_K, 'qe_green': OPAQUE_K, 'qe_blue': OPAQUE_K,
                 'bayer_pattern': OPAQUE_K, 'oversample': Z_POS, 'waveunit': OPAQUE_K, 'flatten': OPAQUE_K},
         assume={'red_kernel': ('ARR', 2, 'pos'), 'green_kernel': ('ARR', 2, 'pos'), 'blue_kernel': ('ARR', 2, 'pos')},
         observe_calls={'TILE': 'np.tile'},
         observe='(nrow, ncol, TILE_red_mosaic[1], TILE_green_mosaic[1], TILE_blue_mosaic[1])',
         rtype=TT(TZ, TZ, TZn(2), TZn(2), TZn(2)),
         doc='collect_charge_bayer for a 3-d img and oversample > 0, with the shapes of the three colour kernels '
             '(np.where(bayer_pattern == ch, 1, 0)) as arguments: nrow, ncol and the repetition counts passed to the '
             'three np.tile calls',
         fallback="let '(d, R, C) := img_shape in let nrow := R / oversample in let ncol := C / oversample in\n"
                  '  (nrow, ncol, (nrow / fst red_kernel_shape, ncol / snd red_kernel_shape), '
                  '(nrow / fst green_kernel_shape, ncol / snd green_kernel_shape), '
                  '(nrow / fst blue_kernel_shape, ncol / snd blue_kernel_shape))'),
    dict(name='adc_order_0d', file=DET, func='adc', params=_ADC_PARAMS, observe='model_order', rtype=TZ,
         doc='adc(img, gain, ...) for a 0-d gain: model_order at its return', fallback='1'),
    dict(name='adc_order_1d', file=DET, func='adc', params=dict(_ADC_PARAMS, gain=ARR(1)), observe='model_order',
         rtype=TZ, doc='adc for a 1-d gain (polynomial coefficients): model_order', fallback='gain_shape'),
    dict(name='adc_order_2d', file=DET, func='adc', params=dict(_ADC_PARAMS, gain=ARR(2)), observe='model_order',
         rtype=TZ, doc='adc for a 2-d gain (per pixel): model_order', fallback='1'),
    dict(name='adc_order_3d', file=DET, func='adc', params=dict(_ADC_PARAMS, gain=ARR(3)), observe='model_order',
         rtype=TZ, doc='adc for a 3-d gain (per-pixel polynomial): model_order',
         fallback="let '(k, r, c) := gain_shape in k"),
]

# ---------------------------------------------------------------------- C09: lentil/propagate.py propagate_fft
_FFT_PARAMS = {'wavefront': OPAQUE_K, 'pixelscale': OPAQUE_K, 'shape': T(2), 'oversample': Z_POS, 'scratch': NONE_K}
_FFT_COMMON = dict(file=PRP, func='propagate_fft', calls={'_has_tilt(wavefront)': ('has_tilt', BOOL_K)},
                   assume={'fft_shape': VEC(2)}, rationals=True, observe='(shape_out, shape)')
_FB_FFT = ('if has_tilt then Err NotImplementedErr else if (fst fft_shape <? fst shape * oversample) || '
           '(snd fft_shape <? snd shape * oversample) then Err ValueError else {scr}'
           'Ok ((fst shape * oversample, snd shape * oversample), shape)')
SPECS_C09 = [
    dict(_FFT_COMMON, name='fft_out_shape', params=_FFT_PARAMS, rtype=TRES(TT(TZn(2), TZn(2))),
         doc='propagate_fft(wavefront, pixelscale, shape, oversample, scratch=None) for a 2-tuple shape and oversample > 0, '
             'with fft_shape (the integer grid _fft_shape returned) and has_tilt = _has_tilt(wavefront) as arguments: the '
             'errors it raises and (shape_out, shape) at its return.  shape > fft_shape/oversample is translated exactly '
             '(shape*oversample > fft_shape)',
         fallback=_FB_FFT.format(scr='')),
    dict(_FFT_COMMON, name='fft_out_shape_default', params=dict(_FFT_PARAMS, shape=NONE_K),
         rtype=TRES(TT(TZn(2), TZn(2))), doc='the same with shape=None',
         fallback='if has_tilt then Err NotImplementedErr else Ok (fft_shape, (fst fft_shape / oversample, '
                  'snd fft_shape / oversample))'),
    dict(_FFT_COMMON, name='fft_out_shape_scratch', params=dict(_FFT_PARAMS, scratch=ARR(2)),
         rtype=TRES(TT(TZn(2), TZn(2))), doc='the same with a 2-d scratch array: also the scratch-size check',
         fallback=_FB_FFT.format(scr='if negb ((fst fft_shape <=? fst scratch_shape) && '
                                     '(snd fft_shape <=? snd scratch_shape)) then Err ValueError else ')),
    # /repo 1b12b57: the transformed grid is cropped (lentil.pad) to the output shape before the Field is stored
    dict(_FFT_COMMON, name='fft_crop_shape', params=_FFT_PARAMS, rtype=TRES(TZn(2)),
         observe_calls={'PAD': 'lentil.pad'}, observe='tuple(PAD_field[1])',
         doc='propagate_fft for a 2-tuple shape, scratch=None: the shape handed to the last lentil.pad(field, .) before '
             'the Field is stored - the transformed grid is cropped to shape_out, the shape of the returned Wavefront '
             'times oversample',
         fallback=_FB_FFT.format(scr='').replace('Ok ((fst shape * oversample, snd shape * oversample), shape)',
                                                 'Ok (fst shape * oversample, snd shape * oversample)')),
    dict(_FFT_COMMON, name='fft_crop_shape_default', params=dict(_FFT_PARAMS, shape=NONE_K), rtype=TRES(TZn(2)),
         observe_calls={'PAD': 'lentil.pad'}, observe='tuple(PAD_field[1])',
         doc='the same with shape=None: the crop is to the whole grid (no crop)',
         fallback='if has_tilt then Err NotImplementedErr else Ok fft_shape'),
    dict(_FFT_COMMON, name='fft_crop_shape_scratch', params=dict(_FFT_PARAMS, scratch=ARR(2)), rtype=TRES(TZn(2)),
         observe_calls={'PAD': 'lentil.pad'}, observe='tuple(PAD_field[1])',
         doc='the same with a 2-d scratch array (the scratch path has no other lentil.pad call)',
         fallback=_FB_FFT.format(scr='if negb ((fst fft_shape <=? fst scratch_shape) && '
                                     '(snd fft_shape <=? snd scratch_shape)) then Err ValueError else ')
         .replace('Ok ((fst shape * oversample, snd shape * oversample), shape)',
                  'Ok (fst shape * oversample, snd shape * oversample)')),
]

# ---------------------------------------------------------------------- C18: lentil/wfe.py, lentil/detector.py
WFE = 'lentil/wfe.py'
_OPQ = OPAQUE_K
SPECS_C18 = [
    dict(name='ps_freq', file=WFE, func='power_spectrum',
         params={'mask': ('ARR', 2, 'pos'), 'pixelscale': _OPQ, 'rms': _OPQ, 'half_power_freq': _OPQ, 'exp': _OPQ,
                 'seed': _OPQ},
         rationals=True, mesh_vars=('i', 'j'), observe_calls={'SQRT': 'np.sqrt'},
         observe='(yy, xx, SQRT_1[0], SQRT_3[0])', rtype=TT(TZn(2), TZn(2), TZ, TZ),
         doc='power_spectrum(mask, ...) for a 2-d mask: element (i, j) of the frequency grids yy, xx (cycles/px) - '
             'np.mgrid[0:n, 0:m], (yy - (np.floor(n/2) + 1))/n - as exact rationals (numerator, denominator) for generic '
             'indices i, j, and the integers under the two scalar square roots: m**2 + n**2 (the half-power scale) and '
             'm*n (the ifft2 normalisation)',
         fallback="let '(n, m) := mask_shape in ((i - (n / 2 + 1), n), (j - (m / 2 + 1), m), m * m + n * n, m * n)"),
    dict(name='cosmic_extent', file=DET, func='_cosmic_ray',
         params={'shape': T(2), 'pixelscale': _OPQ, 'alpha_flux': _OPQ, 'proton_flux': _OPQ},
         loop_focus={'iter': 'np.arange(0, ray.shape[0]-1)', 'mode': 'before'},
         observe_calls={'RAY': '_propagate_ray', 'ZEROS': 'np.zeros'}, observe='(RAY_ray[2], ZEROS_img[0])',
         rtype=TT(TZn(6), TZn(2)),
         doc='_cosmic_ray(shape, ...): the integer box handed to _propagate_ray(position, direction, extent) - '
             '(0, rows-1, 0, cols-1, 0, -1): one pixel deep - and the shape of the frame it deposits into',
         fallback="let '(n, m) := shape in ((0, n - 1, 0, m - 1, 0, -1), (n, m))"),
    dict(name='cosmic_shape', file=DET, func='cosmic_rays',
         params={'shape': T(2), 'pixelscale': _OPQ, 'ts': _OPQ, 'rate': _OPQ, 'proton_flux': _OPQ, 'alpha_flux': _OPQ},
         loop_focus={'iter': 'np.arange(0, nrays)', 'mode': 'body'},
         observe_calls={'NR': '_nrays', 'ZEROS': 'np.zeros', 'CR': '_cosmic_ray'},
         observe='(NR_nrays[0], ZEROS_img[0], CR_0[0])', rtype=TT(TZn(2), TZn(2), TZn(2)),
         doc='cosmic_rays(shape, ...): the shape handed to _nrays, to np.zeros (the accumulated frame) and to every '
             '_cosmic_ray call of the loop is the shape argument, unchanged',
         fallback='(shape, shape, shape)'),
]

# one table per property: the whitelist, the generated file, what it imports, the Coq files of the layer
SUITES = {
    'C11': {'specs': SPECS_C11, 'gen': 'theories/Gen/ZernikeSrc.v', 'imports': 'Model.Zernike',
            'proofs': 'theories/Proofs/ZernikeSrcP.v', 'target': 'theories/Properties/C11Src.vo', 'props': 'C11Src'},
    'C15': {'specs': SPECS_C15, 'gen': 'theories/Gen/SpectrumSrc.v', 'imports': 'Lib.Base',
            'proofs': 'theories/Proofs/SpectrumSrcP.v', 'target': 'theories/Properties/C15Src.vo', 'props': 'C15Src'},
    'C13': {'specs': SPECS_C13, 'gen': 'theories/Gen/SpectrumOpSrc.v', 'imports': 'Lib.Base',
            'proofs': 'theories/Proofs/SpectrumOpSrcP.v', 'target': 'theories/Properties/C13Src.vo', 'props': 'C13Src'},
    'C01': {'specs': SPECS_C01, 'gen': 'theories/Gen/FourierSrc.v', 'imports': 'Lib.Base',
            'proofs': 'theories/Proofs/FourierSrcP.v', 'target': 'theories/Properties/C01Src.vo', 'props': 'C01Src'},
    'C18': {'specs': SPECS_C18, 'gen': 'theories/Gen/NoiseSrc.v', 'imports': 'Lib.Base',
            'proofs': 'theories/Proofs/NoiseSrcP.v', 'target': 'theories/Properties/C18Src.vo', 'props': 'C18Src'},
    'C12': {'specs': SPECS_C12, 'gen': 'theories/Gen/ZernikeFitSrc.v', 'imports': 'Lib.Base',
            'proofs': 'theories/Proofs/ZernikeFitSrcP.v', 'target': 'theories/Properties/C12Src.vo', 'props': 'C12Src'},
    'C07': {'specs': SPECS_C07, 'gen': 'theories/Gen/PlaneMulSrc.v', 'imports': 'Lib.Base',
            'proofs': 'theories/Proofs/PlaneMulSrcP.v', 'target': 'theories/Properties/C07Src.vo', 'props': 'C07Src'},
    'C03': {'specs': SPECS_C03, 'gen': 'theories/Gen/SegmentSrc.v', 'imports': 'Lib.Base',
            'proofs': 'theories/Proofs/SegmentSrcP.v', 'target': 'theories/Properties/C03Src.vo', 'props': 'C03Src'},
    'C19': {'specs': SPECS_C19, 'gen': 'theories/Gen/BlurSrc.v', 'imports': 'Lib.Base',
            'proofs': 'theories/Proofs/BlurSrcP.v', 'target': 'theories/Properties/C19Src.vo', 'props': 'C19Src'},
    'C17': {'specs': SPECS_C17, 'gen': 'theories/Gen/RescaleSrc.v', 'imports': 'Lib.Base',
            'proofs': 'theories/Proofs/RescaleSrcP.v', 'target': 'theories/Properties/C17Src.vo', 'props': 'C17Src'},
    'C20': {'specs': SPECS_C20, 'gen': 'theories/Gen/GeometrySrc.v', 'imports': 'Model.Geometry Model.Shapes',
            'proofs': 'theories/Proofs/GeometrySrcP.v', 'target': 'theories/Properties/C20Src.vo', 'props': 'C20Src'},
    'C16': {'specs': SPECS_C16, 'gen': 'theories/Gen/DetectorSrc.v', 'imports': 'Lib.Base',
            'proofs': 'theories/Proofs/DetectorSrcP.v', 'target': 'theories/Properties/C16Src.vo', 'props': 'C16Src'},
    'C09': {'specs': SPECS_C09, 'gen': 'theories/Gen/FftSrc.v', 'imports': 'Lib.Base',
            'proofs': 'theories/Proofs/FftSrcP.v', 'target': 'theories/Properties/C09Src.vo', 'props': 'C09Src'},
    'C02': {'specs': SPECS_C02, 'gen': 'theories/Gen/PropagateSrc.v', 'imports': 'Model.Extent Model.Propagate',
            'proofs': 'theories/Proofs/PropagateSrcP.v', 'target': 'theories/Properties/C02Src.vo', 'props': 'C02Src'},
    'C06': {'specs': SPECS, 'gen': 'theories/Gen/ExtentSrc.v', 'imports': 'Model.Extent Model.Field Model.Geometry',
            'proofs': 'theories/Proofs/ExtentSrcP.v', 'target': 'theories/Properties/C06Src.vo', 'props': 'C06Src'},
}


# ====================================================================== python mirrors of the MODEL
# (hand-written from Model/Extent.v, Model/Field.v, Model/Geometry.v; same argument and value conventions as the
#  compiled translated terms: tuples, a slice is (start, stop), option = None | value, result = ('ok', v) | ('err', kind))
def _m_array_extent(sr, sc, shr, shc):
    rmin = -(sr // 2) + shr
    cmin = -(sc // 2) + shc
    return (rmin, rmin + sr - 1, cmin, cmin + sc - 1)


def _m_center(e):
    rmin, rmax, cmin, cmax = e
    return (rmin + (rmax - rmin + 1) // 2, cmin + (cmax - cmin + 1) // 2)


def _m_iext(a, b):
    return (max(a[0], b[0]), min(a[1], b[1]), max(a[2], b[2]), min(a[3], b[3]))


def _m_ishape(a, b):
    r0, r1, c0, c1 = _m_iext(a, b)
    n, m = r1 - r0 + 1, c1 - c0 + 1
    return None if (n <= 0 or m <= 0) else (n, m)


def _m_islices(a, b):
    r0, r1, c0, c1 = _m_iext(a, b)
    return (((r0 - a[0], r1 - a[0] + 1), (c0 - a[2], c1 - a[2] + 1)),
            ((r0 - b[0], r1 - b[0] + 1), (c0 - b[2], c1 - b[2] + 1)))


_MAXSIZE = 9223372036854775807


def _m_bstep(acc, e):
    return (e[0] if e[0] < acc[0] else acc[0], e[1] if e[1] > acc[1] else acc[1],
            e[2] if e[2] < acc[2] else acc[2], e[3] if e[3] > acc[3] else acc[3])


def _m_reconcile(R, h, ul):
    f_lo, f_hi, o_lo, o_hi = 0, h, ul, ul + h
    if o_lo < 0:
        f_lo, o_lo = -o_lo, 0
    if o_hi > R:
        f_hi, o_hi = f_hi - (o_hi - R), R
    return o_lo, o_hi, f_lo, f_hi


def _m_insert_clip(fshape, foffset, oshape):
    cr = _m_reconcile(oshape[0], fshape[0], oshape[0] // 2 - fshape[0] // 2 + foffset[0])
    cc = _m_reconcile(oshape[1], fshape[1], oshape[1] // 2 - fshape[1] // 2 + foffset[1])
    if not (cr[0] < cr[1]) or not (cc[0] < cc[1]):
        return None
    return (((cr[0], cr[1]), (cc[0], cc[1])), ((cr[2], cr[3]), (cc[2], cc[3])))


def _m_pad_axis(n, N):
    if N - n <= 0:
        return (n // 2 - N // 2, n // 2 - N // 2 + N, 0, N)
    return (0, n, N // 2 - n // 2, N // 2 - n // 2 + n)


def _m_subarray(ash, shape, shift):
    rmin = ash[0] // 2 - shape[0] // 2 + shift[0]
    cmin = ash[1] // 2 - shape[1] // 2 + shift[1]
    if rmin < 0 or cmin < 0 or rmin + shape[0] > ash[0] or cmin + shape[1] > ash[1]:
        return ('err', 'ValueError')
    return ('ok', (rmin, rmin + shape[0], cmin, cmin + shape[1]))


MIRROR = {
    'array_extent': lambda shape, shift: _m_array_extent(shape[0], shape[1], shift[0], shift[1]),
    'array_extent_0d': lambda shift: _m_array_extent(1, 1, shift[0], shift[1]),
    'array_extent_parent': lambda shape, shift, par: (lambda e: (e[0] + par[0] // 2, e[1] + par[0] // 2,
                                                                 e[2] + par[1] // 2, e[3] + par[1] // 2))(
        _m_array_extent(shape[0], shape[1], shift[0], shift[1])),
    'array_center': _m_center,
    'intersect': lambda a, b: a[0] <= b[1] and a[1] >= b[0] and a[2] <= b[3] and a[3] >= b[2],
    'intersection_extent': _m_iext,
    'intersection_shape': _m_ishape,
    'intersection_slices': _m_islices,
    'intersection_shift': lambda a, b: _m_center(_m_iext(a, b)),
    'field_boundary': lambda es: functools.reduce(_m_bstep, es, (_MAXSIZE, -_MAXSIZE, _MAXSIZE, -_MAXSIZE)),
    'merge_offset': _m_center,
    'merge_shape': lambda b, s: None if s else (b[1] - b[0] + 1, b[3] - b[2] + 1),
    'insert_clip': _m_insert_clip,
    'slice_offset': lambda sl, shape: (sl[0][0] + (sl[0][1] - sl[0][0]) // 2 - shape[0] // 2,
                                       sl[1][0] + (sl[1][1] - sl[1][0]) // 2 - shape[1] // 2),
    'boundary_slice': lambda xs, pad, b: ((max(b[0] - pad[0], 0), min(b[1] + pad[0] + 1, xs[0])),
                                          (max(b[2] - pad[1], 0), min(b[3] + pad[1] + 1, xs[1]))),
    'pad_bounds': lambda ash, shape: _m_pad_axis(ash[0], shape[0]) + _m_pad_axis(ash[1], shape[1]),
    'pad_bounds_3d': lambda ash, shape: _m_pad_axis(ash[1], shape[0]) + _m_pad_axis(ash[2], shape[1]),
    'subarray_bounds': _m_subarray,
}


# ====================================================================== drivers: the RUNNING code on the same arguments
SKIP = ('skip',)      # the instance cannot be exercised through the running code for these arguments


def _ints(t):
    return tuple(int(x) for x in t)


def _sl(s):
    return (int(s.start), int(s.stop))


def _trace_locals(fn, codename, filename_end, *args, **kw):
    """run fn(*args); -> (locals of the frame of `codename` at its return | None, result | exception)"""
    box = {}

    def tracer(frame, event, arg):
        co = frame.f_code
        if event == 'call':
            if co.co_name == codename and co.co_filename.endswith(filename_end) and 'frame' not in box:
                box['frame'] = frame
                return local
            return None
        return None

    def local(frame, event, arg):
        if event == 'return' and frame is box.get('frame'):
            box['locals'] = dict(frame.f_locals)
        return local

    old = sys.gettrace()
    sys.settrace(tracer)
    try:
        try:
            r = fn(*args, **kw)
        except Exception as e:      # noqa: BLE001 - reported to the caller
            r = e
    finally:
        sys.settrace(old)
    return box.get('locals'), r


def _stub(**kw):
    import types
    return types.SimpleNamespace(**kw)


def _drv_insert_clip(L, fshape, foffset, oshape):
    import numpy as np
    if min(fshape) < 1 or min(oshape) < 1 or max(fshape) > 64 or max(oshape) > 64:
        return SKIP
    f = L.field.Field(np.ones(fshape), offset=list(foffset))
    loc, r = _trace_locals(L.field.insert, 'insert', 'lentil/field.py', f, np.zeros(oshape, dtype=complex))
    if loc is None:
        return SKIP
    if 'out_slice' not in loc:
        return SKIP if isinstance(r, Exception) else None
    if loc['out_slice'] is Ellipsis:
        return SKIP                      # the first branch of insert: the translated block did not run
    o, fs = loc['out_slice'], loc['field_slice']
    return ((_sl(o[0]), _sl(o[1])), (_sl(fs[0]), _sl(fs[1])))


def _drv_boundary_slice(L, xs, pad, b):
    import numpy as np
    n, m = xs
    if not (0 <= b[0] <= b[1] < n <= 64 and 0 <= b[2] <= b[3] < m <= 64):
        return SKIP
    x = np.zeros((n, m))
    x[b[0], b[2]] = 1
    x[b[1], b[3]] = 1
    r = L.helper.boundary_slice(x, 0, tuple(pad))
    return (_sl(r[0]), _sl(r[1]))


def _drv_pad(L, ash, shape):
    import numpy as np
    if min(ash) < 0 or min(shape) < 0 or max(ash) > 64 or max(shape) > 64:
        return SKIP
    loc, r = _trace_locals(L.util.pad, 'pad', 'lentil/util.py', np.zeros(ash), tuple(shape))
    if isinstance(r, Exception) or loc is None:
        return SKIP
    return tuple(int(loc[k]) for k in ('rmin0', 'rmax0', 'rmin1', 'rmax1', 'cmin0', 'cmax0', 'cmin1', 'cmax1'))


def _drv_subarray(L, ash, shape, shift):
    import numpy as np
    if min(ash) < 0 or max(ash) > 64:
        return SKIP
    loc, r = _trace_locals(L.util.subarray, 'subarray', 'lentil/util.py', np.zeros(ash), tuple(shape), tuple(shift))
    if isinstance(r, ValueError):
        return ('err', 'ValueError')
    if isinstance(r, Exception) or loc is None:
        return SKIP
    return ('ok', tuple(int(loc[k]) for k in ('rmin', 'rmax', 'cmin', 'cmax')))


def _drv_merge_shape(L, b, scalars):
    if scalars and tuple(b) != (0, 0, 0, 0):
        return SKIP                      # _merge_scalars is true only for 0-d fields at the origin
    r = L.field._merge_shape([_stub(shape=() if scalars else (1, 1), extent=tuple(b))])
    return None if len(r) == 0 else _ints(r)


def _drv_islices(L, a, b):
    (ar, ac), (br, bc) = L.extent.intersection_slices(a, b)
    return ((_sl(ar), _sl(ac)), (_sl(br), _sl(bc)))


def _drv_ishape(L, a, b):
    r = L.extent.intersection_shape(a, b)
    return None if len(r) == 0 else _ints(r)


DRIVER = {
    'array_extent': lambda L, shape, shift: _ints(L.extent.array_extent(tuple(shape), tuple(shift))),
    'array_extent_0d': lambda L, shift: _ints(L.extent.array_extent((), tuple(shift))),
    'array_extent_parent': lambda L, shape, shift, par: _ints(L.extent.array_extent(tuple(shape), tuple(shift),
                                                                                    tuple(par))),
    'array_center': lambda L, e: _ints(L.extent.array_center(tuple(e))),
    'intersect': lambda L, a, b: bool(L.extent.intersect(tuple(a), tuple(b))),
    'intersection_extent': lambda L, a, b: _ints(L.extent.intersection_extent(tuple(a), tuple(b))),
    'intersection_shape': _drv_ishape,
    'intersection_slices': _drv_islices,
    'intersection_shift': lambda L, a, b: _ints(L.extent.intersection_shift(tuple(a), tuple(b))),
    'field_boundary': lambda L, es: _ints(L.field.boundary([_stub(extent=tuple(e)) for e in es])),
    'merge_offset': lambda L, b: _ints(L.field._merge_offset([_stub(extent=tuple(b))])),
    'merge_shape': _drv_merge_shape,
    'insert_clip': _drv_insert_clip,
    'slice_offset': lambda L, sl, shape: _ints(L.helper.slice_offset((slice(*sl[0]), slice(*sl[1])), tuple(shape))),
    'boundary_slice': _drv_boundary_slice,
    'pad_bounds': _drv_pad,
    'pad_bounds_3d': _drv_pad,
    'subarray_bounds': _drv_subarray,
}


# ====================================================================== argument spaces, self-check, witness search
def _leaves(ty):
    """number of integer/boolean leaves of an input type, and a builder from a flat list"""
    k = ty[0]
    if k in ('Z', 'B'):
        return [k], (lambda xs: xs[0])
    if k == 'tuple':
        parts = [_leaves(t) for t in ty[1]]
        kinds = [x for p in parts for x in p[0]]

        def build(xs, parts=parts):
            out, i = [], 0
            for ks, b in parts:
                out.append(b(xs[i:i + len(ks)]))
                i += len(ks)
            return tuple(out)
        return kinds, build
    raise ValueError(ty)


_ORDER = [0, 1, -1, 2, -2, 3, -3, 4, -4, 5, -5, 6, -6]


def _valid_pref(name, args):
    """arguments on which the running code can be exercised meaningfully (tried first, so that a witness is
    replayable through the public API whenever one exists)"""
    def ext_ok(e):
        return e[0] <= e[1] and e[2] <= e[3]
    if name in PREF:
        return PREF[name](*args)
    if name in ('array_center', 'merge_offset'):
        return ext_ok(args[0])
    if name in ('intersect', 'intersection_extent', 'intersection_shape', 'intersection_slices',
                'intersection_shift'):
        return ext_ok(args[0]) and ext_ok(args[1])
    if name in ('array_extent', 'array_extent_parent'):
        return min(args[0]) >= 1 and (len(args) < 3 or min(args[2]) >= 1)
    if name == 'merge_shape':
        return ext_ok(args[0]) and (not args[1] or tuple(args[0]) == (0, 0, 0, 0))
    if name == 'insert_clip':
        return min(args[0]) >= 1 and min(args[2]) >= 1 and not (tuple(args[0]) == tuple(args[2])
                                                               and tuple(args[1]) == (0, 0))
    if name == 'slice_offset':
        return 0 <= args[0][0][0] < args[0][0][1] <= args[1][0] and 0 <= args[0][1][0] < args[0][1][1] <= args[1][1]
    if name == 'boundary_slice':
        b, xs = args[2], args[0]
        return 0 <= b[0] <= b[1] < xs[0] and 0 <= b[2] <= b[3] < xs[1] and min(args[1]) >= 0
    if name in ('pad_bounds', 'pad_bounds_3d'):
        return min(args[0]) >= 1 and min(args[1]) >= 1
    if name == 'subarray_bounds':
        return min(args[0]) >= 1 and min(args[1]) >= 0
    return True


def arg_space(info, rng, exhaustive_budget=120000, n_random=4000, wide=40):
    """argument tuples for one translated function: an exhaustive box [-r, r]^k with the largest r <= 6 that fits
    the budget (small magnitudes first), then random points of [-6, 6]^k and of [-wide, wide]^k"""
    import itertools
    inputs = info['inputs']
    if any(i['type'][0] == 'list' for i in inputs):           # field_boundary: lists of extents
        def gen():
            vals = _ORDER[:7]
            yield ([],)
            for e in itertools.product(vals[:5], repeat=4):
                yield ([e],)
            for _ in range(n_random * 3):
                k = rng.randint(0, 4)
                R = rng.choice([3, 6, wide])
                yield ([tuple(rng.randint(-R, R) for _ in range(4)) for _ in range(k)],)
        return gen(), 'all single-extent lists over [-2, 2]^4 and random lists of 0..4 extents'
    parts = [_leaves(i['type']) for i in inputs]
    kinds = [x for p in parts for x in p[0]]
    nz = sum(1 for k in kinds if k == 'Z')
    nb = len(kinds) - nz
    r = 6
    while r > 1 and (2 * r + 1) ** nz * 2 ** nb > exhaustive_budget:
        r -= 1
    vals = [v for v in _ORDER if abs(v) <= r]

    def build(flat):
        out, i = [], 0
        for ks, b in parts:
            out.append(b(flat[i:i + len(ks)]))
            i += len(ks)
        return tuple(out)

    def gen():
        box = itertools.product(*[(vals if k == 'Z' else [False, True]) for k in kinds])
        for flat in itertools.islice(box, 3 * exhaustive_budget):      # (more than ~10 integer arguments: a prefix)
            yield build(list(flat))
        for R in (6, wide):
            for _ in range(n_random):
                yield build([rng.randint(-R, R) if k == 'Z' else rng.random() < 0.5 for k in kinds])
    return gen(), f'exhaustive [-{r}, {r}]^{nz} then {n_random} random points of [-6, 6]^{nz} and of [-{wide}, {wide}]^{nz}'


def find_witness(name, info, pyfunc, rng, exhaustive_budget=120000, n_random=4000):
    """an argument tuple on which the translated term and the model mirror differ (preferring arguments that
    can be replayed through the running code), or None; also returns the description of the searched space"""
    mirror = MIRROR[name]
    gen, desc = arg_space(info, rng, exhaustive_budget, n_random)
    fallback = None
    import itertools
    # first the arguments the self-check uses (they can be replayed through the running code), then the box
    pre = (_sample_valid(name, info['inputs'], rng) for _ in range(3000))
    n = 0
    for args in itertools.chain(pre, gen):
        try:
            a, b = pyfunc(*args), mirror(*args)
        except Exception:      # noqa: BLE001
            continue
        n += 1
        if name in CANON:
            try:
                a, b = CANON[name](a), CANON[name](b)
            except Exception:      # noqa: BLE001   (e.g. a zero denominator outside the declared domain)
                continue
        if a != b:
            w = {'args': args, 'source': a, 'model': b}
            visible = True                 # does the difference show in what the running code exposes?
            if name in PROJECT or name in PROJECT2:
                try:
                    pa_, pb_ = a, b
                    if name in PROJECT:
                        pa_, pb_ = PROJECT[name](pa_), PROJECT[name](pb_)
                    if name in PROJECT2:
                        pa_, pb_ = PROJECT2[name](pa_, args), PROJECT2[name](pb_, args)
                    visible = pa_ != pb_
                except Exception:      # noqa: BLE001
                    visible = False
            if visible and _valid_pref(name, args):
                return w, desc
            if fallback is None or (visible and not fallback.get('_visible')):
                fallback = dict(w, _visible=visible)
    if fallback is not None:
        fallback.pop('_visible', None)
    return fallback, f'{n} points: 3000 sampled like the self-check, then {desc}'


def selfcheck(name, info, pyfunc, lentil, rng, n=160):
    """translated term vs the RUNNING function on sampled arguments: -> (compared, first mismatch | None)"""
    drv = DRIVER[name]
    inputs = info['inputs']
    compared = 0
    tries = 0
    while compared < n and tries < 12 * n:
        tries += 1
        args = _sample_valid(name, inputs, rng)
        try:
            got = drv(lentil, *args)
        except Exception as e:      # noqa: BLE001
            got = ('exception', type(e).__name__)
        if got is SKIP:
            continue
        compared += 1
        want = pyfunc(*args)
        if name in PROJECT:            # the running code exposes only part of the translated value
            want = PROJECT[name](want)
        if name in PROJECT2:           # ... or its effect on the arguments
            want = PROJECT2[name](want, args)
        if name in CANON:
            want = CANON[name](want)
        if got != want:
            return compared, {'args': args, 'running_code': got, 'translated': want}
    return compared, None


def _sample_valid(name, inputs, rng):
    """a random argument tuple, biased to the region where the running code can be exercised"""
    def ext():
        r0, c0 = rng.randint(-6, 6), rng.randint(-6, 6)
        if rng.random() < 0.15:
            return (r0, r0 + rng.randint(-3, 0), c0, c0 + rng.randint(-3, 4))
        return (r0, r0 + rng.randint(0, 5), c0, c0 + rng.randint(0, 5))

    def shp(lo=1, hi=7):
        return (rng.randint(lo, hi), rng.randint(lo, hi))

    def off(R=8):
        return (rng.randint(-R, R), rng.randint(-R, R))
    if name in SAMPLER:
        return SAMPLER[name](rng)
    if name in ('array_extent', 'array_extent_parent'):
        a = (shp(-2, 7), off())
        return a + ((shp(-2, 9),) if name.endswith('parent') else ())
    if name == 'array_extent_0d':
        return (off(),)
    if name in ('array_center', 'merge_offset'):
        return (ext(),)
    if name == 'merge_shape':
        s = rng.random() < 0.2
        return ((0, 0, 0, 0) if s else ext(), s)
    if name == 'field_boundary':
        return ([ext() for _ in range(rng.randint(0, 4))],)
    if name == 'insert_clip':
        return (shp(1, 6), off(9), shp(1, 7))
    if name == 'slice_offset':
        n, m = shp(1, 9)
        r0, c0 = rng.randint(-2, n), rng.randint(-2, m)
        return (((r0, r0 + rng.randint(-1, 6)), (c0, c0 + rng.randint(-1, 6))), (n, m))
    if name == 'boundary_slice':
        n, m = shp(1, 8)
        r0, c0 = rng.randint(0, n - 1), rng.randint(0, m - 1)
        return ((n, m), (rng.randint(0, 3), rng.randint(0, 3)),
                (r0, rng.randint(r0, n - 1), c0, rng.randint(c0, m - 1)))
    if name == 'pad_bounds':
        return (shp(0, 7), shp(0, 8))
    if name == 'pad_bounds_3d':
        return ((rng.randint(0, 3),) + shp(0, 7), shp(0, 8))
    if name == 'subarray_bounds':
        return (shp(0, 7), shp(0, 6), off(3))
    return (ext(), ext())


# ====================================================================== C02: mirrors, drivers, samplers
PREF, SAMPLER = {}, {}


def _m_mask_shift(xs, b):
    return (b[0] + (b[1] - b[0] + 1) // 2 - xs[0] // 2, b[2] + (b[3] - b[2] + 1) // 2 - xs[1] // 2)


def _m_dft_shapes(shape, pshape, os):
    return ((shape[0] * os, shape[1] * os), (pshape[0] * os, pshape[1] * os),
            _m_array_extent(shape[0] * os, shape[1] * os, 0, 0))


def _m_dft_shapes_mask(shape, pshape, os, ms, b):
    if ms[0] != shape[0] * os and ms[1] != shape[1] * os:
        return ('err', 'ValueError')
    sh, sf = (b[1] - b[0] + 1, b[3] - b[2] + 1), _m_mask_shift(ms, b)
    return ('ok', ((shape[0] * os, shape[1] * os), (pshape[0] * os, pshape[1] * os),
                   _m_array_extent(sh[0], sh[1], sf[0], sf[1])))


def _m_window(oe, pso, fx):
    pe = _m_array_extent(pso[0], pso[1], fx[0], fx[1])
    if not (oe[0] <= pe[1] and oe[1] >= pe[0] and oe[2] <= pe[3] and oe[3] >= pe[2]):
        return None
    ishape = _m_ishape(oe, pe)
    ishift = _m_center(_m_iext(oe, pe))
    i1 = ishape if ishape is not None else (1, 1)
    ie = _m_array_extent(i1[0], i1[1], ishift[0], ishift[1])
    pc, ic = _m_center(pe), _m_center(ie)
    return (ishape, ishift, (pc[0] - ic[0], pc[1] - ic[1]))


MIRROR.update({
    'mask_shape': lambda xs, b: (b[1] - b[0] + 1, b[3] - b[2] + 1),
    'mask_shift': _m_mask_shift,
    'dft_shapes': lambda ws, shape, pshape, os: _m_dft_shapes(shape, pshape, os),
    'dft_shapes_default': lambda ws, os: _m_dft_shapes(ws, ws, os),
    'dft_shapes_mask': lambda ws, shape, pshape, os, ms, b: _m_dft_shapes_mask(shape, pshape, os, ms, b),
    'dft_field_window': lambda ws, os, fx, oe, pso: _m_window(oe, pso, fx),
})


def _mask_array(xs, b):
    import numpy as np
    n, m = xs
    if not (0 <= b[0] <= b[1] < n <= 48 and 0 <= b[2] <= b[3] < m <= 48):
        return None
    x = np.zeros((n, m), dtype=int)
    x[b[0], b[2]] = 1
    x[b[1], b[3]] = 1
    return x


def _drv_maskfn(fn):
    def drv(L, xs, b):
        x = _mask_array(xs, b)
        return SKIP if x is None else _ints(getattr(L.propagate, fn)(x, 0))
    return drv


def _wavefront(L, wshape):
    import numpy as np
    return L.Wavefront(650e-9) * L.Pupil(amplitude=np.ones(wshape), pixelscale=1e-3, focal_length=10.0)


def _small(*shapes, lo=1, hi=10):
    return all(lo <= v <= hi for sh in shapes for v in sh)


def _drv_dft_shapes(L, ws, shape, pshape, os, ms=None, b=None):
    if not (_small(ws, hi=6) and (shape is None or _small(shape, pshape, hi=6)) and 1 <= os <= 3):
        return SKIP
    kw = {'oversample': os}
    if shape is not None:
        kw.update(shape=tuple(shape), prop_shape=tuple(pshape))
    if ms is not None:
        kw['mask'] = _mask_array(ms, b)
        if kw['mask'] is None:
            return SKIP
    loc, r = _trace_locals(L.propagate.propagate_dft, 'propagate_dft', 'lentil/propagate.py', _wavefront(L, ws),
                           5e-6, **kw)
    if loc is None:
        return SKIP
    if 'out_extent' not in loc:
        return ('err', 'ValueError') if (isinstance(r, ValueError) and ms is not None) else SKIP
    v = (_ints(loc['shape_out']), _ints(loc['prop_shape_out']), _ints(loc['out_extent']))
    return ('ok', v) if ms is not None else v


def _drv_dft_window(L, ws, os, fx, oe, pso):
    """realisable only when out_extent is the centred window of some shape*oversample and prop_shape_out is a
    multiple of oversample; the field's shift() is replaced by one whose np.fix is the requested fix_shift"""
    if not (1 <= os <= 3 and _small(ws, hi=5)):
        return SKIP
    rows, cols = oe[1] - oe[0] + 1, oe[3] - oe[2] + 1
    if rows < 1 or cols < 1 or rows % os or cols % os or pso[0] < 1 or pso[1] < 1 or pso[0] % os or pso[1] % os \
            or max(rows, cols, pso[0], pso[1]) > 24 or _m_array_extent(rows, cols, 0, 0) != tuple(oe):
        return SKIP
    w = _wavefront(L, ws)
    sh = tuple(float(v) + (0.25 if v >= 0 else -0.25) for v in fx)

    class _F(L.field.Field):
        __slots__ = ()

        def shift(self, *a, **k):
            return sh
    w.data = [_F(f.data, f.pixelscale, f.offset, f.tilt) for f in w.data[:1]]
    loc, r = _trace_locals(L.propagate.propagate_dft, 'propagate_dft', 'lentil/propagate.py', w, 5e-6,
                           shape=(rows // os, cols // os), prop_shape=(pso[0] // os, pso[1] // os), oversample=os)
    if loc is None or 'prop_extent' not in loc:
        return SKIP
    if _ints(loc['prop_shape_out']) != tuple(pso) or _ints(loc['out_extent']) != tuple(oe):
        return SKIP                       # the call did not produce the requested values at the loop
    if 'intersect_shape' not in loc:
        return None
    ish = loc['intersect_shape']
    if 'prop_shift' not in loc:
        return SKIP
    return (None if len(ish) == 0 else _ints(ish), _ints(loc['intersect_shift']), _ints(loc['prop_shift']))


DRIVER.update({
    'mask_shape': _drv_maskfn('_mask_shape'),
    'mask_shift': _drv_maskfn('_mask_shift'),
    'dft_shapes': lambda L, ws, shape, pshape, os: _drv_dft_shapes(L, ws, shape, pshape, os),
    'dft_shapes_default': lambda L, ws, os: _drv_dft_shapes(L, ws, None, None, os),
    'dft_shapes_mask': _drv_dft_shapes,
    'dft_field_window': _drv_dft_window,
})


def _s_mask(rng):
    n, m = rng.randint(1, 9), rng.randint(1, 9)
    r0, c0 = rng.randint(0, n - 1), rng.randint(0, m - 1)
    return ((n, m), (r0, rng.randint(r0, n - 1), c0, rng.randint(c0, m - 1)))


def _s_shape(rng, hi=5):
    return (rng.randint(1, hi), rng.randint(1, hi))


def _s_dft_mask(rng):
    shape, os = _s_shape(rng, 4), rng.randint(1, 3)
    t = rng.random()
    ms = (shape[0] * os, shape[1] * os)
    if t < 0.2:
        ms = (ms[0] + 1, ms[1] + rng.randint(1, 2))           # both axes differ: the check raises
    n, m = ms
    r0, c0 = rng.randint(0, n - 1), rng.randint(0, m - 1)
    return (_s_shape(rng, 4), shape, _s_shape(rng, 4), os, ms, (r0, rng.randint(r0, n - 1), c0, rng.randint(c0, m - 1)))


def _s_window(rng):
    os = rng.randint(1, 3)
    shape, p = _s_shape(rng, 5), _s_shape(rng, 5)
    oe = _m_array_extent(shape[0] * os, shape[1] * os, 0, 0)
    R = max(shape) * os + 2
    return (_s_shape(rng, 4), os, (rng.randint(-R, R), rng.randint(-R, R)), oe, (p[0] * os, p[1] * os))


SAMPLER.update({
    'mask_shape': _s_mask, 'mask_shift': _s_mask,
    'dft_shapes': lambda rng: (_s_shape(rng, 4), _s_shape(rng), _s_shape(rng), rng.randint(1, 3)),
    'dft_shapes_default': lambda rng: (_s_shape(rng), rng.randint(1, 3)),
    'dft_shapes_mask': _s_dft_mask,
    'dft_field_window': _s_window,
})


def _realisable_window(ws, os, fx, oe, pso):
    rows, cols = oe[1] - oe[0] + 1, oe[3] - oe[2] + 1
    return (os >= 1 and min(ws) >= 1 and rows >= 1 and cols >= 1 and rows % os == 0 and cols % os == 0
            and min(pso) >= 1 and pso[0] % os == 0 and pso[1] % os == 0
            and _m_array_extent(rows, cols, 0, 0) == tuple(oe))


PREF.update({
    'mask_shape': lambda xs, b: 0 <= b[0] <= b[1] < xs[0] and 0 <= b[2] <= b[3] < xs[1],
    'mask_shift': lambda xs, b: 0 <= b[0] <= b[1] < xs[0] and 0 <= b[2] <= b[3] < xs[1],
    'dft_shapes': lambda ws, s_, p_, os: min(ws + s_ + p_) >= 1 and os >= 1,
    'dft_shapes_default': lambda ws, os: min(ws) >= 1 and os >= 1,
    'dft_shapes_mask': lambda ws, s_, p_, os, ms, b: (min(ws + s_ + p_) >= 1 and os >= 1 and
                                                       0 <= b[0] <= b[1] < ms[0] and 0 <= b[2] <= b[3] < ms[1]),
    'dft_field_window': _realisable_window,
})


# ====================================================================== C20 / C16 / C09: mirrors, drivers, samplers
PROJECT = {}


def _m_rebin(sh, f, cplx):
    return ('err', 'ValueError') if cplx else ('ok', (sh[0] // f, f, sh[1] // f, f))


def _m_rebin3(sh, f, cplx):
    return ('err', 'ValueError') if cplx else ('ok', ((sh[0], sh[1] // f, sh[2] // f),
                                                      (sh[0], sh[1] // f, f, sh[2] // f, f)))


def _m_bayer(sh, os, kr, kg, kb):
    nrow, ncol = sh[1] // os, sh[2] // os
    return (nrow, ncol) + tuple((nrow // k[0], ncol // k[1]) for k in (kr, kg, kb))


def _first_of(r):
    return ('ok', r[1][0]) if r[0] == 'ok' else r


def _m_fft(shape, os, tilt, N, scr=None):
    if tilt:
        return ('err', 'NotImplementedErr')
    if shape is None:
        so, sh = tuple(N), (N[0] // os, N[1] // os)
    else:
        if N[0] < shape[0] * os or N[1] < shape[1] * os:
            return ('err', 'ValueError')
        so, sh = (shape[0] * os, shape[1] * os), tuple(shape)
    if scr is not None and not (N[0] <= scr[0] and N[1] <= scr[1]):
        return ('err', 'ValueError')
    return ('ok', (so, sh))


MIRROR.update({
    'rebin_reshape': _m_rebin, 'rebin_reshape_3d': _m_rebin3, 'bayer_mosaic': _m_bayer,
    'adc_order_0d': lambda: 1, 'adc_order_1d': lambda n: n, 'adc_order_2d': lambda sh: 1,
    'adc_order_3d': lambda sh: sh[0],
    'fft_out_shape': lambda shape, os, tilt, N: _m_fft(shape, os, tilt, N),
    'fft_out_shape_default': lambda os, tilt, N: _m_fft(None, os, tilt, N),
    'fft_out_shape_scratch': lambda shape, os, scr, tilt, N: _m_fft(shape, os, tilt, N, scr),
    'fft_crop_shape': lambda shape, os, tilt, N: _first_of(_m_fft(shape, os, tilt, N)),
    'fft_crop_shape_default': lambda os, tilt, N: _first_of(_m_fft(None, os, tilt, N)),
    'fft_crop_shape_scratch': lambda shape, os, scr, tilt, N: _first_of(_m_fft(shape, os, tilt, N, scr)),
})


def _drv_rebin(L, sh, f, cplx):
    import numpy as np
    if min(sh) < 0 or max(sh) > 24 or not 1 <= f <= 8:
        return SKIP
    img = np.ones(sh, dtype=complex if cplx else float)
    loc, r = _trace_locals(L.util.rebin, 'rebin', 'lentil/util.py', img, f)
    if cplx:
        return ('err', 'ValueError') if isinstance(r, ValueError) else ('unexpected', repr(r))
    if isinstance(r, Exception):
        return SKIP                    # numpy's reshape refused the sizes (not part of the translated arithmetic)
    if len(sh) == 3:
        return ('ok', (_ints(loc['rebinned_shape']), _ints(r.shape[1:])))
    return ('ok', _ints(r.shape))


PROJECT['rebin_reshape'] = lambda v: v if v[0] == 'err' else ('ok', (v[1][0], v[1][2]))
PROJECT['rebin_reshape_3d'] = lambda v: v if v[0] == 'err' else ('ok', (v[1][0], (v[1][1][1], v[1][1][3])))


def _drv_bayer(L, sh, os, kr, kg, kb):
    import numpy as np
    if not (kr == kg == kb and kr[0] == kr[1] and 1 <= kr[0] <= 3 and 1 <= os <= 3 and min(sh) >= 1 and max(sh) <= 24):
        return SKIP
    k = kr[0]
    pat = ('RGB' * 3)[:k * k] if k != 2 else 'RGGB'
    img = np.ones(sh)
    loc, r = _trace_locals(L.detector.collect_charge_bayer, 'collect_charge_bayer', 'lentil/detector.py',
                           img, list(range(1, sh[0] + 1)), 1.0, 1.0, 1.0, pat, os)
    if loc is None or 'blue_mosaic' not in loc:
        return SKIP
    reps = []
    for c in ('red', 'green', 'blue'):
        m = loc[c + '_mosaic'].shape
        if m[0] % (k * os) or m[1] % (k * os):
            return ('unexpected mosaic shape', m)
        reps.append((m[0] // (k * os), m[1] // (k * os)))
    return (int(loc['nrow']), int(loc['ncol'])) + tuple(reps)


def _drv_adc(ndim):
    def drv(L, *a):
        import numpy as np
        sh = () if ndim == 0 else ((a[0],) if ndim == 1 else tuple(a[0]))
        if any(not 1 <= v <= 5 for v in sh):
            return SKIP
        img = np.ones((sh[-2], sh[-1])) if ndim >= 2 else np.ones((3, 2))
        loc, r = _trace_locals(L.detector.adc, 'adc', 'lentil/detector.py', img, np.ones(sh) if ndim else 2.0)
        if loc is None or 'model_order' not in loc:
            return SKIP
        return int(loc['model_order'])
    return drv


def _drv_fft(L, shape, os, tilt, N, scr=None, crop=False):
    import numpy as np
    if not (1 <= os <= 3 and 2 <= min(N) and max(N) <= 24 and (shape is None or (1 <= min(shape) and max(shape) <= 30))
            and (scr is None or (1 <= min(scr) and max(scr) <= 30))):
        return SKIP
    wl, z, dx = 5e-7, 4.0, 1e-3
    w = L.Wavefront(wl) * L.Pupil(amplitude=np.ones((2, 2)), pixelscale=dx, focal_length=z)
    if tilt:
        w.data[0].tilt = [object()]
    du = (wl * z * os / (dx * N[0]), wl * z * os / (dx * N[1]))
    kw = {'oversample': os}
    if shape is not None:
        kw['shape'] = tuple(shape)
    if scr is not None:
        kw['scratch'] = np.zeros(scr, dtype=complex)
    pads, orig_pad = [], L.pad

    def spy(array, shape_, *a, **k):
        pads.append(shape_)
        return orig_pad(array, shape_, *a, **k)
    L.pad = spy            # propagate.py calls it as lentil.pad(...)
    try:
        loc, r = _trace_locals(L.propagate.propagate_fft, 'propagate_fft', 'lentil/propagate.py', w, du, **kw)
    finally:
        L.pad = orig_pad
    if isinstance(r, NotImplementedError):
        return ('err', 'NotImplementedErr')
    if loc is None or 'fft_shape' not in loc or _ints(loc['fft_shape']) != tuple(N):
        return SKIP
    if isinstance(r, ValueError):
        return ('err', 'ValueError')
    if isinstance(r, Exception):
        return SKIP
    if crop:
        return ('ok', _ints(pads[-1])) if pads else SKIP
    return ('ok', (_ints(loc['shape_out']), _ints(loc['shape'])))


DRIVER.update({
    'rebin_reshape': _drv_rebin, 'rebin_reshape_3d': _drv_rebin, 'bayer_mosaic': _drv_bayer,
    'adc_order_0d': _drv_adc(0), 'adc_order_1d': _drv_adc(1), 'adc_order_2d': _drv_adc(2), 'adc_order_3d': _drv_adc(3),
    'fft_out_shape': lambda L, shape, os, tilt, N: _drv_fft(L, shape, os, tilt, N),
    'fft_out_shape_default': lambda L, os, tilt, N: _drv_fft(L, None, os, tilt, N),
    'fft_out_shape_scratch': lambda L, shape, os, scr, tilt, N: _drv_fft(L, shape, os, tilt, N, scr),
    'fft_crop_shape': lambda L, shape, os, tilt, N: _drv_fft(L, shape, os, tilt, N, crop=True),
    'fft_crop_shape_default': lambda L, os, tilt, N: _drv_fft(L, None, os, tilt, N, crop=True),
    'fft_crop_shape_scratch': lambda L, shape, os, scr, tilt, N: _drv_fft(L, shape, os, tilt, N, scr, crop=True),
})


def _s_rebin(rng, nd=2):
    f = rng.randint(1, 4)
    sh = tuple(f * rng.randint(0, 4) + (rng.randint(0, f - 1) if rng.random() < 0.3 else 0) for _ in range(2))
    return (((rng.randint(0, 3),) if nd == 3 else ()) + sh, f, rng.random() < 0.15)


def _s_bayer(rng):
    k, os = rng.randint(1, 3), rng.randint(1, 3)
    sh = (rng.randint(1, 3), k * os * rng.randint(1, 3) + (1 if rng.random() < 0.2 else 0), k * os * rng.randint(1, 3))
    return (sh, os, (k, k), (k, k), (k, k))


def _s_fft(rng, scratch=False, default=False):
    os, N = rng.randint(1, 3), (rng.randint(2, 12), rng.randint(2, 12))
    shape = (max(1, N[0] // os + rng.randint(-2, 1)), max(1, N[1] // os + rng.randint(-2, 1)))
    tilt = rng.random() < 0.1
    if default:
        return (os, tilt, N)
    if scratch:
        return (shape, os, (N[0] + rng.randint(-1, 2), N[1] + rng.randint(-1, 2)), tilt, N)
    return (shape, os, tilt, N)


SAMPLER.update({
    'rebin_reshape': _s_rebin, 'rebin_reshape_3d': lambda rng: _s_rebin(rng, 3), 'bayer_mosaic': _s_bayer,
    'adc_order_0d': lambda rng: (), 'adc_order_1d': lambda rng: (rng.randint(1, 5),),
    'adc_order_2d': lambda rng: ((rng.randint(1, 5), rng.randint(1, 5)),),
    'adc_order_3d': lambda rng: ((rng.randint(1, 4), rng.randint(1, 4), rng.randint(1, 4)),),
    'fft_out_shape': _s_fft, 'fft_out_shape_default': lambda rng: _s_fft(rng, default=True),
    'fft_out_shape_scratch': lambda rng: _s_fft(rng, scratch=True),
    'fft_crop_shape': _s_fft, 'fft_crop_shape_default': lambda rng: _s_fft(rng, default=True),
    'fft_crop_shape_scratch': lambda rng: _s_fft(rng, scratch=True),
})
PREF.update({
    'rebin_reshape': lambda sh, f, c: min(sh) >= 0 and f >= 1,
    'rebin_reshape_3d': lambda sh, f, c: min(sh) >= 0 and f >= 1,
    'bayer_mosaic': lambda sh, os, kr, kg, kb: min(sh) >= 1 and os >= 1 and kr == kg == kb and kr[0] == kr[1] >= 1,
    'adc_order_0d': lambda: True, 'adc_order_1d': lambda n: n >= 1, 'adc_order_2d': lambda sh: min(sh) >= 1,
    'adc_order_3d': lambda sh: min(sh) >= 1,
    'fft_out_shape': lambda shape, os, tilt, N: os >= 1 and min(N) >= 2 and min(shape) >= 1,
    'fft_out_shape_default': lambda os, tilt, N: os >= 1 and min(N) >= 2,
    'fft_out_shape_scratch': lambda shape, os, scr, tilt, N: os >= 1 and min(N) >= 2 and min(shape) >= 1 and min(scr) >= 1,
    'fft_crop_shape': lambda shape, os, tilt, N: os >= 1 and min(N) >= 2 and min(shape) >= 1,
    'fft_crop_shape_default': lambda os, tilt, N: os >= 1 and min(N) >= 2,
    'fft_crop_shape_scratch': lambda shape, os, scr, tilt, N: os >= 1 and min(N) >= 2 and min(shape) >= 1 and min(scr) >= 1,
})


# ====================================================================== C11 zernike_index, C20 hex lattice
def _m_row_m(n):
    l = [1, 1] if n % 2 else [0]
    for _ in range(max(n // 2, 0)):
        l = l + [l[-1] + 2]
        l = l + [l[-1]]
    return l


def _m_noll_code(j, n):
    if j < 1:
        return ('err', 'ValueError')
    if n == 0:
        return ('ok', (0, 0))
    k = (n + 1) * (n + 2) // 2
    r = j - k - 1
    sign = -1 if j % 2 else 1
    l = _m_row_m(n)
    kk = r + len(l) if r < 0 else r
    if not 0 <= kk < len(l):
        return ('err', 'IndexError')
    return ('ok', (l[kk] * sign, n))


_HEXDIR = [(1, 0, -1), (1, -1, 0), (0, -1, 1), (-1, 0, 1), (-1, 1, 0), (0, 1, -1)]


def _m_hex_ring(radius):
    out, h = [], (-radius, radius, 0)
    for d in _HEXDIR:
        for _ in range(max(radius, 0)):
            out.append(h)
            h = (h[0] + d[0], h[1] + d[1], h[2] + d[2])
    return ('ok', out)


MIRROR.update({
    'zernike_index': _m_noll_code,
    'hex_add': lambda a, b: (('ok', (a[0] + b[0], a[1] + b[1], a[2] + b[2])) if sum(a) + sum(b) == 0
                             else ('err', 'AssertionErr')),
    'hex_ring': _m_hex_ring,
})


def _drv_zernike_index(L, j, n):
    if j > 100000:
        return SKIP
    zmod = sys.modules.get('lentil.zernike') or __import__('importlib').import_module('lentil.zernike')
    loc, r = _trace_locals(zmod.zernike_index, 'zernike_index', 'lentil/zernike.py', j)
    if isinstance(r, ValueError):
        return ('err', 'ValueError')
    if loc is None or 'n' not in loc or int(loc['n']) != n:
        return SKIP                       # the float row formula gives another row than the requested n
    if isinstance(r, IndexError):
        return ('err', 'IndexError')
    if isinstance(r, Exception):
        return SKIP
    return ('ok', _ints(r))


def _drv_hex_add(L, a, b):
    H = L.segmented._Hex
    try:
        return ('ok', _ints(L.segmented.hex_add(H(*a), H(*b))))
    except AssertionError:
        return ('err', 'AssertionErr')


def _drv_hex_ring(L, radius):
    if radius > 40:
        return SKIP
    try:
        return ('ok', [_ints(h) for h in L.segmented.hex_ring(radius)])
    except AssertionError:
        return ('err', 'AssertionErr')


DRIVER.update({'zernike_index': _drv_zernike_index, 'hex_add': _drv_hex_add, 'hex_ring': _drv_hex_ring})


def _s_zernike(rng):
    import math
    j = rng.randint(-2, 400) if rng.random() < 0.9 else rng.randint(400, 20000)
    n = 0
    if j >= 1:
        n = int(math.ceil((-1 + math.sqrt(1 + 8 * j)) / 2) - 1)
    return (j, n)


def _s_hex(rng):
    q, r = rng.randint(-6, 6), rng.randint(-6, 6)
    return (q, r, -q - r + (rng.randint(-1, 1) if rng.random() < 0.15 else 0))


SAMPLER.update({'zernike_index': _s_zernike, 'hex_add': lambda rng: (_s_hex(rng), _s_hex(rng)),
                'hex_ring': lambda rng: (rng.randint(-2, 12),)})
PREF.update({'zernike_index': lambda j, n: j >= 1 and _s_zernike_row(j) == n,
             'hex_add': lambda a, b: True, 'hex_ring': lambda radius: radius >= 0})


def _s_zernike_row(j):
    import math
    return int(math.ceil((-1 + math.sqrt(1 + 8 * j)) / 2) - 1) if j >= 1 else 0


# ====================================================================== C17 rescale
CANON = {}          # name -> normal form of a value before comparison (rationals: pairs -> Fraction)


def _ceil_frac(a, d):
    return -((-a) // d)


def _m_rescale_shape(dims, sc):
    return tuple(_ceil_frac(n * sc[0], sc[1]) for n in dims)


def _m_rescale_coords(ish, sc, k):
    from fractions import Fraction
    s = Fraction(sc[0], sc[1])
    N0, N1 = _m_rescale_shape(ish, sc)
    return ((k - Fraction(N1, 2)) / s + Fraction(ish[1], 2), (k - Fraction(N0, 2)) / s + Fraction(ish[0], 2))


def _canon_fracs(v):
    from fractions import Fraction
    return tuple(x if isinstance(x, Fraction) else Fraction(x[0], x[1]) for x in v)


MIRROR.update({
    'rescale_shape': lambda ish, sc: _m_rescale_shape(ish, sc),
    'rescale_shape_given': lambda ish, sc, shape: _m_rescale_shape(shape, sc),
    'rescale_shape_scalar': lambda ish, sc, shape: _m_rescale_shape((shape, shape), sc),
    'rescale_coords': _m_rescale_coords,
})
CANON['rescale_coords'] = _canon_fracs


def _drv_rescale(L, ish, sc, shape=None, k=None):
    """scale = num/den must be a dyadic rational (exactly a float) small enough that the float products are exact"""
    import numpy as np
    from fractions import Fraction
    num, den = sc
    if den < 1 or den & (den - 1) or not 1 <= num <= 64 or den > 16 or not (1 <= min(ish) and max(ish) <= 12):
        return SKIP
    if isinstance(shape, tuple) and not (1 <= min(shape) and max(shape) <= 12):
        return SKIP
    if isinstance(shape, int) and not 1 <= shape <= 12:
        return SKIP
    loc, r = _trace_locals(L.util.rescale, 'rescale', 'lentil/util.py', np.ones(ish), num / den, shape=shape)
    if loc is None or 'shape' not in loc or loc['shape'] is None or isinstance(r, Exception) and 'x' not in loc:
        return SKIP
    if k is None:
        return _ints(loc['shape'])
    if num & (num - 1):
        return SKIP                    # the coordinates divide by the scale: exact in floating point only for 2^e
    x, y = loc['x'], loc['y']
    if not (0 <= k < len(x) and k < len(y)):
        return SKIP
    return (Fraction(float(x[k])), Fraction(float(y[k])))


DRIVER.update({
    'rescale_shape': lambda L, ish, sc: _drv_rescale(L, ish, sc),
    'rescale_shape_given': lambda L, ish, sc, shape: _drv_rescale(L, ish, sc, tuple(shape)),
    'rescale_shape_scalar': lambda L, ish, sc, shape: _drv_rescale(L, ish, sc, int(shape)),
    'rescale_coords': lambda L, ish, sc, k: _drv_rescale(L, ish, sc, None, k),
})


def _s_scale(rng):
    den = rng.choice([1, 2, 4, 8])
    return (rng.randint(1, 4 * den), den)


def _s_rescale_coords(rng):
    ish, sc = (rng.randint(1, 9), rng.randint(1, 9)), (rng.choice([1, 2, 4]), rng.choice([1, 2, 4, 8]))
    N = _m_rescale_shape(ish, sc)
    return (ish, sc, rng.randint(0, max(0, min(N) - 1)))


SAMPLER.update({
    'rescale_shape': lambda rng: ((rng.randint(1, 10), rng.randint(1, 10)), _s_scale(rng)),
    'rescale_shape_given': lambda rng: ((rng.randint(1, 6), rng.randint(1, 6)), _s_scale(rng),
                                        (rng.randint(1, 10), rng.randint(1, 10))),
    'rescale_shape_scalar': lambda rng: ((rng.randint(1, 6), rng.randint(1, 6)), _s_scale(rng), rng.randint(1, 10)),
    'rescale_coords': _s_rescale_coords,
})
PREF.update({
    'rescale_shape': lambda ish, sc: min(ish) >= 1 and sc[0] >= 1 and sc[1] in (1, 2, 4, 8),
    'rescale_shape_given': lambda ish, sc, sh: min(ish + sh) >= 1 and sc[0] >= 1 and sc[1] in (1, 2, 4, 8),
    'rescale_shape_scalar': lambda ish, sc, sh: min(ish) >= 1 and sh >= 1 and sc[0] >= 1 and sc[1] in (1, 2, 4, 8),
    'rescale_coords': lambda ish, sc, k: min(ish) >= 1 and sc[0] >= 1 and sc[1] in (1, 2, 4, 8) and 0 <= k,
})


# ====================================================================== C15 pad / C13 common grid
def _m_pad_linspace(ends, d, w0, wl):
    return ((ends[0], w0, _ceil_frac(w0 - ends[0], d) + 1), (wl, ends[1], _ceil_frac(ends[1] - wl, d) + 1))


MIRROR.update({
    'pad_linspace': _m_pad_linspace, 'pad_linspace_edge': _m_pad_linspace,
    'common_grid_linspace': lambda mn, mx, d: (mn, mx, _ceil_frac(mx - mn, d) + 1),
})


def _int_grid(w0, wl, d):
    """an integer wavelength grid from w0 to wl whose smallest spacing is d, or None"""
    if d < 1 or w0 < 1 or wl > 10 ** 6:           # (the Spectrum constructor refuses wavelengths <= 0)
        return None
    if wl - w0 == d:
        return [w0, wl]
    if wl - w0 >= 2 * d:
        return [w0, w0 + d, wl]
    return None


def _record_linspace(codename, fn, *args, **kw):
    """run fn and record the positional arguments of the np.linspace calls made directly by the function named
    `codename` -> (list of argument tuples, locals at its return, result | exception)"""
    import numpy as np
    calls, orig = [], np.linspace

    def rec(*a, **k):
        if sys._getframe(1).f_code.co_name == codename:
            calls.append(a)
        return orig(*a, **k)
    np.linspace = rec
    try:
        loc, r = _trace_locals(fn, codename, 'lentil/radiometry.py', *args, **kw)
    finally:
        np.linspace = orig
    return calls, loc, r


def _intlike(v):
    f = float(v)
    return int(f) if f == int(f) else f


def _drv_pad_linspace(mode):
    def drv(L, ends, d, w0, wl):
        import numpy as np
        g = _int_grid(w0, wl, d)
        if g is None or max(abs(v) for v in ends) > 10 ** 6 or abs(ends[0] - w0) > 400 * d or abs(ends[1] - wl) > 400 * d:
            return SKIP
        sp = L.radiometry.Spectrum(wave=np.array(g, dtype=float), value=np.ones(len(g)))
        calls, loc, r = _record_linspace('pad', sp.pad, tuple(float(v) for v in ends), mode=mode)
        if loc is None or 'dwave' not in loc or len(calls) < 2 and not isinstance(r, Exception):
            return SKIP
        if float(loc['dwave']) != d or float(loc['minwave']) != w0 or float(loc['maxwave']) != wl:
            return SKIP
        if len(calls) != 2:
            return SKIP                # np.linspace itself refused a (negative) count: nothing to compare with
        return tuple(tuple(_intlike(v) for v in c) for c in calls)
    return drv


def _drv_common_grid(L, mn, mx, d):
    import numpy as np
    g = _int_grid(mn, mx, d)
    if g is None or (mx - mn) > 2000 * d:
        return SKIP
    S = L.radiometry.Spectrum
    s1 = S(wave=np.array(g, dtype=float), value=np.ones(len(g)))
    s2 = S(wave=np.array(g[:2], dtype=float), value=np.ones(2))
    calls, loc, r = _record_linspace('_interp_common', L.radiometry._interp_common, s1, s2, 'min', 'linear', 0)
    if loc is None or 'dwave' not in loc or len(calls) != 1:
        return SKIP
    if float(loc['dwave']) != d:
        return SKIP
    return tuple(_intlike(v) for v in calls[0])


DRIVER.update({'pad_linspace': _drv_pad_linspace('constant'), 'pad_linspace_edge': _drv_pad_linspace('edge'),
               'common_grid_linspace': _drv_common_grid})


def _s_pad(rng):
    d = rng.randint(1, 7)
    w0 = rng.randint(1, 400)
    wl = w0 + d * rng.randint(1, 12) + (0 if rng.random() < 0.6 else rng.randint(0, d - 1) + d)
    return ((w0 - rng.randint(-3, 25), wl + rng.randint(-3, 25)), d, w0, wl)


def _s_common(rng):
    d = rng.randint(1, 9)
    mn = rng.randint(1, 900)
    return (mn, mn + d * rng.randint(1, 30) + (0 if rng.random() < 0.5 else d + rng.randint(0, d - 1)), d)


SAMPLER.update({'pad_linspace': _s_pad, 'pad_linspace_edge': _s_pad, 'common_grid_linspace': _s_common})
PREF.update({'pad_linspace': lambda e, d, w0, wl: _int_grid(w0, wl, d) is not None,
             'pad_linspace_edge': lambda e, d, w0, wl: _int_grid(w0, wl, d) is not None,
             'common_grid_linspace': lambda mn, mx, d: _int_grid(mn, mx, d) is not None})


# ====================================================================== C20: window(slice), helper.mesh
PROJECT2 = {}


def _m_window(size, shape, sl):
    s0, s1, s2, s3 = sl
    if size == 1:
        return ('ok', None)
    if shape is not None:
        if s1 - s0 != shape[0] or s3 - s2 != shape[1]:
            return ('err', 'AssertionErr')
    return ('ok', ((s0, s1), (s2, s3)))


def _prod(t):
    out = 1
    for v in t:
        out *= v
    return out


MIRROR.update({
    'window_slice': lambda ish, shape, sl: _m_window(_prod(ish), shape, sl),
    'window_slice_noshape': lambda ish, sl: _m_window(_prod(ish), None, sl)[1],
    'window_slice_cube': lambda ish, shape, sl: _m_window(_prod(ish), shape, sl),
    'mesh_origin': lambda shape, shift, i, j: (i - shape[0] // 2 - shift[0], j - shape[1] // 2 - shift[1]),
})


def _window_base(ish):
    import numpy as np
    return np.arange(_prod(ish)).reshape(ish)


def _drv_window(with_shape):
    def drv(L, ish, *rest):
        shape, sl = (rest if with_shape else (None, rest[0]))
        if min(ish) < 1 or max(ish) > 9 or max(abs(v) for v in sl) > 40:
            return SKIP
        try:
            r = L.util.window(_window_base(ish), None if shape is None else tuple(shape), tuple(sl))
        except AssertionError:
            return ('err', 'AssertionErr')
        v = r.tolist()
        return ('ok', v) if with_shape else v
    return drv


def _proj_window(with_shape):
    def proj(want, args):
        ish, sl = args[0], args[-1]
        w = want[1] if with_shape else want
        if with_shape and want[0] == 'err':
            return want
        base = _window_base(ish)
        v = base.tolist() if w is None else base[..., w[0][0]:w[0][1], w[1][0]:w[1][1]].tolist()
        return ('ok', v) if with_shape else v
    return proj


def _drv_mesh(L, shape, shift, i, j):
    if not (1 <= min(shape) and max(shape) <= 12 and 0 <= i < shape[0] and 0 <= j < shape[1]):
        return SKIP
    loc, r = _trace_locals(L.helper.mesh, 'mesh', 'lentil/helper.py', tuple(shape), tuple(shift), 0)
    if loc is None or 'rr' not in loc:
        return SKIP
    return (_intlike(loc['rr'][i, j]), _intlike(loc['cc'][i, j]))


DRIVER.update({'window_slice': _drv_window(True), 'window_slice_noshape': _drv_window(False),
               'window_slice_cube': _drv_window(True), 'mesh_origin': _drv_mesh})
PROJECT2.update({'window_slice': _proj_window(True), 'window_slice_noshape': _proj_window(False),
                 'window_slice_cube': _proj_window(True)})


def _s_window(rng, nd=2, with_shape=True):
    ish = tuple(rng.randint(1, 6) for _ in range(nd))
    if rng.random() < 0.12:
        ish = (1,) * nd
    n, m = ish[-2], ish[-1]
    s0, s2 = rng.randint(-2, n), rng.randint(-2, m)
    sl = (s0, s0 + rng.randint(0, n), s2, s2 + rng.randint(0, m))
    if not with_shape:
        return (ish, sl)
    shape = (sl[1] - sl[0], sl[3] - sl[2])
    if rng.random() < 0.25:
        shape = (shape[0] + rng.randint(-1, 1), shape[1] + rng.randint(-1, 1))
    return (ish, shape, sl)


def _s_mesh(rng):
    shape = (rng.randint(1, 9), rng.randint(1, 9))
    return (shape, (rng.randint(-5, 5), rng.randint(-5, 5)), rng.randint(0, shape[0] - 1), rng.randint(0, shape[1] - 1))


SAMPLER.update({'window_slice': _s_window, 'window_slice_noshape': lambda rng: _s_window(rng, 2, False),
                'window_slice_cube': lambda rng: _s_window(rng, 3), 'mesh_origin': _s_mesh})
PREF.update({'window_slice': lambda ish, sh, sl: min(ish) >= 1, 'window_slice_noshape': lambda ish, sl: min(ish) >= 1,
             'window_slice_cube': lambda ish, sh, sl: min(ish) >= 1,
             'mesh_origin': lambda sh, sf, i, j: min(sh) >= 1 and 0 <= i < sh[0] and 0 <= j < sh[1]})


# ====================================================================== C19: fftfreq axis lengths
def _drv_freq_sizes(modname, fn, nargs):
    def drv(L, ish):
        import numpy as np
        if not (1 <= min(ish) and max(ish) <= 12):
            return SKIP
        f = getattr(getattr(L, modname), fn)
        loc, r = _trace_locals(f, fn, f'lentil/{modname}.py', np.ones(ish), *([1.0] * nargs))
        if loc is None or 'x' not in loc or 'y' not in loc:
            return SKIP
        return (len(loc['x']), len(loc['y']))          # the lengths of the frequency vectors the code built
    return drv


for _n, _m, _f, _k in (('pixel_freq_sizes', 'detector', 'pixel', 1), ('jitter_freq_sizes', 'convolvable', 'jitter', 1),
                       ('smear_freq_sizes', 'convolvable', 'smear', 2)):
    MIRROR[_n] = lambda ish: (ish[1], ish[0])
    DRIVER[_n] = _drv_freq_sizes(_m, _f, _k)
    SAMPLER[_n] = lambda rng: ((rng.randint(1, 12), rng.randint(1, 12)),)
    PREF[_n] = lambda ish: min(ish) >= 1


# ====================================================================== C03: plane.py segment bookkeeping
def _plane_with_mask(L, shape):
    import numpy as np
    m = np.ones(shape, dtype=int)
    return L.Plane(amplitude=1, mask=m)


def _drv_plane_slice(L, ms, b):
    x = _mask_array(ms, b)
    if x is None:
        return SKIP
    s = L.plane._plane_slice(x)
    return (_sl(s[0][0]), _sl(s[0][1]))


def _drv_plane_attr(attr):
    def drv(L, sh):
        if not (1 <= min(sh) and max(sh) <= 6):
            return SKIP
        v = getattr(_plane_with_mask(L, tuple(sh)), attr)
        return _ints(v) if attr == 'shape' else int(v)
    return drv


MIRROR.update({
    'plane_slice_2d': lambda ms, b: ((max(b[0], 0), min(b[1] + 1, ms[0])), (max(b[2], 0), min(b[3] + 1, ms[1]))),
    'plane_slice_offset': MIRROR['slice_offset'],
    'plane_shape_2d': lambda sh: tuple(sh), 'plane_shape_3d': lambda sh: (sh[1], sh[2]),
    'plane_size_2d': lambda sh: 1, 'plane_size_3d': lambda sh: sh[0],
})
DRIVER.update({'plane_slice_2d': _drv_plane_slice, 'plane_slice_offset': DRIVER['slice_offset'],
               'plane_shape_2d': _drv_plane_attr('shape'), 'plane_shape_3d': _drv_plane_attr('shape'),
               'plane_size_2d': _drv_plane_attr('size'), 'plane_size_3d': _drv_plane_attr('size')})
SAMPLER.update({
    'plane_slice_2d': _s_mask,
    'plane_slice_offset': lambda rng: _sample_valid('slice_offset', None, rng),
    'plane_shape_2d': lambda rng: ((rng.randint(1, 6), rng.randint(1, 6)),),
    'plane_shape_3d': lambda rng: ((rng.randint(1, 4), rng.randint(1, 6), rng.randint(1, 6)),),
    'plane_size_2d': lambda rng: ((rng.randint(1, 6), rng.randint(1, 6)),),
    'plane_size_3d': lambda rng: ((rng.randint(1, 4), rng.randint(1, 6), rng.randint(1, 6)),),
})
PREF.update({
    'plane_slice_2d': PREF['mask_shape'], 'plane_slice_offset': lambda sl, sh: _valid_pref('slice_offset', (sl, sh)),
    'plane_shape_2d': lambda sh: min(sh) >= 1, 'plane_shape_3d': lambda sh: min(sh) >= 1,
    'plane_size_2d': lambda sh: min(sh) >= 1, 'plane_size_3d': lambda sh: min(sh) >= 1,
})


# ====================================================================== C01: fourier.py
MIRROR.update({
    'dft2_coords': lambda m, n, M, N, k: (k - m // 2, k - n // 2, k - M // 2, k - N // 2),
    'dft2_args': lambda fs, sh, off: (fs[0], fs[1], fs[0], fs[1], sh[0], sh[1], off[0], off[1]),
    'dft2_args_shape': lambda fs, shape, sh, off: (fs[0], fs[1], shape[0], shape[1], sh[0], sh[1], off[0], off[1]),
    'dft2_args_scalars': lambda fs, shape, sh, off: (fs[0], fs[1], shape, shape, sh, sh, off, off),
    'idft2_divisor': lambda fs, unitary: None if unitary else fs[0] * fs[1],
})


def _drv_dft2_coords(L, m, n, M, N, k):
    if not all(1 <= v <= 16 for v in (m, n, M, N)):
        return SKIP
    f = L.fourier._dft2_coords
    R, S_, U, V = getattr(f, '__wrapped__', f)(m, n, M, N)
    if not 0 <= k < min(m, n, M, N):
        return SKIP
    return (_intlike(R[k]), _intlike(S_[k]), _intlike(U[k]), _intlike(V[k]))


def _drv_dft2_args(L, fs, *rest):
    import numpy as np
    shape = rest[0] if len(rest) == 3 else None
    sh, off = rest[-2], rest[-1]
    dims = list(fs) + (list(shape) if isinstance(shape, tuple) else ([shape] if shape is not None else []))
    if not all(1 <= v <= 8 for v in dims):
        return SKIP
    rec, orig = [], L.fourier._dft2_matrices

    def spy(*a):
        rec.append(a)
        return orig(*a)
    L.fourier._dft2_matrices = spy
    try:
        L.fourier.dft2(np.ones(fs), 0.125, shape=shape, shift=sh, offset=off)
    finally:
        L.fourier._dft2_matrices = orig
    if len(rec) != 1:
        return SKIP
    a = rec[0]
    return tuple(_intlike(a[i]) for i in (0, 1, 2, 3, 6, 7, 8, 9))


def _drv_idft2_divisor(L, fs, unitary):
    import numpy as np
    if not all(1 <= v <= 8 for v in fs):
        return SKIP
    rec, orig = [], np.divide

    def spy(*a, **k):
        if sys._getframe(1).f_code.co_name == 'idft2':
            rec.append(a)
        return orig(*a, **k)
    np.divide = spy
    try:
        L.fourier.idft2(np.ones(fs, dtype=complex), 0.125, unitary=bool(unitary))
    finally:
        np.divide = orig
    if unitary:
        return None if not rec else ('unexpected division', _intlike(rec[0][1]))
    return _intlike(rec[0][1]) if len(rec) == 1 else SKIP


DRIVER.update({'dft2_coords': _drv_dft2_coords, 'dft2_args': _drv_dft2_args, 'dft2_args_shape': _drv_dft2_args,
               'dft2_args_scalars': _drv_dft2_args, 'idft2_divisor': _drv_idft2_divisor})
_r = lambda rng, lo=1, hi=7: rng.randint(lo, hi)      # noqa: E731
SAMPLER.update({
    'dft2_coords': lambda rng: (lambda m, n, M, N: (m, n, M, N, rng.randint(0, min(m, n, M, N) - 1)))(
        _r(rng), _r(rng), _r(rng), _r(rng)),
    'dft2_args': lambda rng: ((_r(rng), _r(rng)), (_r(rng, -4, 4), _r(rng, -4, 4)), (_r(rng, -4, 4), _r(rng, -4, 4))),
    'dft2_args_shape': lambda rng: ((_r(rng), _r(rng)), (_r(rng), _r(rng)), (_r(rng, -4, 4), _r(rng, -4, 4)),
                                    (_r(rng, -4, 4), _r(rng, -4, 4))),
    'dft2_args_scalars': lambda rng: ((_r(rng), _r(rng)), _r(rng), _r(rng, -4, 4), _r(rng, -4, 4)),
    'idft2_divisor': lambda rng: ((_r(rng), _r(rng)), rng.random() < 0.5),
})
PREF.update({
    'dft2_coords': lambda m, n, M, N, k: min(m, n, M, N) >= 1 and 0 <= k < min(m, n, M, N),
    'dft2_args': lambda fs, sh, off: min(fs) >= 1, 'dft2_args_shape': lambda fs, shape, sh, off: min(fs + shape) >= 1,
    'dft2_args_scalars': lambda fs, shape, sh, off: min(fs) >= 1 and shape >= 1,
    'idft2_divisor': lambda fs, u: min(fs) >= 1,
})


# ====================================================================== C07: plane.py multiplication bookkeeping
def _m_mul_pix(a, b):
    if a[0][0] * b[0][1] == b[0][0] * a[0][1] and a[1][0] * b[1][1] == b[1][0] * a[1][1]:
        return ('ok', a)
    return ('err', 'ValueError')


def _canon_qpair(v):
    from fractions import Fraction
    if isinstance(v, tuple) and len(v) == 2 and v[0] in ('ok', 'err'):
        return v if v[0] == 'err' else ('ok', _canon_qpair(v[1]))
    return tuple(x if isinstance(x, Fraction) else Fraction(x[0], x[1]) for x in v)


MIRROR.update({'mul_pixelscale': _m_mul_pix, 'mul_pixelscale_left_none': lambda b: b,
               'mul_pixelscale_right_none': lambda a: a,
               'multiply_shape': lambda ps, ws, can: ('ok', tuple(ps)) if can else ('err', 'TypeError'),
               'multiply_shape_scalar_plane': lambda ws, can: ('ok', tuple(ws)) if can else ('err', 'TypeError')})
for _n in ('mul_pixelscale', 'mul_pixelscale_left_none', 'mul_pixelscale_right_none'):
    CANON[_n] = _canon_qpair


def _dyadic(p):
    """(n, d) with d a power of two <= 64 and small n: exactly a float"""
    return p[1] >= 1 and p[1] & (p[1] - 1) == 0 and p[1] <= 64 and abs(p[0]) <= 4096


def _drv_mul_pix(L, a, b):
    from fractions import Fraction
    for p in [q for q in (a, b) if q is not None]:
        if not (_dyadic(p[0]) and _dyadic(p[1])):
            return SKIP
    fa = None if a is None else (a[0][0] / a[0][1], a[1][0] / a[1][1])
    fb = None if b is None else (b[0][0] / b[0][1], b[1][0] / b[1][1])
    try:
        r = L.plane._mul_pixelscale(fa, fb)
    except ValueError:
        return ('err', 'ValueError')
    v = (Fraction(float(r[0])), Fraction(float(r[1])))
    return ('ok', v) if (a is not None and b is not None) else v


def _drv_multiply_shape(L, ps, ws, can):
    import numpy as np
    if not all(1 <= v <= 6 for v in ws) or (ps is not None and not all(1 <= v <= 6 for v in ps)):
        return SKIP
    w = L.Wavefront(650e-9, ptype='pupil' if can else 'image')
    w.shape = tuple(ws)
    plane = L.Pupil(amplitude=(np.ones(ps) if ps is not None else 1), pixelscale=1e-3, focal_length=1.0)
    loc, r = _trace_locals(plane.multiply, 'multiply', 'lentil/plane.py', w)
    if isinstance(r, TypeError):
        return ('err', 'TypeError')
    if loc is None or 'shape' not in loc:
        return SKIP
    return ('ok', _ints(loc['shape']))


DRIVER.update({'mul_pixelscale': _drv_mul_pix, 'mul_pixelscale_left_none': lambda L, b: _drv_mul_pix(L, None, b),
               'mul_pixelscale_right_none': lambda L, a: _drv_mul_pix(L, a, None),
               'multiply_shape': _drv_multiply_shape,
               'multiply_shape_scalar_plane': lambda L, ws, can: _drv_multiply_shape(L, None, ws, can)})


def _s_qpair(rng):
    return ((rng.randint(1, 40), rng.choice([1, 2, 4, 8])), (rng.randint(1, 40), rng.choice([1, 2, 4, 8])))


def _s_mul_pix(rng):
    a = _s_qpair(rng)
    t = rng.random()
    if t < 0.5:                       # the same values, possibly spelled with other denominators
        k0, k1 = rng.choice([1, 2, 4]), rng.choice([1, 2, 4])
        b = ((a[0][0] * k0, a[0][1] * k0), (a[1][0] * k1, a[1][1] * k1))
    elif t < 0.7:
        b = (a[0], _s_qpair(rng)[1])
    else:
        b = _s_qpair(rng)
    return (a, b)


SAMPLER.update({'mul_pixelscale': _s_mul_pix, 'mul_pixelscale_left_none': lambda rng: (_s_qpair(rng),),
                'mul_pixelscale_right_none': lambda rng: (_s_qpair(rng),),
                'multiply_shape': lambda rng: ((_r(rng, 1, 6), _r(rng, 1, 6)), (_r(rng, 1, 6), _r(rng, 1, 6)),
                                               rng.random() < 0.7),
                'multiply_shape_scalar_plane': lambda rng: ((_r(rng, 1, 6), _r(rng, 1, 6)), rng.random() < 0.7)})
PREF.update({'mul_pixelscale': lambda a, b: all(_dyadic(q) for q in a + b),
             'mul_pixelscale_left_none': lambda b: all(_dyadic(q) for q in b),
             'mul_pixelscale_right_none': lambda a: all(_dyadic(q) for q in a),
             'multiply_shape': lambda ps, ws, can: min(ps + ws) >= 1,
             'multiply_shape_scalar_plane': lambda ws, can: min(ws) >= 1})


# ====================================================================== C12: zernike basis / compose bookkeeping
MIRROR.update({'basis_shape': lambda ms, k: (k, ms[0], ms[1]), 'basis_shape_scalar_mode': lambda ms: (1, ms[0], ms[1]),
               'basis_vectorized': lambda ms, k: (k, -1), 'compose_mode': lambda ms, n, k: k + 1})


def _zmod():
    return sys.modules.get('lentil.zernike') or __import__('importlib').import_module('lentil.zernike')


def _drv_basis(scalar, vectorize):
    def drv(L, ms, k=None):
        import numpy as np
        if not all(1 <= v <= 6 for v in ms) or (k is not None and not 1 <= k <= 5):
            return SKIP
        modes = 4 if scalar else list(range(1, k + 1))
        with np.errstate(all='ignore'):
            loc, r = _trace_locals(_zmod().zernike_basis, 'zernike_basis', 'lentil/zernike.py', np.ones(ms), modes,
                                   vectorize=vectorize)
        if not isinstance(r, Exception):
            return _ints(r.shape)
        if loc is not None and 'basis' in loc and not vectorize:
            return _ints(loc['basis'].shape)       # (the cube was allocated before the failure)
        return SKIP
    return drv


def _drv_compose_mode(L, ms, n, k):
    import numpy as np
    if not all(1 <= v <= 6 for v in ms) or not (1 <= n <= 6 and 0 <= k < n):
        return SKIP
    z = _zmod()
    rec, orig = [], z.zernike

    def spy(mask, index, *a, **kw):
        rec.append(int(index))
        return orig(mask, index, *a, **kw)
    z.zernike = spy
    try:
        with np.errstate(all='ignore'):
            z.zernike_compose(np.ones(ms), np.arange(1.0, n + 1))
    except Exception:      # noqa: BLE001   (the calls made before the failure were recorded)
        pass
    finally:
        z.zernike = orig
    return rec[k] if k < len(rec) else SKIP


DRIVER.update({'basis_shape': _drv_basis(False, False), 'basis_shape_scalar_mode': _drv_basis(True, False),
               'basis_vectorized': _drv_basis(False, True), 'compose_mode': _drv_compose_mode})
# the running code resolves the -1 of reshape: compare the row count and that the rest is the flattened mask
def _resolve_reshape(want, args):
    """numpy resolves one -1 of a reshape from the total size (modes * rows * columns)"""
    total = args[1] * args[0][0] * args[0][1]
    if list(want).count(-1) != 1:
        return want
    rest = 1
    for v in want:
        if v != -1:
            rest *= v
    if rest == 0 or total % rest:
        return want
    return tuple(total // rest if v == -1 else v for v in want)


PROJECT2['basis_vectorized'] = _resolve_reshape
SAMPLER.update({'basis_shape': lambda rng: ((_r(rng, 1, 6), _r(rng, 1, 6)), _r(rng, 1, 5)),
                'basis_shape_scalar_mode': lambda rng: ((_r(rng, 1, 6), _r(rng, 1, 6)),),
                'basis_vectorized': lambda rng: ((_r(rng, 1, 6), _r(rng, 1, 6)), _r(rng, 1, 5)),
                'compose_mode': lambda rng: (lambda n: ((_r(rng, 1, 6), _r(rng, 1, 6)), n, rng.randint(0, n - 1)))(
                    _r(rng, 1, 6))})
PREF.update({'basis_shape': lambda ms, k: min(ms) >= 1 and k >= 1, 'basis_shape_scalar_mode': lambda ms: min(ms) >= 1,
             'basis_vectorized': lambda ms, k: min(ms) >= 1 and k >= 1,
             'compose_mode': lambda ms, n, k: min(ms) >= 1 and 0 <= k < n})


# ====================================================================== C18: power_spectrum grid, cosmic-ray box
def _m_ps_freq(ms, i, j):
    from fractions import Fraction
    n, m = ms
    return (Fraction(i - (n // 2 + 1), n), Fraction(j - (m // 2 + 1), m), m * m + n * n, m * n)


def _canon_ps(v):
    from fractions import Fraction
    return tuple(x if isinstance(x, (int, Fraction)) else Fraction(x[0], x[1]) for x in v)


MIRROR.update({'ps_freq': _m_ps_freq,
               'cosmic_extent': lambda sh: ((0, sh[0] - 1, 0, sh[1] - 1, 0, -1), tuple(sh)),
               'cosmic_shape': lambda sh: (tuple(sh),) * 3})
CANON['ps_freq'] = _canon_ps


class _StopHere(Exception):
    pass


def _drv_ps_freq(L, ms, i, j):
    import numpy as np
    from fractions import Fraction
    n, m = ms
    if not (1 <= n <= 8 and 1 <= m <= 8 and 0 <= i < n and 0 <= j < m):
        return SKIP
    wfe = sys.modules.get('lentil.wfe') or __import__('importlib').import_module('lentil.wfe')
    roots, orig = [], np.sqrt

    def spy(x, *a, **k):
        roots.append(x)
        return orig(x, *a, **k)
    np.sqrt = spy
    try:
        with np.errstate(all='ignore'):
            loc, r = _trace_locals(wfe.power_spectrum, 'power_spectrum', 'lentil/wfe.py', np.ones((n, m)), 1.0, 1.0, 1.0,
                                   2.0, seed=1)
    finally:
        np.sqrt = orig
    if loc is None or 'yy' not in loc or 'xx' not in loc:
        return SKIP
    try:
        yy, xx = np.asarray(loc['yy']), np.asarray(loc['xx'])
        if yy.shape != (n, m) or xx.shape != (n, m):
            return ('shape', yy.shape, xx.shape)
        # small integers divided once: the double is the correctly rounded quotient, its rational is recovered exactly
        fy = Fraction(float(yy[i, j])).limit_denominator(64)
        fx = Fraction(float(xx[i, j])).limit_denominator(64)
        scal = [int(x) for x in roots if np.ndim(x) == 0 and float(x) == int(x)]
        s2 = [x for x in roots if np.ndim(x) == 0]
        return (fy, fx, int(s2[0]), int(s2[1])) if len(s2) >= 2 and float(s2[0]) == int(s2[0]) \
            and float(s2[1]) == int(s2[1]) else SKIP
    except Exception:      # noqa: BLE001
        return SKIP


def _drv_cosmic_extent(L, sh):
    import numpy as np
    if not all(1 <= v <= 12 for v in sh):
        return SKIP
    det = L.detector
    rec, zer = [], []
    o_ray, o_zeros = det._propagate_ray, np.zeros

    def spy_ray(position, direction, extent):
        rec.append(extent)
        raise _StopHere()

    def spy_zeros(shape, *a, **k):
        if sys._getframe(1).f_code.co_name == '_cosmic_ray':       # (numpy calls np.zeros internally too)
            zer.append(shape)
        return o_zeros(shape, *a, **k)
    det._propagate_ray, np.zeros = spy_ray, spy_zeros
    state = np.random.get_state()
    try:
        np.random.seed(7)
        det._cosmic_ray(tuple(sh), (5e-6, 5e-6, 3e-6), 4e9, 1e9)
    except _StopHere:
        pass
    except Exception:      # noqa: BLE001
        return SKIP
    finally:
        det._propagate_ray, np.zeros = o_ray, o_zeros
        np.random.set_state(state)
    if not rec or not zer:
        return SKIP
    return (_ints(rec[0]), _shape_of(zer[0]))


def _shape_of(v):
    import numpy as np
    return _ints(v) if np.ndim(v) else (int(v),)


def _drv_cosmic_shape(L, sh):
    import numpy as np
    if not all(1 <= v <= 12 for v in sh):
        return SKIP
    det = L.detector
    nr, zer, cr = [], [], []
    o_nr, o_cr, o_zeros = det._nrays, det._cosmic_ray, np.zeros

    def spy_nr(shape, *a, **k):
        nr.append(shape)
        return 2

    def spy_cr(shape, *a, **k):
        cr.append(shape)
        return o_zeros(tuple(sh))

    def spy_zeros(shape, *a, **k):
        if sys._getframe(1).f_code.co_name == 'cosmic_rays':
            zer.append(shape)
        return o_zeros(shape, *a, **k)
    det._nrays, det._cosmic_ray, np.zeros = spy_nr, spy_cr, spy_zeros
    try:
        det.cosmic_rays(tuple(sh), (5e-6, 5e-6, 3e-6), 1.0)
    except Exception:      # noqa: BLE001   (what was recorded before the failure still counts)
        pass
    finally:
        det._nrays, det._cosmic_ray, np.zeros = o_nr, o_cr, o_zeros
    if not (nr and zer and cr):
        return SKIP
    return (_shape_of(nr[0]), _shape_of(zer[0]), _shape_of(cr[0]))


DRIVER.update({'ps_freq': _drv_ps_freq, 'cosmic_extent': _drv_cosmic_extent, 'cosmic_shape': _drv_cosmic_shape})
SAMPLER.update({'ps_freq': lambda rng: (lambda n, m: ((n, m), rng.randint(0, n - 1), rng.randint(0, m - 1)))(
                    _r(rng, 1, 8), _r(rng, 1, 8)),
                'cosmic_extent': lambda rng: ((_r(rng, 1, 12), _r(rng, 1, 12)),),
                'cosmic_shape': lambda rng: ((_r(rng, 1, 12), _r(rng, 1, 12)),)})
PREF.update({'ps_freq': lambda ms, i, j: min(ms) >= 1 and 0 <= i < ms[0] and 0 <= j < ms[1],
             'cosmic_extent': lambda sh: min(sh) >= 1, 'cosmic_shape': lambda sh: min(sh) >= 1})


# ====================================================================== the check of one layer (called from extra)
def lemma_function(lemma, names):
    """the spec name a lemma `src_<name>...` is about (longest match)"""
    best = None
    for n in names:
        if lemma and lemma.startswith('src_' + n) and (best is None or len(n) > len(best)):
            best = n
    return best


def src_case(name, w, common):
    return {'op': 'src', 'function': name, 'args': common.jsonable(w['args']),
            'translated_source_value': common.jsonable(w['source']), 'model_value': common.jsonable(w['model'])}


def _detuple(x):
    return tuple(_detuple(v) for v in x) if isinstance(x, (list, tuple)) else x


def src_run_impl(c, common):
    """op 'src': the REAL function on the witness (through the drivers)"""
    args = _detuple(c['args'])
    if c['function'] == 'field_boundary':
        args = (list(args[0]),)
    try:
        v = DRIVER[c['function']](common.import_lentil(), *args)
    except Exception as e:      # noqa: BLE001
        return {'err': type(e).__name__}
    if v is SKIP:
        return {'not_reachable': 'these arguments cannot be passed through the running function'}
    return {'value': common.jsonable(v)}


def src_oracle(c, impl, common):
    args = _detuple(c['args'])
    if c['function'] == 'field_boundary':
        args = (list(args[0]),)
    name = c['function']
    want = MIRROR[name](*args)
    if name in PROJECT:                # (what the running code exposes of the value: as in the self-check)
        want = PROJECT[name](want)
    if name in PROJECT2:
        want = PROJECT2[name](want, args)
    if name in CANON:
        want = CANON[name](want)
    want = common.jsonable(want)
    if 'value' not in impl:
        return (f'{c["function"]}{args}: the running function gives {impl}; the translated source gives '
                f'{c.get("translated_source_value")}, the proved model {want}')
    return None if impl['value'] == want else (f'{c["function"]}{args}: the running code gives {impl["value"]}, '
                                               f'the proved model {want}')


def wrap_replay(run_impl, oracle, common):
    """(run_impl, oracle) that handle the witnesses of the translation layer (op 'src') and delegate the rest"""
    def run_impl2(c):
        return src_run_impl(c, common) if c.get('op') == 'src' else run_impl(c)

    def oracle2(c, impl):
        return src_oracle(c, impl, common) if c.get('op') == 'src' else oracle(c, impl)
    return run_impl2, oracle2


def _private_build(suite, su, text, common):
    """development runs (VERIF_REPO = a scratch copy carrying a mutant or a rewrite) must not touch the generated
    files of the shared tree - other checks read them concurrently.  The generated file and copies of the Proofs /
    Properties files of the layer (their imports of the layer's own modules redirected) are compiled in a private
    directory under their own logical name.  -> (rc, failing file | None, lemma | None, message, assumptions)"""
    import re
    import subprocess
    tag = hashlib.sha1((common.REPO + '|' + suite).encode()).hexdigest()[:10]
    logical = 'LVD' + tag
    d = os.path.join(common.COQ, 'devsrc', tag)
    rel = [su['gen'], su['proofs'], su['target'][:-1]]                     # theories/Gen/X.v, Proofs/XP.v, Properties/CxxSrc.v
    own = {r[len('theories/'):-2].replace('/', '.') for r in rel}          # Gen.X, Proofs.XP, Properties.CxxSrc

    def redirect(txt):
        def fix(m):
            mods = m.group(2).split()
            mine = [x for x in mods if x in own]
            rest = [x for x in mods if x not in own]
            out = ''
            if rest:
                out += f'From LV Require {m.group(1)}{" ".join(rest)}.'
            if mine:
                out += f'{" " if out else ""}From {logical} Require {m.group(1)}{" ".join(mine)}.'
            return out
        return re.sub(r'From\s+LV\s+Require\s+(Import\s+|Export\s+)?(.*?)\.(?=\s|$)', fix, txt, flags=re.S)
    import shutil
    rc0, out0 = common.coq_make([su['target']])          # everything the layer needs from the shared tree
    try:
        return _private_compile(su, text, common, d, logical, rel, redirect)
    finally:
        shutil.rmtree(d, ignore_errors=True)


def _private_compile(su, text, common, d, logical, rel, redirect):
    import re
    import subprocess
    files = []
    for k, r in enumerate(rel):
        dst = os.path.join(d, r[len('theories/'):])
        os.makedirs(os.path.dirname(dst), exist_ok=True)
        txt = text if k == 0 else open(os.path.join(common.COQ, r)).read()
        open(dst, 'w').write(redirect(txt))
        files.append(dst)
    last = ''
    for k, fpath in enumerate(files):
        pr = subprocess.run(f'timeout 900 coqc -Q theories LV -Q {d} {logical} {fpath}', shell=True, cwd=common.COQ,
                            stdout=subprocess.PIPE, stderr=subprocess.STDOUT, text=True)
        last = pr.stdout
        if pr.returncode:
            lemma = None
            m = re.search(r'line (\d+)', pr.stdout)
            if m:
                lines = open(fpath).read().splitlines()
                for i in range(min(int(m.group(1)), len(lines)) - 1, -1, -1):
                    mm = re.match(r'\s*(Theorem|Lemma|Example|Definition|Corollary|Fact)\s+(\w+)', lines[i])
                    if mm:
                        lemma = mm.group(2)
                        break
            return pr.returncode, rel[k], lemma, pr.stdout[-1500:], None
    src = re.sub(r'\(\*.*?\*\)', '', open(files[2]).read(), flags=re.S)
    names, closed = common.parse_assumptions(last)
    pa = {'rc': 0, 'theorems': re.findall(r'^\s*Theorem\s+(\w+)', src, flags=re.M),
          'printed': re.findall(r'Print\s+Assumptions\s+(\w+)', src), 'axioms': names,
          'unknown': [n for n in names if not common.axiom_allowed(n)], 'closed': closed}
    return 0, None, None, '', pa


def run_layer(suite, prop_id, tier, rng, common):
    """regenerate Gen/<..>Src.v of the suite from common.REPO, build its Properties file and decide:
    refused functions are only reported; a translated function whose equivalence lemma no longer compiles is a
    violation, with a witness searched on an exhaustive small box.  -> {'report': ..., 'violations': [...]}"""
    import re
    su = SUITES[suite]
    lentil = common.import_lentil()
    gen_path = os.path.join(common.COQ, su['gen'])
    private = common.REPO != '/repo'
    if private:
        res = translate_all(common.REPO, lentil, rng, suite)
        res['changed'] = None
    else:
        res = write(common.REPO, gen_path, lentil=lentil, rng=rng, suite=suite)
    results = res['results']
    translated = [n for n, r in results.items() if r['status'] == 'translated']
    report = {'what': 'source-to-Gallina translation of the integer index arithmetic, proved equal to the model',
              'translated': translated,
              'refused': {n: r['reason'] for n, r in results.items() if r['status'] == 'refused'},
              'functions': {n: f'{r["file"]}:{r["func"]} - {r["doc"]}' for n, r in results.items()},
              'source_sha256': res['hashes'], 'translated_functions_sha256': res['function_hashes'],
              'generated_file': su['gen'], 'generated_file_changed': res['changed'],
              'selfcheck_vs_running_code': {n: results[n].get('selfcheck_compared', 0) for n in translated},
              'proved': 0}
    violations = []
    bad = common.hygiene([su['target']])
    if bad:
        violations.append({'case': None, 'impl': None,
                           'what': f'translation layer: forbidden construct in the Coq files of {su["props"]}: {bad}'})
        return {'report': report, 'violations': violations}
    pbuild = None
    if private:
        report['private_build'] = True
        rc, pf, plemma, pmsg, ppa = _private_build(suite, su, res['text'], common)
        pbuild = (pf, plemma, pmsg, ppa)
        out = pmsg
    else:
        for _ in range(4):
            rc, out = common.coq_make([su['target']])
            if open(gen_path).read() == res['text']:
                break           # (a concurrent check of /repo wrote the same text; anything else: build again)
            write(common.REPO, gen_path, lentil=None, rng=rng, suite=suite)
        if open(gen_path).read() != res['text']:
            report['refused']['<build>'] = 'the generated file kept being rewritten by concurrent checks during the build'
            report['translated'] = []
            return {'report': report, 'violations': violations}
    src_p = re.sub(r'\(\*.*?\*\)', '', open(os.path.join(common.COQ, su['proofs'])).read(), flags=re.S)
    lemmas = re.findall(r'^\s*Lemma\s+(src_\w+)', src_p, flags=re.M)
    if rc == 0:
        # Print Assumptions recompiles the Properties file (2-3 s): its outcome is a function of the built .vo, so it
        # is cached against that file's identity (make rebuilds the .vo whenever anything it depends on changes)
        import json
        vo = os.path.join(common.COQ, su['target'])
        st = os.stat(vo)
        key = [st.st_mtime_ns, st.st_size, st.st_ino]
        cpath = os.path.join(common.COQ, f'.{su["props"]}.assumptions.json')
        pa = pbuild[3] if pbuild else None
        try:
            if pbuild:
                raise KeyError
            c = json.load(open(cpath))
            if c.get('key') == key:
                pa = c['pa']
                report['assumptions_cached'] = True
        except (OSError, ValueError, KeyError):
            pa = pbuild[3] if pbuild else None
        if pa is None and not pbuild:
            pa = common.print_assumptions(su['props'])
            pa = {k: pa[k] for k in ('rc', 'theorems', 'printed', 'axioms', 'unknown', 'closed')}
            st = os.stat(vo)                 # (coqc has just rewritten the .vo from the same sources)
            if pa['rc'] == 0:
                try:
                    json.dump({'key': [st.st_mtime_ns, st.st_size, st.st_ino], 'pa': pa}, open(cpath, 'w'))
                except OSError:
                    pass
        report['theorems'] = pa['theorems']
        report['axioms'] = pa['axioms']
        ok = (pa['rc'] == 0 and not pa['unknown'] and pa['theorems'] and len(pa['printed']) >= len(pa['theorems']))
        if not ok:
            violations.append({'case': None, 'impl': None,
                               'what': f'translation layer: Properties/{su["props"]}.v does not check cleanly '
                                       f'(rc={pa["rc"]}, unknown axioms {pa["unknown"]}); no failing input found'})
        else:
            pre = f'{prop_id}_src_'
            report['proved'] = sum(1 for t in pa['theorems'] if lemma_function(t.replace(pre, 'src_'), translated))
        return {'report': report, 'violations': violations}
    f, lemma, msg = (pbuild[0], pbuild[1], pbuild[2]) if pbuild else common.first_error(out)
    fn = lemma_function(lemma, list(results)) if f == su['proofs'] else None
    report['broken'] = {'file': f, 'lemma': lemma, 'function': fn, 'error': (msg or '')[:600]}
    if f == su['proofs'] and lemma in lemmas:
        report['proved'] = sum(1 for l in lemmas[:lemmas.index(lemma)] if lemma_function(l, translated))
    # POLICY: a proof script that no longer goes through is NOT evidence against the code (a failed lia/tactic on a
    # semantically equal term is a limitation of the script).  Only a FOUND disagreement between the translated
    # term and the model is a violation (with the witness); otherwise the function is reported like a refusal.
    found, searched = {}, {}
    for n in translated:
        w, desc = find_witness(n, results[n], res['pyfuncs'][n], rng)
        searched[n] = desc
        if w:
            found[n] = (w, desc)
    if fn in translated and fn not in found:          # look harder for the function whose lemma broke
        w, desc = find_witness(fn, results[fn], res['pyfuncs'][fn], rng, exhaustive_budget=6000000, n_random=200000)
        searched[fn] = desc
        if w:
            found[fn] = (w, desc)
    for n, (w, desc) in found.items():
        r = results[n]
        case = src_case(n, w, common)
        violations.append({'case': case, 'impl': src_run_impl(case, common),
                           'what': f'translation layer: the integer arithmetic of {r["file"]}:{r["func"]} ({r["doc"]}) '
                                   f'differs from the proved model: arguments {common.jsonable(w["args"])} give '
                                   f'{common.jsonable(w["source"])} by the source, {common.jsonable(w["model"])} by '
                                   'the model' + (f' (lemma {lemma} no longer compiles)' if n == fn else '')})
    report['unproved'] = {}
    if fn in translated and fn not in found:
        report['unproved'][fn] = (f'equivalence proof ({lemma}) did not go through automatically, no disagreement with '
                                  f'the model found on {searched[fn]}')
    elif fn is None or fn not in translated:
        report['unproved']['<build>'] = (f'the build of {su["target"]} fails in {f} ({lemma}); no translated function '
                                         'disagrees with its model on the searched points')
    for n, why in report['unproved'].items():      # reported like a refusal: not a violation
        report['refused'][n] = why
    report['translated'] = [n for n in translated if n not in report['unproved']]
    report['not_checked_this_run'] = ('the build stopped at the first lemma that failed: the lemmas after it were not '
                                      're-checked by Coq in this run (their functions were compared with the model '
                                      'mirrors on the searched points)')
    report['witnesses'] = {n: common.jsonable(w) for n, (w, _) in found.items()}
    report['witness_replays'] = [common.write_replay(prop_id, {
        'property': prop_id, 'kind': 'failing input (translation layer)', 'case': common.jsonable(v['case']),
        'impl_result': common.jsonable(v['impl']), 'what': v['what'], 'how_to_replay': './check replay <this file>'})
        for v in violations if v.get('case')]
    return {'report': report, 'violations': violations}


# ====================================================================== driver
def _parse(repo, rel, cache):
    if rel not in cache:
        p = os.path.join(repo, rel)
        src = open(p, 'rb').read()
        tree = ast.parse(src.decode('utf-8'))
        fdefs = {}
        records, assigns = {}, {}
        for s in tree.body:
            if isinstance(s, ast.FunctionDef):
                fdefs[s.name] = s
            elif isinstance(s, ast.ClassDef):
                for m in s.body:                     # methods are addressed as 'Class.method'
                    if isinstance(m, ast.FunctionDef):
                        fdefs[f'{s.name}.{m.name}'] = m
            elif isinstance(s, ast.Assign) and len(s.targets) == 1 and isinstance(s.targets[0], ast.Name):
                nm, v = s.targets[0].id, s.value
                assigns.setdefault(nm, []).append(v)
                if (isinstance(v, ast.Call) and _dotted(v.func) in ('collections.namedtuple', 'namedtuple')
                        and len(v.args) == 2 and not v.keywords and isinstance(v.args[1], (ast.List, ast.Tuple))
                        and all(isinstance(e, ast.Constant) and isinstance(e.value, str) for e in v.args[1].elts)):
                    records[nm] = [e.value for e in v.args[1].elts]
            else:
                for n in ast.walk(s):              # any other module-level binding of a name disqualifies it
                    if isinstance(n, ast.Name) and isinstance(n.ctx, ast.Store):
                        assigns.setdefault(n.id, []).extend([None, None])
        for nm in [k for k, v in assigns.items() if len(v) != 1]:
            records.pop(nm, None)
        fdefs['__module__'] = {'records': records, 'assigns': assigns}
        cache[rel] = (hashlib.sha256(src).hexdigest(), fdefs)
    return cache[rel]


def _funcs_hash(fdefs, names):
    """sha256 of the parsed definitions (ast.dump, no positions) of the named functions: changes exactly when
    the code of a whitelisted function changes (not with comments or with the rest of the file)"""
    h = hashlib.sha256()
    for n in sorted(names):
        h.update((n + '=' + (ast.dump(fdefs[n]) if n in fdefs else 'MISSING') + '\n').encode())
    return h.hexdigest()


def _fallback_inputs(spec):
    """the binders of the definition, computed from the spec alone (so that a refused function keeps its type)"""
    namer = Namer()
    inputs = []
    for p, kind in spec['params'].items():
        _make_input(kind, p, namer, inputs)
    _extra_inputs(spec, namer, inputs)
    return inputs


def _compile_py(py):
    ns = {'_reduce': functools.reduce, 'max': max, 'min': min, '_quot': _quot}
    exec(compile(py, '<gen_src translated term>', 'exec'), ns)     # our own generated text
    return ns


def translate_all(repo, lentil=None, rng=None, suite='C06'):
    """-> dict(text=coq file text, results={name: {...}}, hashes={file: sha256}, pyfuncs={name: callable}).
    With `lentil` (the imported package of the same tree) every translated term is first compared with the
    RUNNING function on sampled arguments; a disagreement means the translator (or the instance the spec
    assumes) is not faithful for that function, which is then refused like any other."""
    import random
    rng = rng or random.Random(0)
    cache, results, chunks, hashes, pyfuncs = {}, {}, [], {}, {}
    su = SUITES[suite]
    specs = su['specs']

    def loader(rel):
        h, fdefs = _parse(repo, rel, cache)
        hashes[rel] = h
        return fdefs
    for spec in specs:
        name = spec['name']
        try:
            try:
                h, fdefs = _parse(repo, spec['file'], cache)
            except (OSError, SyntaxError, UnicodeDecodeError) as e:
                raise TranslationRefused(name, f'cannot read/parse {spec["file"]}: {e}')
            hashes[spec['file']] = h
            tr = translate_one(spec, fdefs, loader)
            fb = _fallback_inputs(spec)
            if [(i['name'], i['type']) for i in fb] != [(i['name'], i['type']) for i in tr['inputs']]:
                raise TranslationRefused(name, 'internal: binder names differ from the declared ones')
            coq = g_def(spec, tr)
            py = p_def(spec, tr)
            info = {'status': 'translated', 'inputs': tr['inputs'], 'rtype': tr['rtype'], 'py': py,
                    'doc': spec['doc'], 'file': spec['file'], 'func': spec['func']}
            fn = _compile_py(py)['src_' + name]
            if lentil is not None:
                n, bad = selfcheck(name, info, fn, lentil, rng)
                info['selfcheck_compared'] = n
                if bad:
                    raise TranslationRefused(name, 'self-check: the translated term and the running function '
                                                   f'disagree on {bad}')
            results[name] = info
            pyfuncs[name] = fn
            chunks.append(f'(* {spec["file"]}: {spec["doc"]} *)\n{coq}')
        except TranslationRefused as e:
            inputs = _fallback_inputs(spec)
            results[name] = {'status': 'refused', 'reason': e.reason, 'inputs': inputs, 'rtype': spec['rtype'],
                             'doc': spec['doc'], 'file': spec['file'], 'func': spec['func']}
            reason = e.reason.replace('(*', '( *').replace('*)', '* )')
            helpers = ''.join(h + '\n' for h in spec.get('fallback_helpers', []))
            chunks.append(f'(* {spec["file"]}: {spec["doc"]}\n   REFUSED by the translator: {reason}\n'
                          '   The definition below is NOT translated from the source: it is the declared fallback '
                          '(the model),\n   present only so that the development builds; the check reports the '
                          'function as refused. *)\n'
                          f'{helpers}Definition src_{name} {g_binders(inputs)} : {coq_type(spec["rtype"])} :=\n'
                          f'  {spec["fallback"]}.')
    head = [f'(* GENERATED by harness/gen_src.py from the lentil source files on every `./check {suite}` - do not edit.',
            '   Each src_<f> is the translation of the integer arithmetic of one whitelisted function (see the',
            '   docstring of harness/gen_src.py for the accepted Python and for what an observation entry is).',
            '   Source: sha256 of the parsed definitions (ast.dump) of the whitelisted functions of each file - it',
            f'   changes exactly when their code changes (the sha256 of the whole files is in evidence/{suite}.json):']
    fhashes = {}
    for f in sorted(hashes):
        used = {sp['func'] for sp in specs if sp['file'] == f} | {x for sp in specs if sp['file'] == f
                                                                  for x in sp.get('inline', ()) if '.' not in x}
        for sp in specs:
            for mp, mf in sp.get('modules', {}).items():
                if mf == f:
                    used |= {x[len(mp) + 1:] for x in sp.get('inline', ()) if x.startswith(mp + '.')}
        if f not in cache:
            continue
        fhashes[f] = _funcs_hash(cache[f][1], used)
        head.append(f'     {f}  {fhashes[f]}  ({" ".join(sorted(used))})')
    head.append('   translated: ' + ' '.join(n for n, r in results.items() if r['status'] == 'translated'))
    head.append('   refused:    ' + (' '.join(n for n, r in results.items() if r['status'] == 'refused') or '-')
                + ' *)')
    head.append(f'From LV Require Import {su["imports"]}.')
    head.append('')
    text = '\n'.join(head) + '\n' + '\n\n'.join(chunks) + '\n'
    return {'text': text, 'results': results, 'hashes': hashes, 'function_hashes': fhashes, 'pyfuncs': pyfuncs}


def write(repo, path, lentil=None, rng=None, suite='C06'):
    """regenerate; the file is rewritten only when its text changes (keeps make quiet)"""
    res = translate_all(repo, lentil, rng, suite)
    old = open(path).read() if os.path.exists(path) else None
    res['changed'] = old != res['text']
    if res['changed']:
        tmp = path + '.tmp'
        with open(tmp, 'w') as fh:
            fh.write(res['text'])
        os.replace(tmp, path)
    return res


if __name__ == '__main__':
    r = translate_all(sys.argv[1] if len(sys.argv) > 1 else '/repo', suite=sys.argv[2] if len(sys.argv) > 2 else 'C06')
    print(r['text'])
    for n, x in r['results'].items():
        if x['status'] == 'refused':
            print('REFUSED', n, ':', x['reason'], file=sys.stderr)
