"""Generator of coq/theories/Gen/DocTable.v  (property C08, DESIGN.md section 4.1).

Parses the three tables of the user documentation that describe the plane-type rules:

  docs/user/fundamentals/wavefront.rst    grid table under "Multiplication rules"
  docs/user/fundamentals/planes.rst       simple table "ptype / Planes with this type"
  docs/user/fundamentals/diffraction.rst  simple table "Wavefront ptype / Plane ptype / Method"

into doc_mul, doc_class_ptype, doc_prop.  Fail closed: a missing table, row or column, a duplicated
row, a cell whose text is not one of the known phrases, a documented class that is not a public
plane class => DocError => the runner reports a broken tie.  parse_all() is also used, directly,
by the property oracle of harness/props/c08.py (which never looks at the Coq model).
"""
import os
import re

from . import common as C
from .gen_ptype import WTYPES, PTYPES, METHODS, W_CON, P_CON, M_CON, write_if_changed, class_names

DOCS = ('docs', 'user', 'fundamentals')


class DocError(Exception):
    pass


def _read(name):
    p = os.path.join(C.REPO, *DOCS, name)
    if not os.path.exists(p):
        raise DocError(f'missing documentation file {p}')
    return open(p).read().splitlines()


def _lit(cell):
    """``name`` or :class:`name` -> name"""
    m = re.fullmatch(r'``(\w+)``', cell) or re.fullmatch(r':class:`~?(?:lentil\.)?(\w+)`', cell)
    return m.group(1) if m else None


# ------------------------------------------------------------------ wavefront.rst
def parse_mul_table():
    lines = _read('wavefront.rst')
    idx = [i for i, l in enumerate(lines[:-1])
           if l.strip() == 'Multiplication rules' and re.fullmatch(r'=+', lines[i + 1].strip())]
    if len(idx) != 1:
        raise DocError('wavefront.rst: section "Multiplication rules" not found exactly once')
    i = idx[0] + 2
    while i < len(lines) and not lines[i].startswith('+'):
        if re.fullmatch(r'[=\-~^]{3,}', lines[i].strip()) and not lines[i].startswith('+'):
            raise DocError('wavefront.rst: no grid table in section "Multiplication rules"')
        i += 1
    tab = []
    while i < len(lines) and lines[i][:1] in ('+', '|'):
        tab.append(lines[i].rstrip())
        i += 1
    seps = [k for k, l in enumerate(tab) if re.fullmatch(r'\+(=+\+)+', l)]
    if len(seps) != 1:
        raise DocError('wavefront.rst: grid table has no unique header separator')
    hs = seps[0]
    cuts = [k for k, ch in enumerate(tab[hs]) if ch == '+']
    if len(cuts) != 5:
        raise DocError(f'wavefront.rst: expected 4 columns in the multiplication table, found {len(cuts) - 1}')

    def cells(line):
        if len(line) < cuts[-1] + 1:
            raise DocError(f'wavefront.rst: short table line {line!r}')
        return [line[cuts[k] + 1:cuts[k + 1]].strip() for k in range(4)]

    head = tab[:hs]
    head_text = ' '.join(head)
    first_col = ' '.join(l[cuts[0] + 1:cuts[1]] for l in head)
    other_cols = ' '.join(l[cuts[1] + 1:] for l in head)
    if 'Plane ``ptype``' not in first_col or 'Wavefront ``ptype``' not in other_cols:
        raise DocError(f'wavefront.rst: table header does not say rows = Plane ptype, columns = Wavefront ptype: {head_text!r}')
    last = [l for l in head if l.startswith('|')][-1]
    cols = [_lit(c) for c in cells(last)[1:]]
    if sorted(c or '?' for c in cols) != sorted(WTYPES):
        raise DocError(f'wavefront.rst: columns are {cols}, expected the wavefront types {WTYPES}')
    table = {}
    for l in tab[hs + 1:]:
        if l.startswith('+'):
            if not re.fullmatch(r'\+(-+\+)+', l):
                raise DocError(f'wavefront.rst: unexpected separator {l!r}')
            continue
        cs = cells(l)
        p = _lit(cs[0])
        if p not in PTYPES:
            raise DocError(f'wavefront.rst: unknown plane type in row label {cs[0]!r}')
        if p in table:
            raise DocError(f'wavefront.rst: duplicated row {p}')
        row = {}
        for w, txt in zip(cols, cs[1:]):
            if txt == 'Not allowed':
                row[w] = None
            elif _lit(txt) in WTYPES:
                row[w] = _lit(txt)
            else:
                raise DocError(f'wavefront.rst: unknown cell text {txt!r} in row {p}, column {w}')
        table[p] = row
    if sorted(table) != sorted(PTYPES):
        raise DocError(f'wavefront.rst: rows are {sorted(table)}, expected {PTYPES}')
    return {(w, p): table[p][w] for p in PTYPES for w in WTYPES}


# ------------------------------------------------------------------ simple tables
def _simple_table(lines, header_pat, what):
    """rows of the simple table whose header line matches header_pat: list of lists of cell strings"""
    for i in range(1, len(lines) - 1):
        if re.fullmatch(header_pat, lines[i].strip()) and re.fullmatch(r'=+( +=+)+', lines[i - 1].strip()) \
                and lines[i + 1].strip() == lines[i - 1].strip():
            border = lines[i - 1].rstrip()
            spans = [(m.start(), m.end()) for m in re.finditer(r'=+', border)]
            rows = []
            j = i + 2
            while j < len(lines) and lines[j].strip() != border.strip():
                if not lines[j].strip():
                    raise DocError(f'{what}: blank line inside the table')
                l = lines[j]
                row = []
                for k, (a, b) in enumerate(spans):
                    row.append((l[a:] if k == len(spans) - 1 else l[a:b]).strip())
                    if k < len(spans) - 1 and l[b:spans[k + 1][0]].strip():
                        raise DocError(f'{what}: text crosses a column boundary in {l!r}')
                rows.append(row)
                j += 1
            if j >= len(lines):
                raise DocError(f'{what}: table is not closed')
            return rows
    raise DocError(f'{what}: table not found')


def parse_class_table(classes):
    rows = _simple_table(_read('planes.rst'), r'ptype\s+Planes with this type', 'planes.rst class table')
    out = {}
    seen_p = set()
    for pc, cc in rows:
        p = _lit(pc)
        if p not in PTYPES or p in seen_p:
            raise DocError(f'planes.rst: unknown or duplicated ptype {pc!r}')
        seen_p.add(p)
        names = [x.strip() for x in cc.split(',')]
        if not cc or not all(names):
            raise DocError(f'planes.rst: no classes listed for ptype {p}')
        for nm in names:
            k = _lit(nm)
            if k is None:
                raise DocError(f'planes.rst: cannot read class reference {nm!r}')
            if k not in classes:
                raise DocError(f'planes.rst: documented class {k} is not a public plane class of lentil')
            if k in out:
                raise DocError(f'planes.rst: class {k} listed twice')
            out[k] = p
    if sorted(seen_p) != sorted(PTYPES):
        raise DocError(f'planes.rst: ptypes listed {sorted(seen_p)}, expected {PTYPES}')
    return out


def parse_prop_table():
    rows = _simple_table(_read('diffraction.rst'), r'Wavefront ``ptype``\s+Plane ``ptype``\s+Method',
                         'diffraction.rst propagation table')
    out = {}
    for wc, pc, meth in rows:
        w, t = _lit(wc), _lit(pc)
        if w not in WTYPES or t not in WTYPES:
            raise DocError(f'diffraction.rst: unknown type in row {wc!r} {pc!r}')
        funcs = re.findall(r':func:`~?(?:lentil\.)?(\w+)`', meth)
        rest = re.sub(r':func:`[^`]*`', '', meth).replace('or', '').strip()
        if funcs:
            if rest:
                raise DocError(f'diffraction.rst: unknown method text {meth!r}')
            for f in funcs:
                if f not in ('propagate_dft', 'propagate_fft'):
                    raise DocError(f'diffraction.rst: unknown propagation routine {f}')
                key = (f[len('propagate_'):], w)
                if key in out:
                    raise DocError(f'diffraction.rst: two rows for {key}')
                out[key] = t
        elif meth == 'Far field propagation not supported':
            for m in METHODS:
                if (m, w) in out:
                    raise DocError(f'diffraction.rst: two rows for {(m, w)}')
                out[(m, w)] = None
        elif meth == 'Flip, resample, or none':
            if w != t:
                raise DocError(f'diffraction.rst: "{meth}" between unlike planes {w} -> {t}')
        else:
            raise DocError(f'diffraction.rst: unknown method text {meth!r}')
    missing = [(m, w) for m in METHODS for w in WTYPES if (m, w) not in out]
    if missing:
        raise DocError(f'diffraction.rst: no row decides far-field propagation for {missing}')
    return out


def parse_all(classes=None):
    if classes is None:
        classes = class_names(C.import_lentil())
    return {'mul': parse_mul_table(), 'class_ptype': parse_class_table(classes), 'prop': parse_prop_table(),
            'classes': list(classes)}


def _opt(con, v):
    return 'None' if v is None else f'Some {con[v]}'


def render(doc):
    classes = doc['classes']
    L = []
    a = L.append
    a('(* GENERATED by harness/gen_doc.py from docs/user/fundamentals/{wavefront,planes,diffraction}.rst')
    a('   of the working tree of lentil -- do not edit. *)')
    a('From LV Require Import Model.PType Gen.PTypeObserved.')
    a('')
    a('(* wavefront.rst, "Multiplication rules": resulting wavefront type, None = "Not allowed" *)')
    a('Definition doc_mul (w : wtype) (p : ptype) : option wtype :=')
    a('  match w, p with')
    for w in WTYPES:
        for p in PTYPES:
            a(f'  | {W_CON[w]}, {P_CON[p]} => {_opt(W_CON, doc["mul"][(w, p)])}')
    a('  end.')
    a('')
    a('(* diffraction.rst, propagation table: type after far-field propagation, None = not supported *)')
    a('Definition doc_prop (m : method) (w : wtype) : option wtype :=')
    a('  match m, w with')
    for m in METHODS:
        for w in WTYPES:
            a(f'  | {M_CON[m]}, {W_CON[w]} => {_opt(W_CON, doc["prop"][(m, w)])}')
    a('  end.')
    a('')
    a('(* planes.rst, "Planes with this type"; None = the class is not in the table *)')
    a('Definition doc_class_ptype (k : cls) : option ptype :=')
    a('  match k with ' + ' | '.join(f'K{k} => {_opt(P_CON, doc["class_ptype"].get(k))}' for k in classes) + ' end.')
    a('Definition doc_classes : list cls := [' + '; '.join(f'K{k}' for k in classes if k in doc['class_ptype']) + '].')
    return '\n'.join(L) + '\n'


OUT = os.path.join(C.COQ, 'theories', 'Gen', 'DocTable.v')


def generate(classes=None):
    doc = parse_all(classes)
    write_if_changed(OUT, render(doc))
    return doc


if __name__ == '__main__':
    generate()
    print(open(OUT).read())
