"""C14 - Unit conversions are consistent and Planck's law is unit-independent."""
import math
import os
from fractions import Fraction

import numpy as np

from .. import common as C
from .. import gen_units as G

ID = 'C14'
MODEL = 'c14'
RUNFUN = 'run'
COQ_TARGETS = ['theories/Properties/C14.vo', 'theories/Extract/RunC14.vo']
DESIGN_REF = 'DESIGN.md section 4.1 (generated tables) and section 6, C14'
TECHNIQUE = ('Coq proof about GENERATED tables (16 wavelength factors observed through the real classes, 9 flux '
             'conversions translated from the source of Photlam/Flam/Wlam.to by a fail-closed ast translator - a source form it refuses falls back to the last successfully translated terms, validated exactly against the implementation -, regenerated '
             'and re-proved on every check: finite vm_compute in Q for the factors, `field` over R for the flux terms, '
             'induction over lists for Spectrum.to and the trapezoid integral, Planck/vegaflux/Blackbody factored through '
             'the SI function) + execution of the extracted model on exact rationals against lentil.radiometry + '
             'a model-free oracle (physical definitions of the units, composition and round-trip identities)')
LEVEL_TEXT = ('Theorems in coq/theories/Properties/C14.v: all 64 wavelength-unit triples, all 27 flux-unit triples for all '
              'real flux/wavelength values (H*C <> 0, wave <> 0), Spectrum.to preserves the trapezoid integral of densities '
              'and the values of unitless spectra for all lists, wave/flux chains compose and round-trip, Spectrum.sample in another wave unit returns the own-unit samples / factor for densities (unchanged for unitless) and preserves the integral on the converted grid, planck_* and '
              'vegaflux in any unit pair are the SI function carried by the proved-consistent conversions, a Blackbody '
              'converted with Spectrum.to is the Blackbody built in the target units, exitance = pi * radiance. '
              'Wien peak and Stefan-Boltzmann total are numeric TESTS (not proofs): cases `wien` / `stefan_boltzmann` compare the implementation with the laws evaluated with CODATA 2018 constants to 1e-5 (a failure is a violation, the property names both laws); coverage.extra repeats them with the module constants.')
LEVEL_NOTE = ('Trusted: Coq kernel + stdlib Reals axioms, extraction, harness/gen_units.py (observation + ast translator, '
              'cross-checked against the implementation by exact evaluation of the emitted terms), np.exp/np.pi (oracle '
              'inputs), IEEE rounding (tolerance 1e-12 relative). Not proved: Wien, Stefan-Boltzmann (tests).')
TRUSTED = ['Coq 8.16.1 kernel (coqc; coqchk in the thorough tier)',
           'extraction with ExtrOcamlBasic only; ocaml/driver.ml',
           'harness/gen_units.py: exhaustive observation of Unit(a).to(b); ast translator of the nine flux branches '
           '(validated on every run: emitted terms evaluated with fractions.Fraction against the implementation)',
           'harness/props/c14.py: codec, table of np.exp values handed to the model, physical definitions of the units in the oracle',
           'numpy: np.exp, np.pi, element-wise float arithmetic (modelled as exact rationals; tolerance 1e-12)',
           'parametricity: the theorem instance (R) and the executed instance (Qc) are the same Gallina terms over the record Fld']
ASSUMPTIONS = ['wavelengths > 0 and strictly increasing, values >= 0, temperature > 0; H*C <> 0 (checked for the source constants)',
               'wave unit of a Spectrum is a wavelength unit, value unit None or a flux unit',
               'the value of C in the source (299792456) is used as it is',
               'comparison tolerance 1e-12 relative; Planck arguments hc/(lambda k T) in [0.05, 50]']
RULE = ('all 49+ name pairs and all 64 triples of wavelength units; all 27 flux triples at random (flux, wave); Spectrum.to '
        'chains of length <= 6 over random unit sequences (density and unitless, random upper/lower case, closed chains '
        'favoured) observed after every step; Spectrum.sample(points, waveunit) for all 16 wave-unit pairs x {None, photlam, flam, wlam} (own grid and interior/outside points; spectrum untouched); band integrals integrate(start, end) on dense grids (0.05-20 nm spacing) in every wave unit before/after to() (fresh and chained objects, trapz and simps); arrays of 2**20+3 .. 3*2**20+7 samples judged at sampled indices; numpy array subclasses (MaskedArray, metadata subclass), strided views, 0-d / one-element / numpy-scalar wavelengths; Planck arguments hc/(lambda k T) from 1e-6 (Rayleigh-Jeans) to 100 (Wien tail); values scaled over 1e-30..1e30; Blackbody / vegamag / Spectrum objects whose table was edited in place (value assignment, pad, append) and then converted, against a plain Spectrum with the same table; integer-typed (int64/int32/uint16) wavelength grids for planck_*, Blackbody and Blackbody.sample in every wave unit against the float grid; planck_* and Blackbody under a caller-set np.errstate (raise / ignore / call, with and without an overflowing sample; error state must be left unchanged); TEST cases Wien peak (cubic fit of log radiance around the maximum) and Stefan-Boltzmann total (40001-point log grid) in every wave unit against CODATA 2018 references to 1e-5; planck_radiance/exitance, Blackbody (+ to-chain, + sample in its own and in other wave units), Blackbody.vegamag stars in every (wave, value) unit pair, converted with to-chains and sampled in every wave unit (compared with the SI reference vegaflux*planck_exitance ratio, a star built directly in the target units and a fresh star), integer/list/tuple inputs and scalar/list sample points, vegaflux in '
        'all unit pairs; refused operations (unknown unit, None value unit -> flux); '
        'histories of 2-4 planck_*/Unit.to/flux/vegaflux calls in one process with one argument varied at a time; non-trivial = at least one conversion between two different units')

TOL = 1e-12
NAMES = ['m', 'meter', 'um', 'micron', 'nm', 'nanometer', 'angstrom', 'photlam', 'flam', 'wlam']
WNAMES = NAMES[:7]
WSHORT = ['m', 'um', 'nm', 'angstrom']
FNAMES = ['photlam', 'flam', 'wlam']
CANON = {'m': 'm', 'meter': 'm', 'um': 'um', 'micron': 'um', 'nm': 'nm', 'nanometer': 'nm', 'angstrom': 'angstrom'}
# physical definitions (the oracle's ground truth, independent of the code and of the model)
METRES = {'m': Fraction(1), 'um': Fraction(1, 10 ** 6), 'nm': Fraction(1, 10 ** 9), 'angstrom': Fraction(1, 10 ** 10)}
# independent physical references for the two named laws (CODATA 2018; exact in the 2019 SI)
CODATA = {'h': 6.62607015e-34, 'c': 299792458.0, 'k': 1.380649e-23}
SIGMA = 2 * math.pi ** 5 * CODATA['k'] ** 4 / (15 * CODATA['h'] ** 3 * CODATA['c'] ** 2)     # 5.670374419e-8 W m^-2 K^-4
# roots of x = 5 (1 - exp(-x)) (energy density per wavelength) and x = 4 (1 - exp(-x)) (photon density)
XPEAK = {'wlam': 4.965114231744276, 'flam': 4.965114231744276, 'photlam': 3.9206903948728864}
LAW_TOL = 1e-5          # the source's constants (CODATA 2010, C = 299792456) reproduce both laws to < 1e-6
BANDS = ['U', 'B', 'V', 'R', 'I', 'J', 'H', 'K', 'W1', 'W2', 'W3', 'W4']


def rad():
    return C.import_lentil().radiometry


def code(name):
    n = name.lower()
    return NAMES.index(n) if n in NAMES else 10


def wcanon(name):
    return CANON.get(name.lower())


def fcanon(name):
    n = name.lower()
    return n if n in FNAMES else None


def rcase(rng, name):
    t = rng.random()
    if t < 0.7:
        return name
    if t < 0.85:
        return name.upper()
    return ''.join(ch.upper() if rng.random() < 0.5 else ch for ch in name)


def close(a, b, tol=TOL):
    a, b = float(a), float(b)
    if a == b:
        return True
    if not (math.isfinite(a) and math.isfinite(b)):
        return False
    return abs(a - b) <= tol * max(abs(a), abs(b))


def cancel_tol(x, base):
    """tolerance for a quantity that contains exp(x) - 1 evaluated in floating point: the subtraction loses
    about eps/x relative for small x, on either side of a comparison; never below the base tolerance
    (x >= 0.05 leaves every earlier comparison exactly as it was)"""
    return max(base, 2e-15 / x) if x > 0 else base


def lclose(xs, ys, tol=TOL):
    return len(xs) == len(ys) and all(close(x, y, tol) for x, y in zip(xs, ys))


def trapz(ws, vs):
    return math.fsum(0.5 * (vs[i] + vs[i + 1]) * (ws[i + 1] - ws[i]) for i in range(len(ws) - 1))


# ------------------------------------------------------------------ generated table (regenerated on every check)
TABLE_PATH = os.path.join(C.COQ, 'theories', 'Gen', 'UnitTable.v')
_TAB = {}


TERMS_PATH = os.path.join(C.COQ, 'theories', 'Gen', 'UnitTable.terms.json')


def pregen(tier):
    """regenerate Gen/UnitTable.v.  Wavelength factors and constants are observed; the flux terms are
    translated from source, or - when the translator refuses the form of the source - taken from the
    last successful translation (UnitTable.terms.json, written only from the real tree) and validated
    against the running implementation in extra()."""
    _TAB.clear()
    wtab, ftab, consts, status = G.write(rad(), TABLE_PATH, TERMS_PATH, keep=(C.REPO == '/repo'))
    _TAB.update({'w': wtab, 'f': ftab, 'c': consts, 'status': status})


def table():
    if not _TAB:
        txt, wtab, ftab, consts, status = G.generate(rad(), TERMS_PATH, keep=False)
        _TAB.update({'w': wtab, 'f': ftab, 'c': consts, 'status': status})
    return _TAB


WCON = {'m': 'Wm', 'um': 'Wum', 'nm': 'Wnm', 'angstrom': 'Wangstrom'}
FCON = {'photlam': 'Fphotlam', 'flam': 'Fflam', 'wlam': 'Fwlam'}


# ------------------------------------------------------------------ generators
def rnd_waves(rng, n, unit):
    """strictly increasing positive wavelengths, roughly 200 nm .. 5 um expressed in `unit`"""
    base = sorted({round(rng.uniform(200, 5000), rng.choice([0, 1, 3])) for _ in range(n + 3)})[:n]
    while len(base) < n:
        base.append(base[-1] + 1.0)
    k = float(Fraction(1, 10 ** 9) / METRES[unit])
    return [b * k for b in base]


def rnd_values(rng, n):
    out = []
    for _ in range(n):
        t = rng.random()
        out.append(0.0 if t < 0.12 else round(rng.uniform(0, 10), 3) * 10.0 ** rng.randint(-3, 6))
    if rng.random() < 0.25:          # faint / bright sources: every conversion is linear, so the scale must not matter
        k = 10.0 ** rng.choice([-30, -20, -13, -9, 9, 20, 30])
        out = [v * k for v in out]
    return out


def rnd_chain(rng, start_wu, start_vu, maxlen, close_p=0.5):
    n = rng.randint(1, maxlen)
    args = []
    for _ in range(n):
        if start_vu is None or rng.random() < 0.55:
            args.append(rng.choice(WSHORT))
        else:
            args.append(rng.choice(FNAMES))
    if rng.random() < close_p:                 # come back to the starting units
        tail = [start_wu] + ([start_vu] if start_vu else [])
        rng.shuffle(tail)
        args = (args + tail)[-maxlen:] if len(args) + len(tail) > maxlen else args + tail
    return args


def planck_point(rng, consts, temp=None):
    """(wave in metres, temp) with x = hc/(lambda k T) mostly in [0.05, 50], sometimes in the Rayleigh-Jeans
    regime [1e-6, 0.05] (long wavelengths / hot sources) or in the Wien tail [50, 100]"""
    temp = temp if temp is not None else float(rng.choice([300, 1000, 2500, 4000, 5772, 9602, 25000]) if rng.random() < 0.6
                 else round(rng.uniform(150, 30000), 1))
    t = rng.random()
    lo, hi = (0.05, 50.0) if t < 0.7 else (1e-6, 0.05) if t < 0.92 else (50.0, 100.0)
    x = math.exp(rng.uniform(math.log(lo), math.log(hi)))
    hc_k = float(consts['H'] * consts['C'] / consts['K'])
    return hc_k / (x * temp), temp


def generate(rng, tier):
    quick = tier == 'quick'
    consts = {'H': Fraction(rad().H), 'C': Fraction(rad().C), 'K': Fraction(rad().K)}
    # -- call histories first, so that a replay carries its own history
    for c in seq_cases(rng, quick, consts):
        yield c
    # -- every pair of accepted wavelength names (model + oracle), every triple of units (oracle)
    for a in WNAMES:
        for b in WNAMES:
            yield {'op': 'factor', 'a': rcase(rng, a), 'b': rcase(rng, b)}
    for a in WSHORT:
        for b in WSHORT:
            for c in WSHORT:
                yield {'op': 'factor3', 'a': rcase(rng, a), 'b': rcase(rng, b), 'c': rcase(rng, c)}
    for a, b in [('m', 'furlong'), ('parsec', 'm'), ('photlam', 'm'), ('nm', 'wlam'), ('nm', '')]:
        yield {'op': 'factor', 'a': a, 'b': b}
    # -- all 27 flux triples at random points
    for rep in range(2 if quick else 25):
        for a in FNAMES:
            for b in FNAMES:
                for c in FNAMES:
                    yield {'op': 'flux3', 'a': rcase(rng, a), 'b': rcase(rng, b), 'c': rcase(rng, c),
                           'flux': round(rng.uniform(0.001, 10), 4) * 10.0 ** rng.randint(-20, 20),
                           'wave': round(rng.uniform(1, 10), 4) * 10.0 ** rng.randint(-8, -4)}
    for a, b in [('photlam', 'jansky'), ('flam', 'nm'), ('wlam', 'abmag'), ('nm', 'photlam')]:
        yield {'op': 'flux3', 'a': a, 'b': b, 'c': 'wlam', 'flux': 2.5, 'wave': 5e-7}
    # -- Spectrum.to chains
    for k in range(110 if quick else 2200):
        wu = rng.choice(WSHORT)
        vu = rng.choice(FNAMES + [None]) if rng.random() < 0.85 else None
        n = rng.choice([1, 2, 2, 3, 4, 5, 7])
        c = {'op': 'chain', 'wu': rcase(rng, rng.choice([w for w in WNAMES if CANON[w] == wu])),
             'vu': rcase(rng, vu) if vu else None, 'wave': rnd_waves(rng, n, wu), 'value': rnd_values(rng, n),
             'args': [rcase(rng, a) for a in rnd_chain(rng, wu, vu, 6)]}
        if rng.random() < 0.2:        # array subclasses and non-contiguous views
            c['form'] = rng.choice(['masked', 'masked1', 'subclass', 'strided'])
        elif rng.random() < 0.3:      # integer arrays / lists / tuples as input (integral data, nm or angstrom)
            c['form'] = rng.choice(['int', 'list', 'tuple'])
            if wu in ('nm', 'angstrom'):
                base = sorted(rng.sample(range(300, 30000), n))
                c['wave'] = [float(b) for b in base]
                c['value'] = [float(rng.randint(0, 5000)) for _ in range(n)]
            elif c['form'] == 'int':
                c['form'] = 'list'
        t = rng.random()
        if t < 0.07:
            c['args'].insert(rng.randint(0, len(c['args'])), rng.choice(['furlong', 'jy', 'mm', 'photnu', '', 'none', 'hz']))
        elif t < 0.16 and vu is None:
            c['args'].insert(rng.randint(0, len(c['args'])), rcase(rng, rng.choice(FNAMES)))
        yield c
    # -- Spectrum.sample in another wave unit: all 16 wave-unit pairs x {None, photlam, flam, wlam}
    for rep in range(1 if quick else 8):
        for wu in WSHORT:
            for wb in WSHORT:
                for vu in [None] + FNAMES:
                    for mode in ('grid', 'points'):
                        n = rng.choice([2, 3, 4, 6])
                        wave = rnd_waves(rng, n, wu)
                        c = {'op': 'sample', 'wu': wu, 'vu': vu, 'wave': wave, 'value': rnd_values(rng, n),
                             'wb': rcase(rng, wb) if rep else wb, 'mode': mode, 'points': []}
                        if rng.random() < 0.15:
                            c['form'] = rng.choice(['masked', 'masked1', 'subclass', 'strided'])
                        elif wu in ('nm', 'angstrom') and rng.random() < 0.3:
                            c['form'] = rng.choice(['int', 'list', 'tuple'])
                            c['wave'] = [float(b) for b in sorted(rng.sample(range(300, 30000), n))]
                            c['value'] = [float(rng.randint(0, 5000)) for _ in range(n)]
                            wave = c['wave']
                        if mode == 'points':
                            k = float(METRES[wu] / METRES[wb])
                            lo, hi = wave[0] * k, wave[-1] * k
                            c['points'] = sorted([lo + rng.uniform(0.01, 0.99) * (hi - lo) for _ in range(rng.randint(1, 5))]
                                                 + ([0.5 * lo] if rng.random() < 0.3 else []) + ([2.0 * hi] if rng.random() < 0.3 else []))
                        yield c
    yield {'op': 'sample', 'wu': 'nm', 'vu': 'flam', 'wave': [400.0, 500.0], 'value': [1.0, 2.0], 'wb': 'furlong', 'mode': 'points', 'points': [450.0]}
    # -- Planck in all unit pairs
    reps = 1 if quick else 12
    for rep in range(reps):
        for wn in WNAMES:
            for vn in FNAMES:
                for kind in ('radiance', 'exitance'):
                    wm, temp = planck_point(rng, consts)
                    w = float(Fraction(wm) / METRES[CANON[wn]])
                    c = {'op': 'planck', 'kind': kind, 'wave': w, 'temp': temp, 'wn': rcase(rng, wn), 'vn': rcase(rng, vn)}
                    if rng.random() < 0.4:
                        c['form'] = rng.choice(['np', '0d', '1elem', '1elem_masked'])
                    yield c
    for wn, vn in [('furlong', 'wlam'), ('nm', 'jansky'), ('photlam', 'wlam'), ('um', 'nm')]:
        yield {'op': 'planck', 'kind': 'radiance', 'wave': 500.0, 'temp': 5000.0, 'wn': wn, 'vn': vn}
    # -- Blackbody objects, converted with Spectrum.to
    for k in range(40 if quick else 500):
        wn = rng.choice(WNAMES)
        vn = rng.choice(FNAMES)
        temp = float(rng.choice([3000, 5000, 5772, 8000, 12000]))
        n = rng.choice([1, 2, 3, 5])
        hc_k = float(consts['H'] * consts['C'] / consts['K'])
        xs = sorted({round(math.exp(rng.uniform(math.log(0.3), math.log(30))), 3) for _ in range(n)}, reverse=True)
        waves = [float(Fraction(hc_k / (x * temp)) / METRES[CANON[wn]]) for x in xs]
        yield {'op': 'blackbody', 'waves': waves, 'temp': temp, 'wn': rcase(rng, wn), 'vn': rcase(rng, vn),
               'args': [rcase(rng, a) for a in rnd_chain(rng, CANON[wn], vn, 4, close_p=0.3)],
               'samples': [rcase(rng, rng.choice(WNAMES)) for _ in range(rng.randint(1, 3))],
               'form': rng.choice([None, None, 'masked', 'masked1', 'subclass', 'strided', 'list'])}
    # -- band integrals integrate(start, end) of a spectrum on a dense grid, before and after to(<wave unit>):
    #    bounds half-way between samples, grids from 0.05 nm to 20 nm spacing (in metres that is 5e-11 .. 2e-8)
    for k in range(24 if quick else 300):
        wu = WSHORT[k % 4]
        vu = [None, 'photlam', 'flam', 'wlam'][(k // 4) % 4]
        n = rng.randint(9, 24)
        step = rng.choice([0.05, 0.5, 2.0, 5.0, 20.0])
        start = round(rng.uniform(300, 2000), 1)
        base, x = [], start
        for _ in range(n):
            base.append(x)
            x = round(x + step * rng.choice([1, 1, 1, 2, 3]), 3)
        kk = float(Fraction(1, 10 ** 9) / METRES[wu])
        wave = [b * kk for b in base]
        i0 = rng.randint(1, n - 5)
        i1 = rng.randint(i0 + 3, n - 1)
        yield {'op': 'band', 'wu': wu, 'vu': vu, 'wave': wave, 'value': rnd_values(rng, n),
               'lo': 0.5 * (wave[i0 - 1] + wave[i0]), 'hi': 0.5 * (wave[i1 - 1] + wave[i1]),
               'form': rng.choice([None, None, None, 'masked', 'masked1', 'subclass', 'list'])}
    # -- large arrays (sizes beyond 2**20, not multiples of a block size): described by parameters, judged at sampled indices
    for n in ([2 ** 20 + 3] if quick else [2 ** 20 + 3, 3 * 2 ** 20 + 7, 2 ** 21]):
        wu, vu = rng.choice(WSHORT), rng.choice(FNAMES)
        yield {'op': 'big', 'kind': 'chain', 'n': n, 'wu': wu, 'vu': vu, 'lo_nm': 300.0, 'hi_nm': 2500.0,
               'args': rnd_chain(rng, wu, vu, 4, close_p=0.0)}
        yield {'op': 'big', 'kind': 'planck', 'n': n, 'wu': rng.choice(WNAMES), 'vu': rng.choice(FNAMES), 'lo_nm': 300.0, 'hi_nm': 2500.0,
               'temp': 5772.0, 'args': []}
    # -- the two physical laws the property names, against independent references (numeric TESTS, not proofs)
    for temp in ([300.0, 5772.0] if quick else [77.0, 300.0, 1000.0, 2856.0, 5772.0, 12000.0, 40000.0]):
        for wn in WSHORT:
            for vn in FNAMES:
                yield {'op': 'wien', 'temp': temp, 'wn': wn, 'vn': vn}
            for vn in ('wlam', 'flam'):
                yield {'op': 'stefan_boltzmann', 'temp': temp, 'wn': wn, 'vn': vn}
    # -- vegaflux
    bands = BANDS if not quick else rng.sample(BANDS, 4)
    for band in bands:
        for wn in (WNAMES if not quick else WSHORT):
            for vn in FNAMES:
                yield {'op': 'vega', 'band': band if rng.random() < 0.7 else band.lower(), 'wn': rcase(rng, wn), 'vn': rcase(rng, vn)}
    # -- objects whose table was edited in place (value assignment, pad, append) and THEN converted: to() must merely
    #    rescale the table it finds, for a Blackbody / vegamag star exactly as for a plain Spectrum
    for k in range(36 if quick else 400):
        wn, vn = rng.choice(WSHORT), rng.choice(FNAMES)
        temp = float(rng.choice([3000, 5772, 9602]))
        n = rng.choice([2, 3, 4])
        waves = rnd_waves(rng, n, wn)
        kind = ['value', 'pad', 'append', 'scale'][k % 4]
        edit = {'kind': kind}
        if kind == 'value':
            edit['factors'] = [0.0 if rng.random() < 0.3 else round(rng.uniform(0.1, 3.0), 3) for _ in range(n)]
        elif kind == 'pad':
            step = min(b - a for a, b in zip(waves, waves[1:]))
            edit['ends'] = [waves[0] - step * rng.randint(1, 3), waves[-1] + step * rng.randint(1, 3)]
            if edit['ends'][0] <= 0:
                edit['ends'][0] = waves[0] * 0.5
        elif kind == 'append':
            # Spectrum.append compares the two wavelength arrays element-wise: same length as the object (C15's subject)
            edit['wave'] = [waves[-1] * (1.5 + 0.5 * i) for i in range(n)]
            edit['value'] = [0.0] + [round(rng.uniform(0.0, 5.0), 3) for _ in range(n - 1)]
        else:
            edit['factor'] = round(rng.uniform(0.1, 10.0), 3)
        c = {'op': 'edited', 'cls': ['blackbody', 'vegamag', 'spectrum'][k % 3], 'waves': waves, 'temp': temp, 'wn': wn, 'vn': vn,
             'edit': edit, 'args': [rcase(rng, a) for a in rnd_chain(rng, wn, vn, 3, close_p=0.4)]}
        if c['cls'] == 'vegamag':
            c['band'], c['mag'] = rng.choice(BANDS[:8]), float(rng.randint(0, 10))
        yield c
    # -- integer-typed wavelength grids (np.arange and friends) at magnitudes where integer powers would wrap:
    #    the result must be that of the same grid as floats
    for k in range(24 if quick else 160):
        wn = WSHORT[k % 4]
        dt = ['int64', 'int32', 'uint16', 'int64'][(k // 4) % 4]
        lo, hi = {'angstrom': (4000, 30000), 'nm': (300, 15000), 'um': (1, 40), 'm': (1, 5)}[wn]
        n = rng.randint(2, 6)
        grid = sorted(rng.sample(range(lo, hi + 1), min(n, hi - lo + 1)))
        yield {'op': 'intgrid', 'waves': grid, 'dtype': dt, 'wn': rcase(rng, wn), 'vn': rcase(rng, rng.choice(FNAMES)),
               'temp': float(rng.choice([300, 2856, 5772, 12000])), 'su': rng.choice(WSHORT)}
    # -- the caller's numpy error state: results and refusals of planck_* / Blackbody must not depend on it, and the
    #    library must leave it as it found it
    for k in range(24 if quick else 200):
        temp = float(rng.choice([200, 300, 1000, 5772]))
        wn, vn = rng.choice(WNAMES), rng.choice(FNAMES)
        hc_k = float(consts['H'] * consts['C'] / consts['K'])
        xs = sorted({round(math.exp(rng.uniform(math.log(0.5), math.log(60))), 3) for _ in range(rng.randint(2, 5))}, reverse=True)
        if k % 2 == 0:
            xs = [round(rng.uniform(720, 900), 1)] + xs              # one sample whose exp() overflows
        waves = [float(Fraction(hc_k / (x * temp)) / METRES[CANON[wn]]) for x in xs]
        yield {'op': 'errstate', 'target': ['radiance', 'exitance', 'blackbody'][k % 3], 'waves': waves, 'temp': temp,
               'wn': wn, 'vn': vn, 'state': ['raise', 'raise', 'ignore', 'call'][(k // 2) % 4]}
    # -- Blackbody.vegamag stars: built in every unit pair, converted, sampled in every wave unit (oracle only)
    for c in star_cases(rng, quick):
        yield c
    # -- Blackbody.vegamag (oracle only)
    for k in range(6 if quick else 60):
        wn = rng.choice(WSHORT)
        band = rng.choice(BANDS[:8])
        waves = rnd_waves(rng, 3, wn)
        yield {'op': 'vegamag', 'band': band, 'waves': waves, 'temp': float(rng.choice([4000, 5772, 9602])),
               'mag': float(rng.randint(-1, 12)), 'wn': wn, 'vn': FNAMES[k % 3]}


def star_cases(rng, quick):
    combos = [(wn, vn, su) for wn in WSHORT for vn in FNAMES for su in WSHORT]       # 48: every pair x every sample unit
    reps = 1 if quick else 6
    for rep in range(reps):
        for wn, vn, su in combos:
            band = rng.choice(BANDS[:8])
            args = [] if rng.random() < 0.5 else rnd_chain(rng, wn, vn, 3, close_p=0.2)
            others = [rng.choice(WNAMES) for _ in range(rng.randint(0, 2))]
            yield {'op': 'vegastar', 'band': band, 'waves': rnd_waves(rng, rng.choice([1, 2, 3]), wn),
                   'temp': float(rng.choice([4000, 5772, 9602])), 'mag': float(rng.randint(-1, 12)),
                   'wn': wn, 'vn': vn, 'args': [rcase(rng, a) for a in args],
                   'samples': [rcase(rng, su)] + [rcase(rng, o) for o in others] + ([su] if others else [])}


def seq_cases(rng, quick, consts):
    """histories of 2-4 calls in one process with one argument varied at a time (state carried between calls,
    caches keyed on too little); every call is judged on its own by the oracle, the whole history is in the case"""
    for k in range(36 if quick else 400):
        kind = ['planck', 'planck', 'factor', 'flux', 'vega'][k % 5]
        n = rng.randint(2, 4)
        calls = []
        if kind == 'planck':
            wm, temp = planck_point(rng, consts)
            wn, vn, pk = rng.choice(WNAMES), rng.choice(FNAMES), rng.choice(['radiance', 'exitance'])
            vary = rng.choice(['wn', 'vn', 'kind', 'wave'])
            for _ in range(n):
                calls.append({'op': 'planck', 'kind': pk, 'wave': float(Fraction(wm) / METRES[CANON[wn]]), 'temp': temp,
                              'wn': rcase(rng, wn), 'vn': rcase(rng, vn)})
                if vary == 'wn':
                    wn = rng.choice([w for w in WNAMES if CANON[w] != CANON[wn]])
                elif vary == 'vn':
                    vn = rng.choice([v for v in FNAMES if v != vn])
                elif vary == 'kind':
                    pk = 'exitance' if pk == 'radiance' else 'radiance'
                else:
                    wm, _ = planck_point(rng, consts, temp)
        elif kind == 'factor':
            a, b = rng.choice(WNAMES), rng.choice(WNAMES)
            for _ in range(n):
                calls.append({'op': 'factor', 'a': rcase(rng, a), 'b': rcase(rng, b)})
                if rng.random() < 0.5:
                    a = rng.choice([w for w in WNAMES if CANON[w] != CANON[a]])
                else:
                    b = rng.choice([w for w in WNAMES if CANON[w] != CANON[b]])
        elif kind == 'flux':
            a, b, cc = rng.choice(FNAMES), rng.choice(FNAMES), rng.choice(FNAMES)
            f = round(rng.uniform(0.001, 10), 4) * 10.0 ** rng.randint(-10, 10)
            w = round(rng.uniform(1, 10), 4) * 10.0 ** rng.randint(-8, -5)
            for _ in range(n):
                calls.append({'op': 'flux3', 'a': a, 'b': b, 'c': cc, 'flux': f, 'wave': w})
                t = rng.random()
                if t < 0.4:
                    b = rng.choice([v for v in FNAMES if v != b])
                elif t < 0.7:
                    a = rng.choice([v for v in FNAMES if v != a])
                else:
                    w = w * 10.0
        else:
            band, wn, vn = rng.choice(BANDS), rng.choice(WNAMES), rng.choice(FNAMES)
            for _ in range(n):
                calls.append({'op': 'vega', 'band': band, 'wn': rcase(rng, wn), 'vn': rcase(rng, vn)})
                t = rng.random()
                if t < 0.4:
                    wn = rng.choice([w for w in WNAMES if CANON[w] != CANON[wn]])
                elif t < 0.8:
                    vn = rng.choice([v for v in FNAMES if v != vn])
                else:
                    band = rng.choice([x for x in BANDS if x != band])
        yield {'op': 'seq', 'kind': kind, 'calls': calls}


def brief(sc):
    if sc['op'] == 'planck':
        return f'planck_{sc["kind"]}({sc["wave"]!r}, {sc["temp"]!r}, {sc["wn"]!r}, {sc["vn"]!r})'
    if sc['op'] == 'factor':
        return f'Unit({sc["a"]!r}).to({sc["b"]!r})'
    if sc['op'] == 'flux3':
        return f'Unit({sc["a"]!r}).to({sc["flux"]!r}, {sc["b"]!r}, {sc["wave"]!r})'
    if sc['op'] == 'vega':
        return f'vegaflux({sc["band"]!r}, {sc["wn"]!r}, {sc["vn"]!r})'
    return sc['op']


def sample_points(c, su):
    """the wavelengths of a blackbody / vegastar case expressed in the unit su (physical definition of the units)"""
    k = truth_factor(wcanon(c['wn']), wcanon(su))
    return [w * k for w in c['waves']]


def vega_entry(band):
    """the band's table entry as the model wants it: (w0 metres, Jansky), from the implementation's SI observation"""
    f0, w0 = rad().vegaflux(band, 'm', 'photlam')
    w0 = Fraction(float(w0))
    return w0, Fraction(float(f0)) * table()['c']['H'] * w0 * 10 ** 26


def enc_samples(c, temp):
    out = [len(c.get('samples', []))]
    xs = []
    for su in c.get('samples', []):
        pts = sample_points(c, su)
        out += [code(su)] + C.enc_list(pts, C.enc_q)
        xs += [planck_x(p, temp, su) for p in pts]
    return out, xs


def first_refused(c):
    """index of the first argument of a chain that Spectrum.to must refuse, or None"""
    vu = fcanon(c['vu']) if c['vu'] else None
    for k, a in enumerate(c['args']):
        if code(a) == 10 or (vu is None and fcanon(a)):
            return k
        if fcanon(a):
            vu = fcanon(a)
    return None


def same_state(p, q, tol=TOL):
    return (p['wu'], p['vu']) == (q['wu'], q['vu']) and lclose(p['wave'], q['wave'], tol) and lclose(p['value'], q['value'], tol)


def classify(c):
    op = c['op']
    if op == 'chain':
        bad = any(code(a) == 10 for a in c['args']) or (c['vu'] is None and any(fcanon(a) for a in c['args']))
        return (f'chain/{"unitless" if c["vu"] is None else "density"}/len{len(c["args"])}{"/refused" if bad else ""}'
                + (f'/{c["form"]}' if c.get('form') else ''))
    if op == 'planck':
        return f'planck/{c["kind"]}' + (f'/{c["form"]}' if c.get('form') else '')
    if op == 'sample':
        return f'sample/{"unitless" if c["vu"] is None else "density"}/{c["mode"]}' + (f'/{c["form"]}' if c.get('form') else '')
    if op == 'vegastar':
        return 'vegastar/' + ('converted' if c['args'] else 'as-built')
    if op == 'seq':
        return f'history/{c["kind"]}/{len(c["calls"])}'
    if op in ('wien', 'stefan_boltzmann'):
        return 'TEST/' + op
    if op == 'edited':
        return f'edited/{c["cls"]}/{c["edit"]["kind"]}'
    if op == 'intgrid':
        return f'intgrid/{c["dtype"]}'
    if op == 'errstate':
        return f'errstate/{c["target"]}/{c["state"]}'
    if op == 'band':
        return f'band/{"unitless" if c["vu"] is None else "density"}' + (f'/{c["form"]}' if c.get('form') else '')
    if op == 'big':
        return f'big/{c["kind"]}'
    return op


def nontrivial(c):
    op = c['op']
    if op == 'factor':
        return wcanon(c['a']) is not None and wcanon(c['b']) is not None and wcanon(c['a']) != wcanon(c['b'])
    if op == 'factor3':
        return len({wcanon(c['a']), wcanon(c['b']), wcanon(c['c'])}) == 3
    if op == 'flux3':
        return all(fcanon(c[k]) for k in 'abc') and fcanon(c['a']) != fcanon(c['b'])
    if op == 'chain':
        return len(c['args']) >= 2 and len(c['wave']) >= 2 and len({a.lower() for a in c['args']}) >= 2
    if op == 'sample':
        return wcanon(c['wb']) is not None and wcanon(c['wb']) != wcanon(c['wu'])
    if op in ('planck', 'vega'):
        return wcanon(c['wn']) not in (None, 'm') or fcanon(c['vn']) not in (None, 'wlam')
    return True


# ------------------------------------------------------------------ model side
def exp_table(xs):
    out = []
    for x in xs:
        out.append((x, Fraction(math.exp(float(x)))))
    return out


def planck_x(wave, temp, wn):
    """the argument of np.exp as the model computes it (exact), or None when the model raises first"""
    t = table()
    a = wcanon(wn)
    if a is None:
        return None
    wm = Fraction(wave) * t['w'][(WCON[a], 'Wm')]
    return t['c']['H'] * t['c']['C'] / (wm * t['c']['K'] * Fraction(temp))


def enc_names(names):
    return [len(names)] + [code(n) for n in names]


def enc_tab(tab):
    out = [len(tab)]
    for x, e in tab:
        out += C.enc_q(x) + C.enc_q(e)
    return out


def encode(c):
    op = c['op']
    if op in ('factor', 'factor3'):
        return [1, code(c['a']), code(c['b'])]
    if op == 'flux3':
        return [2, code(c['a']), code(c['b'])] + C.enc_q(c['flux']) + C.enc_q(c['wave'])
    if op == 'chain':
        wu = WSHORT.index(wcanon(c['wu']))
        vu = [0] if c['vu'] is None else [1, FNAMES.index(fcanon(c['vu']))]
        return ([8, wu] + vu + C.enc_list(c['wave'], C.enc_q) + C.enc_list(c['value'], C.enc_q) + enc_names(c['args']))
    if op == 'planck':
        x = planck_x(c['wave'], c['temp'], c['wn'])
        tab = exp_table([x]) if x is not None else []
        return ([4, 0 if c['kind'] == 'radiance' else 1] + C.enc_q(c['wave']) + C.enc_q(c['temp'])
                + [code(c['wn']), code(c['vn'])] + C.enc_q(math.pi) + enc_tab(tab))
    if op == 'sample':
        wu = WSHORT.index(wcanon(c['wu']))
        vu = [0] if c['vu'] is None else [1, FNAMES.index(fcanon(c['vu']))]
        return ([7, wu] + vu + C.enc_list(c['wave'], C.enc_q) + C.enc_list(c['value'], C.enc_q) + [code(c['wb'])]
                + [0 if c['mode'] == 'points' else 1] + C.enc_list(c['points'], C.enc_q))
    if op == 'vega':
        return None          # needs the SI observation: encoded in compare through encode_vega
    if op == 'blackbody':
        xs = [planck_x(w, c['temp'], c['wn']) for w in c['waves']]
        tab = exp_table([x for x in xs if x is not None])
        sm, xs2 = enc_samples(c, c['temp'])
        tab = exp_table(sorted({x for x in xs + xs2 if x is not None}))
        return ([9] + C.enc_list(c['waves'], C.enc_q) + C.enc_q(c['temp']) + [code(c['wn']), code(c['vn'])]
                + enc_tab(tab) + enc_names(c['args']) + sm)
    if op == 'vegastar':
        try:                      # the table entry is observed through the implementation: if that fails or is
            w0, jy = vega_entry(c['band'])      # degenerate the case is left to the oracle
            t = table()
            xs = [planck_x(w, c['temp'], c['wn']) for w in c['waves']]
            xs.append(t['c']['H'] * t['c']['C'] / (w0 * t['c']['K'] * Fraction(c['temp'])))
            sm, xs2 = enc_samples(c, c['temp'])
            tab = exp_table(sorted({x for x in xs + xs2 if x is not None}))
        except Exception:
            return None
        return ([10] + C.enc_q(w0) + C.enc_q(jy) + C.enc_q(10 ** (-0.4 * c['mag'])) + C.enc_q(c['temp'])
                + C.enc_list(c['waves'], C.enc_q) + [code(c['wn']), code(c['vn'])] + C.enc_q(math.pi)
                + enc_tab(tab) + enc_names(c['args']) + sm)
    return None


def dec_spec(rd):
    wu = WSHORT[rd.z()]
    vu = rd.opt(lambda: FNAMES[rd.z()])
    wave = rd.lst(rd.q)
    value = rd.lst(rd.q)
    integ = rd.q()
    return {'wu': wu, 'vu': vu, 'wave': wave, 'value': value, 'integral': integ}


def decode(c, ints):
    rd = C.Reader(ints)
    st = rd.z()
    if st == 1:
        return {'err': C.ERRNAMES[rd.z()]}
    op = c['op']
    if op in ('factor', 'factor3', 'flux3', 'planck'):
        return {'v': rd.q()}
    if op == 'chain':          # op 8: the object after the call and the exception, if any
        sp = dec_spec(rd)
        e = rd.opt(rd.z)
        if e is not None:
            return {'err': C.ERRNAMES[e], 'state': sp}
        return sp
    if op == 'blackbody':
        sp = dec_spec(rd)
        sp['cross'] = [rd.lst(rd.q) for _ in c.get('samples', [])]
        return sp
    if op == 'vegastar':
        v0 = rd.lst(rd.q)
        sp = dec_spec(rd)
        return {'value0': v0, 'state': sp, 'samples': [rd.lst(rd.q) for _ in c['samples']]}
    if op == 'sample':
        return {'values': rd.lst(rd.q)}
    raise ValueError(op)


# ------------------------------------------------------------------ implementation side
def fl(x):
    return [float(v) for v in np.atleast_1d(np.asarray(x, dtype=float))]


def arr(xs, form):
    """the input data in one of the documented forms: float64 array, integer array, list, tuple"""
    if form == 'int':
        return np.array([int(x) for x in xs], dtype=np.int64)
    if form == 'list':
        return [float(x) for x in xs]
    if form == 'tuple':
        return tuple(float(x) for x in xs)
    if form == 'masked':            # numpy array subclasses are legal array_like inputs
        return np.ma.MaskedArray(np.array(xs, dtype=float))
    if form == 'masked1':           # with one masked entry: np.asarray gives the data, the mask is not part of a Spectrum
        m = np.zeros(len(xs), dtype=bool)
        m[len(xs) // 2] = True
        return np.ma.MaskedArray(np.array(xs, dtype=float), mask=m)
    if form == 'subclass':
        return np.array(xs, dtype=float).view(TaggedArray)
    if form == 'strided':           # a non-contiguous view
        big = np.zeros(2 * len(xs))
        big[::2] = xs
        return big[::2]
    return np.array(xs, dtype=float)


class TaggedArray(np.ndarray):
    """an ndarray subclass carrying metadata"""
    tag = 'metadata'

    def __array_finalize__(self, obj):
        self.tag = getattr(obj, 'tag', 'metadata')


def scalar(x, form):
    """one wavelength in the documented forms: float, numpy float, 0-d array, one-element array, int"""
    if form == 'np':
        return np.float64(x)
    if form == '0d':
        return np.array(float(x))
    if form == '1elem':
        return np.array([float(x)])
    if form == '1elem_masked':
        return np.ma.MaskedArray(np.array([float(x)]))
    if form == 'int':
        return int(x)
    return float(x)


def big_indices(n):
    """first, last, a stride through the array and the neighbours of every power of two"""
    idx = {0, 1, n - 2, n - 1} | set(range(0, n, max(1, n // 997)))
    p = 2
    while p < n:
        idx |= {i for i in (p - 1, p, p + 1) if 0 <= i < n}
        p *= 2
    return sorted(idx)


def snap(s):
    w, v = fl(s.wave), fl(s.value)
    out = {'wu': s.waveunit, 'vu': s.valueunit, 'wave': w, 'value': v, 'integral': trapz(w, v)}
    try:
        out['integrate'] = float(s.integrate(method='trapz')) if len(w) > 1 else None
    except Exception as e:          # integrate() itself belongs to C15; only its value is used here
        out['integrate'] = None
    return out


def run_impl(c):
    R = rad()
    op = c['op']
    if op == 'seq':
        # a history starts from a fresh module state (module-level caches are re-initialised), so that what it
        # shows does not depend on the cases run before it and a replay in a new process reproduces it
        import importlib
        try:
            importlib.reload(R)
        except Exception:
            pass
        return {'results': [run_impl(sc) for sc in c['calls']]}
    try:
        if op == 'factor':
            return {'v': float(R.Unit(c['a']).to(c['b']))}
        if op == 'factor3':
            a, b, cc = c['a'], c['b'], c['c']
            return {'v': float(R.Unit(a).to(b)), 'bc': float(R.Unit(b).to(cc)), 'ac': float(R.Unit(a).to(cc)),
                    'ba': float(R.Unit(b).to(a)), 'aa': float(R.Unit(a).to(a))}
        if op == 'flux3':
            a, b, cc, f, w = c['a'], c['b'], c['c'], c['flux'], c['wave']
            ab = R.Unit(a).to(f, b, w)
            return {'v': float(ab), 'bc': float(R.Unit(b).to(ab, cc, w)), 'ac': float(R.Unit(a).to(f, cc, w)),
                    'ba': float(R.Unit(b).to(ab, a, w)), 'aa': float(R.Unit(a).to(f, a, w))}
        if op == 'chain':
            k = first_refused(c)
            if k is not None:
                # a refused call: the exception and what the object holds afterwards, against an object that was
                # only given the accepted arguments before the refused one
                s2 = R.Spectrum(arr(c['wave'], c.get('form')), arr(c['value'], c.get('form')), c['wu'], c['vu'])
                try:
                    s2.to(*c['args'])
                    return {'state': snap(s2), 'accepted': True}
                except Exception as e:
                    err = type(e).__name__
                s4 = R.Spectrum(arr(c['wave'], c.get('form')), arr(c['value'], c.get('form')), c['wu'], c['vu'])
                s4.to(*c['args'][:k])
                s5 = R.Spectrum(arr(c['wave'], c.get('form')), arr(c['value'], c.get('form')), c['wu'], c['vu'])
                return {'err': err, 'state': snap(s2), 'prefix': snap(s4), 'initial': snap(s5)}
            s = R.Spectrum(arr(c['wave'], c.get('form')), arr(c['value'], c.get('form')), c['wu'], c['vu'])
            steps = [snap(s)]
            for a in c['args']:
                s.to(a)
                steps.append(snap(s))
            s2 = R.Spectrum(arr(c['wave'], c.get('form')), arr(c['value'], c.get('form')), c['wu'], c['vu'])
            s2.to(*c['args'])
            s3 = R.Spectrum(arr(c['wave'], c.get('form')), arr(c['value'], c.get('form')), c['wu'], c['vu'])
            fin = steps[-1]
            s3.to(*([fin['wu']] + ([fin['vu']] if fin['vu'] else [])))
            return {'steps': steps, 'once': snap(s2), 'direct': snap(s3)}
        if op == 'sample':
            mk = lambda: R.Spectrum(arr(c['wave'], c.get('form')), arr(c['value'], c.get('form')), c['wu'], c['vu'])
            conv = mk()
            conv.to(c['wb'])
            cs = snap(conv)
            pts = np.array(cs['wave'] if c['mode'] == 'grid' else c['points'], dtype=float)
            s = mk()
            before = snap(s)
            if c['wb'] == 'nm' and len(c['wave']) % 2 == 0:
                got = fl(s.sample(pts))                      # waveunit defaults to 'nm'
            elif len(pts) == 1:
                got = fl(s.sample(float(pts[0]), waveunit=c['wb']))      # a scalar wavelength
            elif len(pts) % 2 == 0:
                got = fl(s.sample([float(x) for x in pts], waveunit=c['wb']))   # a list
            else:
                got = fl(s.sample(pts, waveunit=c['wb']))
            after = snap(s)
            return {'values': got, 'points': fl(pts), 'before': before, 'after': after, 'converted': cs,
                    'ref': fl(conv.sample(pts, waveunit=cs['wu']))}
        if op == 'planck':
            w, t, wn, vn = scalar(c['wave'], c.get('form')), c['temp'], c['wn'], c['vn']
            out = {'rad': fl(R.planck_radiance(w, t, wn, vn))[0], 'exi': fl(R.planck_exitance(w, t, wn, vn))[0]}
            w = c['wave']
            wm = float(Fraction(w) * METRES[wcanon(wn)])
            out['si_rad'] = float(R.planck_radiance(wm, t, 'm', 'wlam'))
            out['wm'] = wm
            out['v'] = out['rad'] if c['kind'] == 'radiance' else out['exi']
            return out
        if op == 'blackbody':
            bb = R.Blackbody(arr(c['waves'], c.get('form')), c['temp'], c['wn'], c['vn'])
            first = snap(bb)
            bb.to(*c['args'])
            fin = snap(bb)
            direct = R.Blackbody(np.array(fin['wave'], dtype=float), c['temp'], fin['wu'], fin['vu'])
            fin['first'] = first
            fin['direct'] = fl(direct.value)
            fin['sample'] = fl(bb.sample(np.array(fin['wave'], dtype=float), fin['wu']))
            fin['rad0'] = fl(R.planck_radiance(np.array(c['waves'], dtype=float), c['temp'], c['wn'], c['vn']))
            fin['cross'] = []
            for su in c.get('samples', []):          # the same object sampled in other wave units, one call after the other
                pts = np.array(sample_points(c, su), dtype=float)
                got = fl(bb.sample(pts, su) if su != 'nm' else bb.sample(pts))
                now = snap(bb)
                fin['cross'].append({'unit': su, 'points': fl(pts), 'values': got,
                                     'direct': fl(R.Blackbody(pts, c['temp'], wcanon(su), fin['vu']).value),
                                     'untouched': (now['wu'], now['vu'], now['wave'], now['value']) == (fin['wu'], fin['vu'], fin['wave'], fin['value'])})
            return fin
        if op == 'vega':
            f, w = R.vegaflux(c['band'], c['wn'], c['vn'])
            f0, w0 = R.vegaflux(c['band'], 'm', 'photlam')
            return {'flux': float(f), 'wave': float(w), 'si_flux': float(f0), 'si_wave': float(w0)}
        if op == 'band':
            mk = lambda: R.Spectrum(arr(c['wave'], c.get('form')), arr(c['value'], c.get('form')), c['wu'], c['vu'])

            def integ(sp, lo, hi):
                out = {}
                for meth in ('trapz', 'simps'):
                    out[meth] = float(sp.integrate(lo, hi, method=meth))
                out['all_trapz'] = float(sp.integrate(method='trapz'))
                return out
            s0 = mk()
            out = {'own': integ(s0, c['lo'], c['hi']), 'to': {}}
            chain = mk()
            out['chained'] = {}
            for b in WSHORT:
                k = truth_factor(wcanon(c['wu']), b)
                sp = mk()
                sp.to(b)
                out['to'][b] = integ(sp, c['lo'] * k, c['hi'] * k)
                chain.to(b)                                   # one object carried through every unit in turn
                out['chained'][b] = integ(chain, c['lo'] * k, c['hi'] * k)
            return out
        if op == 'big':
            n = c['n']
            k = float(Fraction(1, 10 ** 9) / METRES[wcanon(c['wu'])])
            wave = np.linspace(c['lo_nm'] * k, c['hi_nm'] * k, n)
            idx = big_indices(n)
            if c['kind'] == 'planck':
                full = np.asarray(R.planck_radiance(wave, c['temp'], c['wu'], c['vu']), dtype=float)
                one = [float(R.planck_radiance(float(wave[i]), c['temp'], c['wu'], c['vu'])) for i in idx[:60]]
                return {'n': int(full.size), 'at': [float(full[i]) for i in idx], 'single': one}
            value = 1.0 + (np.arange(n) % 7) * 0.25
            sp = R.Spectrum(wave, value, c['wu'], c['vu'])
            total0 = float(sp.integrate(method='trapz'))
            sp.to(*c['args'])
            w, v = np.asarray(sp.wave, dtype=float), np.asarray(sp.value, dtype=float)
            return {'n': int(w.size), 'nv': int(v.size), 'wu': sp.waveunit, 'vu': sp.valueunit, 'wave_at': [float(w[i]) for i in idx],
                    'value_at': [float(v[i]) for i in idx], 'total0': total0, 'total': float(sp.integrate(method='trapz')),
                    'finite': bool(np.all(np.isfinite(v)) and np.all(np.isfinite(w)))}
        if op == 'wien':
            m = float(METRES[c['wn']])
            lam0 = CODATA['h'] * CODATA['c'] / (CODATA['k'] * c['temp'] * XPEAK[c['vn']]) / m
            coarse = lam0 * np.linspace(0.25, 4.0, 7501)                       # step 5e-4 of the expected peak
            vals = np.asarray(R.planck_radiance(coarse, c['temp'], c['wn'], c['vn']), dtype=float)
            g = float(coarse[int(np.argmax(vals))])
            u = np.linspace(-1.0, 1.0, 401)                                    # window +-2e-3 around the coarse maximum
            fine = g * (1.0 + 2e-3 * u)
            lv = np.log(np.asarray(R.planck_radiance(fine, c['temp'], c['wn'], c['vn']), dtype=float))
            co = np.polyfit(u, lv - lv.max(), 3)
            roots = [r.real for r in np.roots(np.polyder(co)) if abs(r.imag) < 1e-12 and abs(r.real) <= 1.5]
            peak = g * (1.0 + 2e-3 * min(roots, key=abs)) if roots else g
            return {'peak': float(peak), 'coarse': g}
        if op == 'stefan_boltzmann':
            m = float(METRES[c['wn']])
            hc_kt = CODATA['h'] * CODATA['c'] / (CODATA['k'] * c['temp']) / m
            grid = np.exp(np.linspace(math.log(hc_kt / 80.0), math.log(hc_kt / 0.004), 40001))
            vals = np.asarray(R.planck_exitance(grid, c['temp'], c['wn'], c['vn']), dtype=float)
            return {'total': float(np.sum(0.5 * (vals[1:] + vals[:-1]) * np.diff(grid)))}
        if op == 'edited':
            w = np.array(c['waves'], dtype=float)
            if c['cls'] == 'blackbody':
                obj = R.Blackbody(w, c['temp'], c['wn'], c['vn'])
            elif c['cls'] == 'vegamag':
                obj = R.Blackbody.vegamag(w, c['temp'], c['mag'], c['band'], c['wn'], c['vn'])
            else:
                obj = R.Spectrum(w, np.asarray(R.planck_radiance(w, c['temp'], c['wn'], c['vn']), dtype=float), c['wn'], c['vn'])
            e = c['edit']
            if e['kind'] == 'value':
                obj.value = obj.value * np.array(e['factors'], dtype=float)
            elif e['kind'] == 'scale':
                obj.value = obj.value * e['factor']
            elif e['kind'] == 'pad':
                obj.pad(e['ends'])
            else:
                unit = np.max(obj.value)
                obj.append(R.Spectrum(np.array(e['wave'], dtype=float), np.array(e['value'], dtype=float) * unit, obj.waveunit, obj.valueunit))
            table_ = snap(obj)
            plain = R.Spectrum(np.array(table_['wave'], dtype=float), np.array(table_['value'], dtype=float), table_['wu'], table_['vu'])
            obj.to(*c['args'])
            plain.to(*c['args'])
            return {'table': table_, 'after': snap(obj), 'plain': snap(plain), 'type': type(obj).__name__}
        if op == 'intgrid':
            out = {}
            for tag, w in (('int', np.array(c['waves'], dtype=c['dtype'])), ('float', np.array(c['waves'], dtype=float))):
                before = w.copy()
                bb = R.Blackbody(w, c['temp'], c['wn'], c['vn'])
                k = truth_factor(wcanon(c['wn']), c['su'])
                out[tag] = {'rad': fl(R.planck_radiance(w, c['temp'], c['wn'], c['vn'])),
                            'exi': fl(R.planck_exitance(w, c['temp'], c['wn'], c['vn'])),
                            'bb': fl(bb.value), 'bb_sample': fl(bb.sample(w, c['wn'])),
                            'bb_cross': fl(bb.sample(np.array(c['waves'], dtype=float) * k, c['su'])),
                            'scalar_rad': [float(R.planck_radiance(x, c['temp'], c['wn'], c['vn'])) for x in w[:2]],
                            'scalar_exi': [float(R.planck_exitance(x, c['temp'], c['wn'], c['vn'])) for x in w[:2]],
                            'input_kept': bool(np.array_equal(w, before) and w.dtype == before.dtype)}
            return out
        if op == 'errstate':
            w = np.array(c['waves'], dtype=float)

            def call():
                if c['target'] == 'blackbody':
                    return fl(R.Blackbody(w, c['temp'], c['wn'], c['vn']).value)
                fn = R.planck_radiance if c['target'] == 'radiance' else R.planck_exitance
                return fl(fn(w, c['temp'], c['wn'], c['vn']))
            with np.errstate(all='warn'):
                ref = call()
            out = {'ref': ref}
            before = np.geterr()
            seen = []
            handler = np.geterrcall()
            try:
                if c['state'] == 'call':
                    np.seterrcall(lambda kind, flag: seen.append(kind))
                st = {'raise': dict(over='raise', invalid='raise', divide='raise', under='ignore'),
                      'ignore': dict(all='ignore'), 'call': dict(over='call', invalid='call', divide='call', under='ignore')}[c['state']]
                with np.errstate(**st):
                    inside = np.geterr()
                    try:
                        out['values'] = call()
                    except FloatingPointError:
                        out['raised'] = 'FloatingPointError'
                    out['state_kept_inside'] = np.geterr() == inside
            finally:
                np.seterrcall(handler)
            out['state_kept'] = np.geterr() == before
            return out
        if op == 'vegastar':
            w = np.array(c['waves'], dtype=float)

            def mk():
                st = R.Blackbody.vegamag(w, c['temp'], c['mag'], c['band'], c['wn'], c['vn'])
                if c['args']:
                    st.to(*c['args'])
                return st
            star = R.Blackbody.vegamag(w, c['temp'], c['mag'], c['band'], c['wn'], c['vn'])
            out = {'value0': fl(star.value)}
            if c['args']:
                star.to(*c['args'])
            st = snap(star)
            out['state'] = st
            e0, w0 = R.vegaflux(c['band'], 'm', 'wlam')
            wm = np.array(st['wave'], dtype=float) * float(METRES[st['wu']])
            out['wm'] = fl(wm)
            out['si_ref'] = fl(e0 * R.planck_exitance(wm, c['temp'], 'm', 'wlam') / R.planck_exitance(w0, c['temp'], 'm', 'wlam')
                               * 10 ** (-0.4 * c['mag']))
            out['samples'] = []
            for su in c['samples']:
                pts = np.array(sample_points(c, su), dtype=float)
                got = fl(star.sample(pts, waveunit=su) if su != 'nm' else star.sample(pts))
                now = snap(star)
                fresh = mk()
                out['samples'].append({'unit': su, 'points': fl(pts), 'values': got,
                                       'fresh': fl(fresh.sample(pts, waveunit=su)),
                                       'direct': fl(R.Blackbody.vegamag(pts, c['temp'], c['mag'], c['band'], wcanon(su), st['vu']).value),
                                       'untouched': (now['wu'], now['vu'], now['wave'], now['value']) == (st['wu'], st['vu'], st['wave'], st['value'])})
            return out
        if op == 'vegamag':
            w = np.array(c['waves'], dtype=float)
            a = R.Blackbody.vegamag(w, c['temp'], c['mag'], c['band'], c['wn'], c['vn'])
            b = R.Blackbody.vegamag(w, c['temp'], c['mag'], c['band'], c['wn'], 'photlam')
            return {'value': fl(a.value), 'vu': a.valueunit, 'ref': fl(b.value), 'sample': fl(a.sample(w, c['wn']))}
    except Exception as e:
        return {'err': type(e).__name__}
    raise ValueError(op)


def compare(c, impl, model):
    if ('err' in impl) != ('err' in model):
        return f'implementation {impl.get("err", "returned a value")}, model {model.get("err", "returned a value")}'
    if 'err' in impl:
        if impl['err'] != model['err']:
            return f'error kinds differ: impl {impl["err"]} model {model["err"]}'
        # an implementation that refuses the whole call before converting anything (object left as it was) is as
        # good for C14 as the present one (object left with the accepted conversions): both are accepted
        if (c['op'] == 'chain' and 'state' in impl and 'state' in model and not same_state(impl['state'], model['state'])
                and not same_state(impl['state'], impl['initial'], 0.0)):
            return (f'after the refused call to{tuple(c["args"])} the object holds {impl["state"]}, '
                    f'the model {dict(model["state"], wave=[float(x) for x in model["state"]["wave"]], value=[float(x) for x in model["state"]["value"]], integral=float(model["state"]["integral"]))}')
        return None
    op = c['op']
    if op == 'sample':
        scale = max([abs(v) for v in c['value']] + [0.0]) * (truth_factor(wcanon(c['wb']), wcanon(c['wu'])) if c['vu'] else 1.0)
        mv = [float(x) for x in model['values']]
        if len(mv) != len(impl['values']) or any(abs(a - b) > TOL * scale for a, b in zip(impl['values'], mv)):
            return f'sample in {c["wb"]} at {impl["points"]}: implementation {impl["values"]} model {mv}'
        return None
    if op == 'planck':
        x = planck_x(c['wave'], c['temp'], c['wn'])
        tol = cancel_tol(float(x), TOL) if x is not None else TOL
        return None if close(impl['v'], model['v'], tol) else f'{op}: implementation {impl["v"]!r} model {float(model["v"])!r}'
    if op in ('factor', 'factor3', 'flux3'):
        return None if close(impl['v'], model['v']) else f'{op}: implementation {impl["v"]!r} model {float(model["v"])!r}'
    if op == 'vegastar':
        if not lclose(impl['value0'], model['value0'], 1e-11):
            return f'vegamag values as built: implementation {impl["value0"]} model {[float(x) for x in model["value0"]]}'
        if not same_state(impl['state'], model['state'], 1e-11):
            return (f'vegamag star after to{tuple(c["args"])}: implementation {impl["state"]} model values '
                    f'{[float(x) for x in model["state"]["value"]]} in {(model["state"]["wu"], model["state"]["vu"])}')
        for x, mv in zip(impl['samples'], model['samples']):
            if not lclose(x['values'], mv, 1e-11):
                return f'vegamag star sampled with waveunit={x["unit"]!r} at {x["points"]}: implementation {x["values"]} model {[float(v) for v in mv]}'
        return None
    fin = impl['steps'][-1] if op == 'chain' else impl
    if (fin['wu'], fin['vu']) != (model['wu'], model['vu']):
        return f'{op}: units after to(): implementation {(fin["wu"], fin["vu"])} model {(model["wu"], model["vu"])}'
    if not lclose(fin['wave'], model['wave']):
        return f'{op}: wavelengths after to(): implementation {fin["wave"]} model {[float(x) for x in model["wave"]]}'
    if not lclose(fin['value'], model['value']):
        return f'{op}: values after to(): implementation {fin["value"]} model {[float(x) for x in model["value"]]}'
    if not close(fin['integral'], model['integral'], 1e-11):
        return f'{op}: trapezoid integral: implementation {fin["integral"]} model {float(model["integral"])}'
    if op == 'blackbody':
        for x, mv in zip(impl.get('cross', []), model.get('cross', [])):
            if not lclose(x['values'], mv):
                return f'Blackbody.sample(waveunit={x["unit"]!r}) at {x["points"]}: implementation {x["values"]} model {[float(v) for v in mv]}'
    return None


# ------------------------------------------------------------------ direct oracle (no model, no generated table)
def truth_to_wlam_si(v, unit, wm, H, Cc):
    """value per metre of wavelength in `unit` -> W m^-2 m^-1 (photon energy hc/lambda; 1 erg s^-1 cm^-2 = 1e-3 W m^-2)"""
    if unit == 'photlam':
        return v * H * Cc / wm
    if unit == 'flam':
        return v * 1e-3
    return v


def truth_from_wlam_si(v, unit, wm, H, Cc):
    if unit == 'photlam':
        return v * wm / (H * Cc)
    if unit == 'flam':
        return v * 1e3
    return v


def truth_flux(v, a, b, wm, H, Cc):
    return truth_from_wlam_si(truth_to_wlam_si(v, a, wm, H, Cc), b, wm, H, Cc)


def truth_factor(a, b):
    return float(METRES[a] / METRES[b])


def expect_refusal(impl, what):
    return None if 'err' in impl else f'{what} was accepted instead of being refused'


def oracle(c, impl):
    R = rad()
    H, Cc, Kb = float(R.H), float(R.C), float(R.K)
    op = c['op']
    if op == 'seq':
        for k, (sc, r) in enumerate(zip(c['calls'], impl['results'])):
            m = oracle(sc, r)
            if m:
                hist = '; '.join(brief(x) for x in c['calls'][:k])
                return f'call {k + 1} of a history in one process' + (f' (after {hist})' if hist else '') + ': ' + m
        return None
    if op == 'factor':
        a, b = wcanon(c['a']), wcanon(c['b'])
        if a is None or b is None:
            return expect_refusal(impl, f'Unit({c["a"]!r}).to({c["b"]!r})')
        if 'err' in impl:
            return f'Unit({c["a"]!r}).to({c["b"]!r}) raised {impl["err"]}'
        if not close(impl['v'], truth_factor(a, b)):
            return f'factor {a}->{b} is {impl["v"]!r}, one {a} is {truth_factor(a, b)!r} {b}'
        return None
    if op == 'factor3':
        if 'err' in impl:
            return f'wavelength factors of ({c["a"]}, {c["b"]}, {c["c"]}) raised {impl["err"]}'
        if not close(impl['v'] * impl['bc'], impl['ac']):
            return f'to({c["a"]},{c["b"]}) * to({c["b"]},{c["c"]}) = {impl["v"] * impl["bc"]!r} but to({c["a"]},{c["c"]}) = {impl["ac"]!r}'
        if impl['aa'] != 1:
            return f'to({c["a"]},{c["a"]}) = {impl["aa"]!r}, not 1'
        if not close(impl['v'] * impl['ba'], 1.0):
            return f'round trip {c["a"]}->{c["b"]}->{c["a"]} multiplies by {impl["v"] * impl["ba"]!r}'
        return None
    if op == 'flux3':
        a, b, cc = fcanon(c['a']), fcanon(c['b']), fcanon(c['c'])
        if a is None or b is None or cc is None:
            return expect_refusal(impl, f'flux conversion {c["a"]}->{c["b"]}')
        if 'err' in impl:
            return f'flux conversions of ({c["a"]}, {c["b"]}, {c["c"]}) raised {impl["err"]}'
        f, w = c['flux'], c['wave']
        if not close(impl['bc'], impl['ac']):
            return f'{a}->{b}->{cc} gives {impl["bc"]!r} but {a}->{cc} gives {impl["ac"]!r} (flux {f!r}, wave {w!r} m)'
        if impl['aa'] != f:
            return f'{a}->{a} changed the flux {f!r} to {impl["aa"]!r}'
        if not close(impl['ba'], f):
            return f'round trip {a}->{b}->{a} returned {impl["ba"]!r} for {f!r} (wave {w!r} m)'
        if not close(impl['v'], truth_flux(f, a, b, w, H, Cc)):
            return (f'{a}->{b} of {f!r} at {w!r} m is {impl["v"]!r}; by the definitions of the units '
                    f'(photon energy hc/lambda, 1 erg/s/cm^2 = 1e-3 W/m^2) it is {truth_flux(f, a, b, w, H, Cc)!r}')
        return None
    if op == 'chain':
        bad = None
        vu = fcanon(c['vu']) if c['vu'] else None
        for a in c['args']:
            if code(a) == 10:
                bad = f'unknown unit {a!r}'
                break
            if vu is None and fcanon(a):
                bad = f'conversion from no value unit to {a!r}'
                break
            if fcanon(a):
                vu = fcanon(a)
        if bad:
            m = expect_refusal(impl, bad)
            if m:
                return m
            k = first_refused(c)
            if not same_state(impl['state'], impl['prefix'], 0.0) and not same_state(impl['state'], impl['initial'], 0.0):
                return (f'{bad}: after the refused call to{tuple(c["args"])} the object holds {impl["state"]}; that is neither the object '
                        f'with only the accepted arguments {c["args"][:k]} applied ({impl["prefix"]}) nor the untouched object')
            return None
        if 'err' in impl:
            return f'Spectrum.to{tuple(c["args"])} raised {impl["err"]}'
        steps = impl['steps']
        for k, a in enumerate(c['args']):
            p, q = steps[k], steps[k + 1]
            if len(q['wave']) != len(p['wave']) or len(q['value']) != len(p['value']):
                return f'to({a!r}) changed the number of samples'
            if wcanon(a):
                if q['wu'] != wcanon(a) or q['vu'] != p['vu']:
                    return f'to({a!r}) left the units {(q["wu"], q["vu"])}'
                k_ab = truth_factor(p['wu'], q['wu'])
                if not lclose(q['wave'], [w * k_ab for w in p['wave']]):
                    return f'to({a!r}) from {p["wu"]}: wavelengths {p["wave"]} became {q["wave"]}'
                if p['vu'] is None:
                    if q['value'] != p['value']:
                        return f'to({a!r}) changed the values of a unitless spectrum: {p["value"]} -> {q["value"]}'
                else:
                    if not close(q['integral'], p['integral'], 1e-11):
                        return (f'to({a!r}) from {p["wu"]} changed the integral of a {p["vu"]} density: '
                                f'{p["integral"]!r} -> {q["integral"]!r}')
                    if q['integrate'] is not None and p['integrate'] is not None and not close(q['integrate'], p['integrate'], 1e-11):
                        return (f'to({a!r}) from {p["wu"]} changed integrate(method="trapz") of a {p["vu"]} density: '
                                f'{p["integrate"]!r} -> {q["integrate"]!r}')
            else:
                if q['vu'] != fcanon(a) or q['wu'] != p['wu'] or not lclose(q['wave'], p['wave']):
                    return f'to({a!r}) left units {(q["wu"], q["vu"])} / changed the wavelengths'
                m = float(METRES[p['wu']])
                exp = [truth_flux(v / m, p['vu'], q['vu'], w * m, H, Cc) * m for v, w in zip(p['value'], p['wave'])]
                if not lclose(q['value'], exp):
                    return f'to({a!r}) of a {p["vu"]} density in {p["wu"]}: values {p["value"]} became {q["value"]}, expected {exp}'
        first, fin = steps[0], steps[-1]
        if (fin['wu'], fin['vu']) == (first['wu'], first['vu']):
            if not (lclose(fin['wave'], first['wave']) and lclose(fin['value'], first['value'])):
                return (f'the closed chain {c["args"]} does not restore the spectrum: wave {first["wave"]} -> {fin["wave"]}, '
                        f'value {first["value"]} -> {fin["value"]}')
        d = impl['direct']
        if not (lclose(fin['wave'], d['wave']) and lclose(fin['value'], d['value'])):
            return (f'the chain {c["args"]} and the direct conversion to ({fin["wu"]}, {fin["vu"]}) differ: '
                    f'values {fin["value"]} vs {d["value"]}, wave {fin["wave"]} vs {d["wave"]}')
        o = impl['once']
        if (o['wu'], o['vu']) != (fin['wu'], fin['vu']) or not (lclose(fin['wave'], o['wave']) and lclose(fin['value'], o['value'])):
            return f'to(*args) and successive to(arg) calls differ for {c["args"]}'
        return None
    if op == 'sample':
        b = wcanon(c['wb'])
        if b is None:
            return expect_refusal(impl, f'sample(waveunit={c["wb"]!r})')
        if 'err' in impl:
            return f'Spectrum.sample(..., waveunit={c["wb"]!r}) raised {impl["err"]}'
        a = wcanon(c['wu'])
        bf, af = impl['before'], impl['after']
        if (af['wu'], af['vu'], af['wave'], af['value']) != (bf['wu'], bf['vu'], bf['wave'], bf['value']):
            return f'sample(waveunit={c["wb"]!r}) changed the spectrum itself: {bf} -> {af}'
        k = truth_factor(a, b)                         # wavelengths *k, density values /k
        cw = [w * k for w in c['wave']]
        cv = [v / k for v in c['value']] if c['vu'] else list(c['value'])
        scale = max([abs(v) for v in cv] + [0.0])
        pts = impl['points']
        exp = [float(y) for y in np.interp(np.array(pts), np.array(cw), np.array(cv), left=0.0, right=0.0)]
        got = impl['values']
        kind = f'a {c["vu"]} density' if c['vu'] else 'a unitless spectrum'
        if c['mode'] == 'points':
            if len(got) != len(exp) or any(abs(x - y) > TOL * scale for x, y in zip(got, exp)):
                return (f'sample of {kind} given in {a} at {pts} {b}: {got}; linear interpolation of the spectrum '
                        f'expressed in {b} (wavelengths * {k!r}, values {"/ " + repr(k) if c["vu"] else "unchanged"}) gives {exp}')
        else:
            if len(got) != len(cv) or any(abs(x - y) > TOL * scale for x, y in zip(got, cv)):
                return (f'sample of {kind} given in {a} at its own grid expressed in {b} returns {got}, '
                        f'the spectrum expressed in {b} has values {cv}')
            if c['vu'] and not close(trapz(pts, got), bf['integral'], 1e-11):
                return (f'the {c["vu"]} density sampled on its own grid expressed in {b} integrates to {trapz(pts, got)!r}, '
                        f'the spectrum integrates to {bf["integral"]!r}')
        if any(abs(x - y) > TOL * scale for x, y in zip(got, impl['ref'])):
            return f'sample(waveunit={c["wb"]!r}) = {got} differs from converting a copy with to({c["wb"]!r}) and sampling there: {impl["ref"]}'
        return None
    if op == 'planck':
        a, g = wcanon(c['wn']), fcanon(c['vn'])
        if a is None or g is None:
            return expect_refusal(impl, f'planck_{c["kind"]} with units ({c["wn"]!r}, {c["vn"]!r})')
        if 'err' in impl:
            return f'planck_* with units ({c["wn"]}, {c["vn"]}) raised {impl["err"]}'
        wm, t = impl['wm'], c['temp']
        m = float(METRES[a])
        xx = H * Cc / (wm * Kb * t)
        b_si = 2 * H * Cc ** 2 / (wm ** 5 * math.expm1(xx))
        if not close(impl['si_rad'], b_si, cancel_tol(xx, 1e-11)):
            return (f'planck_radiance({wm!r} m, {t} K) in SI is {impl["si_rad"]!r}, Planck\'s law gives {b_si!r} '
                    f'(hc/(lambda k T) = {xx:.3g}, relative difference {abs(impl["si_rad"] - b_si) / b_si:.3g})')
        exp = truth_from_wlam_si(impl['si_rad'], g, wm, H, Cc) * m
        if not close(impl['rad'], exp, cancel_tol(xx, 1e-11)):
            return (f'planck_radiance({c["wave"]!r}, {t}, {c["wn"]!r}, {c["vn"]!r}) = {impl["rad"]!r} is not the SI value '
                    f'{impl["si_rad"]!r} W m^-2 sr^-1 m^-1 expressed per {a} in {g}: {exp!r}')
        if not close(impl['exi'], math.pi * impl['rad']):
            return f'exitance {impl["exi"]!r} is not pi * radiance {math.pi * impl["rad"]!r} in units ({c["wn"]}, {c["vn"]})'
        return None
    if op == 'blackbody':
        if 'err' in impl:
            return f'Blackbody(...).to{tuple(c["args"])} raised {impl["err"]}'
        if not lclose(impl['first']['value'], impl['rad0']):
            return 'Blackbody.value differs from planck_radiance with the same arguments'
        if not lclose(impl['value'], impl['direct'], 1e-11):
            return (f'a Blackbody in ({c["wn"]}, {c["vn"]}) converted to ({impl["wu"]}, {impl["vu"]}) has values {impl["value"]} '
                    f'but the Blackbody built in those units at the same wavelengths has {impl["direct"]}')
        if not lclose(impl['sample'], impl['direct'], 1e-11):
            return f'Blackbody.sample after to{tuple(c["args"])} gives {impl["sample"]}, expected {impl["direct"]}'
        for x in impl.get('cross', []):
            if not x['untouched']:
                return f'Blackbody.sample(waveunit={x["unit"]!r}) changed the object itself'
            if not lclose(x['values'], x['direct'], 1e-11):
                return (f'a Blackbody held in ({impl["wu"]}, {impl["vu"]}) sampled at {x["points"]} {x["unit"]} gives {x["values"]}; '
                        f'the Blackbody built in ({wcanon(x["unit"])}, {impl["vu"]}) at those wavelengths has {x["direct"]}')
        return None
    if op == 'vega':
        a, g = wcanon(c['wn']), fcanon(c['vn'])
        if 'err' in impl:
            return f'vegaflux({c["band"]!r}, {c["wn"]!r}, {c["vn"]!r}) raised {impl["err"]}'
        m = float(METRES[a])
        if not close(impl['wave'] * m, impl['si_wave']):
            return f'vegaflux wavelength {impl["wave"]!r} {a} is not {impl["si_wave"]!r} m'
        exp = truth_flux(impl['si_flux'], 'photlam', g, impl['si_wave'], H, Cc) * m
        if not close(impl['flux'], exp):
            return (f'vegaflux({c["band"]!r}, {c["wn"]!r}, {c["vn"]!r}) = {impl["flux"]!r} is not the SI photon flux '
                    f'{impl["si_flux"]!r} expressed per {a} in {g}: {exp!r}')
        return None
    if op == 'band':
        if 'err' in impl:
            return f'Spectrum.integrate(start, end) before/after to(<wave unit>) raised {impl["err"]}'
        a = wcanon(c['wu'])
        w, v = c['wave'], c['value']
        inside = [i for i, x in enumerate(w) if c['lo'] <= x <= c['hi']]
        own = trapz([w[i] for i in inside], [v[i] for i in inside])
        dmin = min((w[i + 1] - w[i]) / w[i] for i in range(len(w) - 1))
        tol = max(1e-11, 8e-16 / dmin)
        what = (f'{"a " + c["vu"] + " density" if c["vu"] else "a unitless spectrum"} on {len(w)} samples in {a} '
                f'(smallest spacing {dmin * w[0]:.3g} {a}), band [{c["lo"]!r}, {c["hi"]!r}] {a} holding samples {inside[0]}..{inside[-1]}')
        if not close(impl['own']['trapz'], own, tol):
            return f'{what}: integrate(start, end, "trapz") = {impl["own"]["trapz"]!r}, the trapezoid sum over the samples inside the band is {own!r}'
        for route in ('to', 'chained'):
            for b in WSHORT:
                k = truth_factor(a, b)
                scale = 1.0 if c['vu'] else k
                r = impl[route][b]
                how = f'after to({b!r})' if route == 'to' else f'after to() through {WSHORT[:WSHORT.index(b) + 1]} in turn'
                if not close(r['trapz'], own * scale, tol):
                    return (f'{what}: {how} the same band [{c["lo"] * k!r}, {c["hi"] * k!r}] {b} integrates (trapz) to {r["trapz"]!r}, '
                            f'expected {own * scale!r}' + ('' if c['vu'] else f' (= {own!r} * {k!r})'))
                # Simpson's rule on an irregular grid has weights of both signs: its rounding error scales with
                # max|value| * band width, not with the (possibly much smaller, cancelled) result
                sim_abs = 1e3 * tol * max(abs(v[i]) for i in inside) * (w[inside[-1]] - w[inside[0]]) * scale
                if abs(r['simps'] - impl['own']['simps'] * scale) > sim_abs and not close(r['simps'], impl['own']['simps'] * scale, 10 * tol):
                    return (f'{what}: {how} the same band integrates (simps) to {r["simps"]!r}, before the conversion {impl["own"]["simps"]!r}'
                            + ('' if c['vu'] else f' * {k!r}'))
                if not close(r['all_trapz'], impl['own']['all_trapz'] * scale, tol):
                    return f'{what}: {how} the whole spectrum integrates to {r["all_trapz"]!r}, before {impl["own"]["all_trapz"]!r}'
        return None
    if op == 'big':
        if 'err' in impl:
            return f'{c["kind"]} on {c["n"]} samples raised {impl["err"]}'
        n = c['n']
        idx = big_indices(n)
        a = wcanon(c['wu'])
        k0 = float(Fraction(1, 10 ** 9) / METRES[a])
        wave = np.linspace(c['lo_nm'] * k0, c['hi_nm'] * k0, n)
        if impl['n'] != n:
            return f'{c["kind"]} on {n} samples returned {impl["n"]}'
        if c['kind'] == 'planck':
            for j, i in enumerate(idx[:60]):
                if not close(impl['at'][j], impl['single'][j]):
                    return (f'planck_radiance on an array of {n} wavelengths: element {i} is {impl["at"][j]!r}, the same wavelength '
                            f'{float(wave[i])!r} {c["wu"]} passed alone gives {impl["single"][j]!r}')
            m = float(METRES[a])
            for j, i in enumerate(idx):
                wm = float(wave[i]) * m
                b_si = 2 * H * Cc ** 2 / (wm ** 5 * math.expm1(H * Cc / (wm * Kb * c['temp'])))
                exp = truth_from_wlam_si(b_si, fcanon(c['vu']), wm, H, Cc) * m
                if not close(impl['at'][j], exp, 1e-11):
                    return f'planck_radiance on an array of {n} wavelengths: element {i} ({float(wave[i])!r} {c["wu"]}) is {impl["at"][j]!r}, Planck\'s law gives {exp!r}'
            return None
        value = 1.0 + (np.arange(n) % 7) * 0.25
        wu, vu = a, c['vu']
        w, v = wave[idx], value[idx]
        for arg in c['args']:
            if wcanon(arg):
                kk = truth_factor(wu, wcanon(arg))
                w, v, wu = w * kk, v / kk, wcanon(arg)
            else:
                m = float(METRES[wu])
                v = np.array([truth_flux(x / m, vu, fcanon(arg), y * m, H, Cc) * m for x, y in zip(v, w)])
                vu = fcanon(arg)
        if impl['nv'] != n or (impl['wu'], impl['vu']) != (wu, vu) or not impl['finite']:
            return f'Spectrum of {n} samples after to{tuple(c["args"])}: units {(impl["wu"], impl["vu"])}, {impl["nv"]} values, finite={impl["finite"]}'
        for j, i in enumerate(idx):
            if not close(impl['wave_at'][j], w[j]) or not close(impl['value_at'][j], v[j]):
                return (f'Spectrum of {n} samples after to{tuple(c["args"])}: sample {i} is ({impl["wave_at"][j]!r}, {impl["value_at"][j]!r}), '
                        f'expected ({float(w[j])!r}, {float(v[j])!r})')
        if all(wcanon(x) for x in c['args']) and not close(impl['total'], impl['total0'], 1e-9):
            return f'Spectrum of {n} samples: integral {impl["total0"]!r} became {impl["total"]!r} after to{tuple(c["args"])}'
        return None
    if op == 'wien':
        if 'err' in impl:
            return f'planck_radiance on a wavelength grid raised {impl["err"]}'
        m = float(METRES[c['wn']])
        lam0 = CODATA['h'] * CODATA['c'] / (CODATA['k'] * c['temp'] * XPEAK[c['vn']]) / m
        rel = abs(impl['peak'] - lam0) / lam0
        if not rel <= LAW_TOL:
            return (f'TEST Wien: planck_radiance in ({c["wn"]}, {c["vn"]}) at {c["temp"]} K peaks at {impl["peak"]!r} {c["wn"]}; Wien\'s displacement '
                    f'law (hc/(k T x), x = {XPEAK[c["vn"]]}, CODATA 2018 constants) puts the peak at {lam0!r} {c["wn"]} '
                    f'(relative difference {rel:.3g} > {LAW_TOL})')
        return None
    if op == 'stefan_boltzmann':
        if 'err' in impl:
            return f'planck_exitance on a wavelength grid raised {impl["err"]}'
        exp = SIGMA * c['temp'] ** 4 * (1e3 if c['vn'] == 'flam' else 1.0)
        rel = abs(impl['total'] - exp) / exp
        if not rel <= LAW_TOL:
            return (f'TEST Stefan-Boltzmann: planck_exitance in ({c["wn"]}, {c["vn"]}) at {c["temp"]} K integrates over wavelength to {impl["total"]!r}; '
                    f'sigma T^4 = {exp!r} {"erg s^-1 cm^-2" if c["vn"] == "flam" else "W m^-2"} with sigma = {SIGMA!r} (CODATA 2018) '
                    f'(relative difference {rel:.3g} > {LAW_TOL})')
        return None
    if op == 'edited':
        if 'err' in impl:
            return f'{c["cls"]} with an edited table ({c["edit"]["kind"]}) then to{tuple(c["args"])} raised {impl["err"]}'
        a, p, t = impl['after'], impl['plain'], impl['table']
        if not same_state(a, p):
            return (f'a {impl["type"]} built in ({c["wn"]}, {c["vn"]}) whose table was edited in place ({c["edit"]}) holds wave {t["wave"]}, '
                    f'value {t["value"]}; after to{tuple(c["args"])} it holds value {a["value"]} in {(a["wu"], a["vu"])}, but a plain Spectrum '
                    f'with that same table converts to {p["value"]} in {(p["wu"], p["vu"])}: to() must only rescale the table it finds')
        if all(wcanon(x) for x in c['args']) and not close(a['integral'], t['integral'], 1e-11):
            return f'a {impl["type"]} with an edited table: to{tuple(c["args"])} changed its integral {t["integral"]!r} -> {a["integral"]!r}'
        if (a['wu'], a['vu']) == (t['wu'], t['vu']) and not (lclose(a['wave'], t['wave']) and lclose(a['value'], t['value'])):
            return f'a {impl["type"]} with an edited table: the closed chain {c["args"]} does not restore it: {t["value"]} -> {a["value"]}'
        return None
    if op == 'intgrid':
        if 'err' in impl:
            return f'planck_* / Blackbody on a {c["dtype"]} wavelength grid {c["waves"]} {c["wn"]} raised {impl["err"]}'
        i, f = impl['int'], impl['float']
        what = f'{c["dtype"]} wavelength grid {c["waves"]} {c["wn"]} at {c["temp"]} K in ({c["wn"]}, {c["vn"]})'
        names = {'rad': 'planck_radiance', 'exi': 'planck_exitance', 'bb': 'Blackbody(...).value', 'bb_sample': 'Blackbody.sample on its grid',
                 'bb_cross': f'Blackbody.sample in {c["su"]}', 'scalar_rad': 'planck_radiance of one integer scalar',
                 'scalar_exi': 'planck_exitance of one integer scalar'}
        for key, nm in names.items():
            if not lclose(i[key], f[key]):
                return f'{what}: {nm} returns {i[key]}, the same wavelengths as floats give {f[key]}'
        if not lclose(i['exi'], [math.pi * x for x in i['rad']]):
            return f'{what}: exitance {i["exi"]} is not pi * radiance {[math.pi * x for x in i["rad"]]}'
        if not i['input_kept']:
            return f'{what}: the caller\'s integer array was modified'
        return None
    if op == 'errstate':
        if 'err' in impl:
            return f'{c["target"]} under the default error state raised {impl["err"]}'
        what = (f'planck_{c["target"]}' if c['target'] != 'blackbody' else 'Blackbody(...).value') + \
            f' at {c["waves"]} {c["wn"]}, {c["temp"]} K, ({c["wn"]}, {c["vn"]}) under np.errstate({c["state"]})'
        if not impl['state_kept'] or not impl.get('state_kept_inside', True):
            return what + ': the numpy error state was changed by the library'
        m = float(METRES[wcanon(c['wn'])])
        xs = [H * Cc / (w * m * Kb * c['temp']) for w in c['waves']]
        overflow = any(x > 709.0 for x in xs)
        if 'raised' in impl:
            if c['state'] == 'raise' and overflow:
                return None             # the caller asked numpy to raise on overflow and exp() does overflow here
            return what + f': raised {impl["raised"]} although no sample overflows (hc/(lambda k T) = {[round(x, 3) for x in xs]})'
        if not lclose(impl['values'], impl['ref']):
            return (what + f' returns {impl["values"]}; under the default error state the same call returns {impl["ref"]} '
                    f'(hc/(lambda k T) = {[round(x, 3) for x in xs]}): the result must not depend on the caller\'s error state')
        return None
    if op == 'vegastar':
        if 'err' in impl:
            return f'Blackbody.vegamag(...).to{tuple(c["args"])}/sample raised {impl["err"]}'
        st = impl['state']
        wm, ref = impl['wm'], impl['si_ref']

        def expect(wu, vu):
            m = float(METRES[wu])
            return [truth_from_wlam_si(r, vu, x, H, Cc) * m for r, x in zip(ref, wm)]
        if not lclose(impl['value0'], expect(wcanon(c['wn']), fcanon(c['vn'])), 1e-11):
            return (f'Blackbody.vegamag built in ({c["wn"]}, {c["vn"]}) has values {impl["value0"]}; vegaflux * planck_exitance ratio '
                    f'in SI expressed in those units is {expect(wcanon(c["wn"]), fcanon(c["vn"]))}')
        if not lclose(st['value'], expect(st['wu'], st['vu']), 1e-11):
            return (f'the star built in ({c["wn"]}, {c["vn"]}) after to{tuple(c["args"])} has values {st["value"]} in ({st["wu"]}, {st["vu"]}); '
                    f'expected {expect(st["wu"], st["vu"])}')
        for k, x in enumerate(impl['samples']):
            hist = [y['unit'] for y in impl['samples'][:k]]
            exp = expect(wcanon(x['unit']), st['vu'])
            what = (f'star built by Blackbody.vegamag in ({c["wn"]}, {c["vn"]})' + (f', converted with to{tuple(c["args"])}' if c['args'] else '')
                    + (f', sampled before in {hist}' if hist else '') + f', sampled with waveunit={x["unit"]!r} at {x["points"]}')
            if not x['untouched']:
                return what + ': the star itself was changed by sample()'
            if not lclose(x['values'], exp, 1e-11):
                return what + f' gives {x["values"]}; the same irradiance expressed in ({wcanon(x["unit"])}, {st["vu"]}) is {exp}'
            if not lclose(x['values'], x['direct'], 1e-11):
                return what + f' gives {x["values"]}; a star built directly in ({wcanon(x["unit"])}, {st["vu"]}) has {x["direct"]}'
            if not lclose(x['values'], x['fresh'], 1e-11):
                return what + f' gives {x["values"]} but {x["fresh"]} on a freshly built star (state carried between calls)'
        return None
    if op == 'vegamag':
        if 'err' in impl:
            return f'Blackbody.vegamag raised {impl["err"]}'
        g = fcanon(c['vn'])
        m = float(METRES[wcanon(c['wn'])])
        exp = [truth_flux(v / m, 'photlam', g, w * m, H, Cc) * m for v, w in zip(impl['ref'], c['waves'])]
        if not lclose(impl['value'], exp, 1e-11):
            return (f'Blackbody.vegamag(valueunit={c["vn"]!r}) has values {impl["value"]} labelled {impl["vu"]}; the same source '
                    f'requested in photlam and converted to {g} is {exp}')
        if not lclose(impl['sample'], impl['value'], 1e-11):
            return f'Blackbody.vegamag(valueunit={c["vn"]!r}).sample at its own wavelengths gives {impl["sample"]}, its values are {impl["value"]}'
        return None
    return None


# ------------------------------------------------------------------ extra: translator cross-check and labelled numeric TESTS
def encode_vega(c, impl, H):
    """model input for a vegaflux case: the band's SI wavelength and a Jansky value derived from the SI observation"""
    w0 = Fraction(impl['si_wave'])
    jy = Fraction(impl['si_flux']) * H * w0 * 10 ** 26
    return [5] + C.enc_q(w0) + C.enc_q(jy) + [code(c['wn']), code(c['vn'])]


def extra(tier, rng):
    R = rad()
    rep = {}
    viol = []
    H, Cc, Kb = float(R.H), float(R.C), float(R.K)
    # (1) the flux terms the proofs are about (translated now, or retained from the last successful translation
    #     when the translator refused the form of the source), evaluated exactly, against the implementation:
    #     all 9 cells, >= 200 random (flux, wave) points each plus edge magnitudes 1e-12 .. 1e12
    try:
        t = table()
    except G.GenError as e:
        t = None
        rep['translation'] = f'generator failed and no retained table: {e}'
    if t is not None:
        n = 0
        bad_cells = {}
        mags = [Fraction(10) ** k for k in range(-12, 13, 2)]
        for a in FNAMES:
            for b in FNAMES:
                pts = []
                for _ in range(200):
                    pts.append((Fraction(rng.randint(1, 10 ** 6), rng.randint(1, 10 ** 6)) * Fraction(10) ** rng.randint(-15, 15),
                                Fraction(rng.randint(1, 10 ** 5), rng.randint(1, 10 ** 5)) * Fraction(10) ** rng.randint(-10, -3)))
                for m in mags:
                    pts.append((m, Fraction(5, 10 ** 7)))
                    pts.append((Fraction(3), m))
                    pts.append((m, 1 / m))
                for f, w in pts:
                    ff, wf_ = float(f), float(w)
                    got = float(R.Unit(a).to(ff, b, wf_))
                    exp = G.eval_expr(t['f'][(FCON[a], FCON[b])], Fraction(ff), Fraction(wf_), t['c']['H'], t['c']['C'])
                    n += 1
                    if not close(got, exp) and (a, b) not in bad_cells:
                        bad_cells[(a, b)] = (ff, wf_)
                        viol.append({'case': {'op': 'flux3', 'a': a, 'b': b, 'c': a, 'flux': ff, 'wave': wf_},
                                     'impl': got, 'what': f'{a}->{b} of flux {ff!r} at wave {wf_!r} m: implementation returns {got!r}, the '
                                                          f'conversion term the proofs are about ('
                                                          + ('translated from this source' if t['status']['translated'] else 'retained from the last successful translation')
                                                          + f') evaluates to {float(exp)!r}'})
        if t['status']['translated']:
            rep['translation'] = f'translated from source; terms validated on {n} points'
        else:
            rep['translation'] = (f'refused ({t["status"]["reason"]}), retained table '
                                  + (f'validated on {n} points' if not bad_cells else f'DISAGREES with the implementation in cells {sorted(bad_cells)}'))
        rep['translator_crosscheck'] = {'cells': 9, 'evaluations': n, 'tolerance': TOL, 'disagreeing_cells': len(bad_cells)}
        # vegaflux through the extracted model (needs the SI observation of the implementation)
        try:
            binp = C.build_model(MODEL)
            cases = [{'op': 'vega', 'band': bd, 'wn': wn, 'vn': vn} for bd in (BANDS if tier != 'quick' else BANDS[::3])
                     for wn in WNAMES for vn in FNAMES]
            impls = [run_impl(c) for c in cases]
            ok = [(c, i) for c, i in zip(cases, impls) if 'err' not in i]
            outs = C.run_model(binp, [encode_vega(c, i, t['c']['H']) for c, i in ok])
            bad = 0
            for (c, i), o in zip(ok, outs):
                rd = C.Reader(o)
                if rd.z() != 0:
                    bad += 1
                    viol.append({'case': c, 'impl': i, 'what': 'model refused a vegaflux case the implementation accepts'})
                    continue
                mf, mw = rd.q(), rd.q()
                if not (close(i['flux'], mf) and close(i['wave'], mw)):
                    bad += 1
                    msg = oracle(c, i)
                    viol.append({'case': c, 'impl': i, 'what': msg or f'vegaflux: implementation {(i["flux"], i["wave"])} '
                                                                       f'model {(float(mf), float(mw))} (correspondence)'})
            rep['vegaflux_vs_model'] = {'cases': len(ok), 'disagreements': bad}
        except Exception as e:
            rep['vegaflux_vs_model'] = f'skipped: {type(e).__name__}: {e}'
    # (1b) the module constants against CODATA 2018 (report only; the two laws below and the cases 'wien' /
    #      'stefan_boltzmann' are what decides)
    rep['constants_vs_CODATA2018'] = {nm: {'module': v, 'codata': CODATA[k], 'rel_diff': abs(v - CODATA[k]) / CODATA[k]}
                                      for nm, v, k in (('H', H, 'h'), ('C', Cc, 'c'), ('K', Kb, 'k'))}
    # (2) TEST (not a proof): Wien's displacement law, peak located to the grid resolution
    wien = []
    for temp in ([3000.0, 5772.0] if tier == 'quick' else [300.0, 1000.0, 3000.0, 5772.0, 12000.0]):
        for vn, xpk in (('wlam', 4.965114231744276), ('flam', 4.965114231744276), ('photlam', 3.9206903948728864)):
            for wn in WSHORT:
                m = float(METRES[wn])
                lam_pk = H * Cc / (Kb * temp * xpk) / m            # expected peak in wn
                grid = lam_pk * np.linspace(0.5, 1.5, 20001)
                vals = np.asarray(R.planck_radiance(grid, temp, wn, vn), dtype=float)
                got = float(grid[int(np.argmax(vals))])
                step = float(grid[1] - grid[0])
                okk = abs(got - lam_pk) <= 2 * step
                wien.append({'T': temp, 'units': [wn, vn], 'peak': got, 'expected': lam_pk, 'grid_step': step, 'ok': okk})
                if not okk:
                    viol.append({'case': {'op': 'planck', 'kind': 'radiance', 'wave': got, 'temp': temp, 'wn': wn, 'vn': vn},
                                 'impl': got, 'what': f'TEST Wien: planck_radiance in ({wn}, {vn}) at {temp} K peaks at {got!r} {wn}, '
                                                      f'expected {lam_pk!r} (grid step {step!r})'})
    rep['TEST_wien_peak'] = {'kind': 'numeric test, not a proof', 'n': len(wien), 'failed': sum(not w['ok'] for w in wien),
                             'tolerance': '2 grid steps (grid = 20001 points over [0.5, 1.5] x expected peak)',
                             'sample': wien[:2]}
    # (3) TEST (not a proof): Stefan-Boltzmann total, sigma from the module's own constants
    sigma = 2 * math.pi ** 5 * Kb ** 4 / (15 * H ** 3 * Cc ** 2)
    sb = []
    for temp in ([5772.0] if tier == 'quick' else [300.0, 2000.0, 5772.0, 20000.0]):
        for wn in WSHORT:
            m = float(METRES[wn])
            lo, hi = H * Cc / (Kb * temp * 60.0) / m, H * Cc / (Kb * temp * 0.02) / m
            grid = np.exp(np.linspace(math.log(lo), math.log(hi), 40001))
            vals = np.asarray(R.planck_exitance(grid, temp, wn, 'wlam'), dtype=float)
            tot = float(np.sum(0.5 * (vals[1:] + vals[:-1]) * np.diff(grid)))
            rel = abs(tot - sigma * temp ** 4) / (sigma * temp ** 4)
            sb.append({'T': temp, 'waveunit': wn, 'total': tot, 'sigma_T4': sigma * temp ** 4, 'rel_err': rel})
            if rel > 1e-4:
                viol.append({'case': {'op': 'planck', 'kind': 'exitance', 'wave': float(grid[20000]), 'temp': temp, 'wn': wn, 'vn': 'wlam'},
                             'impl': tot, 'what': f'TEST Stefan-Boltzmann: integral of planck_exitance over {wn} at {temp} K is {tot!r}, '
                                                  f'sigma T^4 = {sigma * temp ** 4!r} (relative error {rel:.3g} > 1e-4)'})
    rep['TEST_stefan_boltzmann'] = {'kind': 'numeric test, not a proof', 'n': len(sb), 'max_rel_err': max(s['rel_err'] for s in sb),
                                    'tolerance': 1e-4, 'grid': '40001 log-spaced points, hc/(lambda k T) from 60 down to 0.02',
                                    'sample': sb[:1]}
    return {'report': rep, 'violations': viol}
