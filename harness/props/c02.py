"""C02 - Far-field propagation puts the Fraunhofer field on the right output samples."""
import cmath
import json
import math
from fractions import Fraction

import numpy as np

from .. import common as C

ID = 'C02'
MODEL = 'c02'
RUNFUN = 'run'
COQ_TARGETS = ['theories/Properties/C02.vo', 'theories/Extract/RunC02.vo', 'theories/Properties/Chain.vo',
               'theories/Properties/ChainRelay.vo']
EXTRA_PROPERTIES = ['Chain', 'ChainRelay']   # cross-package composition theorems (C07 o C02, C09 o C02, C05 o C02 o C07, C04 o C07 o C02)
DESIGN_REF = 'DESIGN.md section 6, C02'
TECHNIQUE = ('Coq proof (ring-generic: window arithmetic of propagate_dft by lia, triple product = defining sum, '
             'Wavefront.field = sum of embeddings) + execution of the extracted model of propagate_dft on the exact group '
             'ring Q(i)[C_L] against the public path Wavefront * Pupil/Image -> lentil.propagate_dft')
LEVEL_TEXT = ('Theorems in coq/theories/Properties/C02.v for every commutative ring with an additive kernel, all wavefronts '
              'without tilt (any number of sized fields), pixel scales, shapes, prop_shapes, oversampling >= 1 and masks: '
              'every sample of Wavefront.field of the result is sqrt|ar ac| * sum of the fields\' Fraunhofer sums at the '
              'sample\'s own coordinate inside (mask bounding box or whole array) /\\ (centred prop_shape*os box) and 0 '
              'outside; shape/prop_shape/mask only select; metadata. The model follows propagate.py statement by '
              'statement and is run exactly against lentil on every check. Also proved: the complete decision of which calls are refused '
              'and with which exception (C02_outcome_decided), Wavefront.insert(out, weight) = out + weight*|field|^2 for any fields, '
              'array shape and weight, and the focal-length rule.')
LEVEL_NOTE = ('Trusted: Coq kernel, extraction, harness; numpy (BLAS dot, np.exp, np.sqrt, np.fix, np.where/any) and IEEE '
              'rounding are modelled not verified (tolerance 1e-9 relative in the tie). Tilted fields (Field.shift) are a '
              'parameter of the model (property C04).')
TRUSTED = ['Coq 8.16.1 kernel (coqc; coqchk in the thorough tier)',
           'extraction with ExtrOcamlBasic only; ocaml/driver.ml',
           'harness/props/c02.py: codec, evaluation of group-ring elements at exp(-2 pi i/L), np.sqrt of the unitary factor',
           'numpy: BLAS dot, np.exp, np.fix, np.any/np.where (modelled; observed through the tie)',
           'parametricity: the theorem instance (any ring) and the executed instance (group ring) are the same Gallina term',
           'Field.shift of an untilted field is (0, 0) (read off lentil/field.py; the shift is a model parameter, C04)']
ASSUMPTIONS = ['wavelength, focal length, pixel scales dyadic rationals (floats represent them exactly); alpha = p/q with '
               'lcm of denominators <= 64 (quick) / 160 (thorough); float alpha within 1 ulp of p/q',
               'Gaussian-integer pupil data, no OPD, no tilt; comparison tolerance 1e-9*(1+max|expected|)',
               'the input fields of the model are the fields the implementation\'s wavefront holds after the FIRST Wavefront * Plane '
               '(public attributes data/offset); every further plane is multiplied inside the model (Field.__mul__ of Model/Field.v on the '
               'plane\'s phasors); the oracle builds the input plane from the arrays of all planes']
RULE = ('corpus, then random cases over {pupil->image, image->pupil, pupil->image->pupil, none-type, histories}: pupil arrays 1..8 per '
        'axis (odd/even/non-square), off-centre supports incl. single off-centre pixels and one-pixel segments, monolithic and '
        'segmented (3-d mask) planes, amplitude dtypes complex/int/float32/uint8/bool, scalar or per-axis dx and du (tuple, list, '
        'ndarray), oversample 1..3, shape None/int/pair 1..8, prop_shape None/int/pair (<= shape, rarely larger), output masks of any '
        'support and dtype (full, single pixel, box, random, all-zero, wrong shape). A history propagates ONE wavefront object 2-4 '
        'times with one argument varied at a time (or repeated), or a pupil->image->pupil chain whose intermediate wavefront is '
        're-used; every call is compared with the model and the oracle on the input plane as it was before any call, and every '
        'wavefront the caller holds must be unchanged after each call. Trains: the wavefront passes 2-3 array-valued planes before it is '
        'propagated (Pupil x Pupil stop, Plane x Pupil, pupil -> image -> Image-plane pinhole / slit / field stop -> pupil; stops with '
        'single-sample, single-row/column and box supports, also on a different grid); the oracle builds the input plane from the '
        'ARRAYS of the planes (product of the transmissions on a canvas), never from the wavefront. Branches: a shared wavefront whose branches pass a Tilt / a transparent or scalar plane (kept or dropped) is itself '
        'propagated before and after. Near ties: alpha within 1e-9..2e-4 relative of the FFT-matched 1/n (and 1/2n) without being equal, '
        'window = input array, both directions (oracle only: arbitrary floats). Guises: amplitudes and output masks as ndarray subclasses '
        '(MaskedArray with and without masked entries, np.matrix, a metadata subclass), amplitudes scaled by 2**-43..2**20 with a '
        'tolerance relative to that scale, single values as 0-d / one-element arrays / numpy scalars; arrays handed to the API must stay '
        'untouched. Large sizes (2**20 output or input samples, 1100 rows, 15 segments, odd sizes) with a vectorised reference. '
        'Refusals: wavefronts without pixelscale and/or with 0-d field data (scalar planes), with windows that are evaluated or empty, '
        'and the order of the checks (type, mask shape, empty mask, fields). Wavefront.insert(out, weight) on pupil wavefronts and on '
        'propagated ones (segmented: coherent sums), any out shape, weights incl. 0, negative and the default. '
        'Object histories: planes with an OPD (k*wavelength/den, linear part) on which copies were taken and tilt fitted NOT in place '
        '(fit_tilt(inplace=False), copy()+fit, deepcopy, pickle) before the ORIGINAL is used; operator spellings w*p, p*w, w*=p, '
        'p.multiply(w); the caller\'s numpy error state (raise / ignore, must be unchanged afterwards) and warnings-as-errors; uint8 / int8 / '
        'uint16 shape and oversample; one-layer mask cubes; a refused call in the middle of a history; every .field / .intensity array '
        'returned in a history is held to the end and another one is overwritten in place (neither may be library memory). '
        'lentil is imported afresh for every case, so each replay is '
        'self-contained. non-trivial = history, or non-square or prop_shape < shape or mask or per-axis scales')

TOL = 1e-9
LMODEL = 512          # largest root-of-unity order the exact model is run with
PT = {'none': 0, 'pupil': 1, 'image': 2}


def lcm(a, b):
    return a * b // math.gcd(a, b)


# ------------------------------------------------------------------ case helpers
def pair(x, conv=lambda v: v):
    if isinstance(x, (list, tuple)):
        return conv(x[0]), conv(x[1])
    return conv(x), conv(x)


def fl(x):
    """the Python float the caller passes for a rational given as a string"""
    return float(Fraction(x))


def fl_arg(x):
    return tuple(fl(v) for v in x) if isinstance(x, (list, tuple)) else fl(x)


def call_shapes(call, wshape):
    S = wshape if call.get('shape') is None else pair(call['shape'])
    P = S if call.get('prop_shape') is None else pair(call['prop_shape'])
    return (int(S[0]), int(S[1])), (int(P[0]), int(P[1]))


def alphas(dx, du, wl, z, os):
    """exact alpha per axis, and whether lentil's float expression gives (within 1 ulp) the same number"""
    dxr, dxc = pair(dx, Fraction)
    dur, duc = pair(du, Fraction)
    wl, z = Fraction(wl), Fraction(z)
    ar = dxr * dur / (wl * z * os)
    ac = dxc * duc / (wl * z * os)
    far = (float(dxr) * float(dur)) / (float(wl) * float(z) * os)
    fac = (float(dxc) * float(duc)) / (float(wl) * float(z) * os)
    ok = abs(Fraction(far) - ar) <= abs(ar) * Fraction(1, 2 ** 51) and abs(Fraction(fac) - ac) <= abs(ac) * Fraction(1, 2 ** 51)
    return ar, ac, ok


def steps_of(c):
    """uniform view of a case: [(src, call, mul)], src = 0 the initial wavefront, src = j > 0 the result of step j;
    a step is a propagation (call) or the multiplication by one more array-valued plane (mul)"""
    if c['dir'] == 'history':
        return [(int(s['src']), s.get('call'), s.get('mul')) for s in c['steps']]
    if c['dir'] == 'roundtrip':
        return [(0, c['call'], None), (1, c['call2'], None)]
    if c.get('call') is None:
        return []                       # Wavefront.insert on the wavefront itself
    return [(0, c['call'], None)]


def step_info(c):
    """per step: exact alphas, whether lentil's float alpha is within 1 ulp, cumulative unitary scale of the chain"""
    px = {0: pair(c['dx'], Fraction)}
    cum = {0: 1.0}
    unit = {0: 2.0 ** c.get('aexp', 0)}       # natural magnitude of the field (amplitudes are integers times 2**aexp)
    tilted = {0: False}
    out = []
    for k, (src, call, mul) in enumerate(steps_of(c), start=1):
        tilted[k] = tilted[src] or (mul is not None and mul['kind'] == 'tilt')
        unit[k] = unit[src] * (2.0 ** mul.get('aexp', 0) if mul is not None else 1.0)
        if mul is not None:
            px[k], cum[k] = px[src], cum[src]
            out.append({'mul': True, 'ok': True, 'scale': cum[k], 'unit': unit[k], 'tilted': tilted[k]})
            continue
        ar, ac, ok = alphas(list(px[src]), call['du'], c['wl'], c['z'], call['os'])
        du = pair(call['du'], Fraction)
        px[k] = (du[0] / call['os'], du[1] / call['os'])
        cum[k] = cum[src] * math.sqrt(abs(float(ar * ac)))
        out.append({'ar': ar, 'ac': ac, 'ok': ok, 'scale': cum[k], 'unit': unit[k], 'tilted': tilted[k]})
    return out


# ---- planes, from their ARRAYS (no lentil): transmission on the plane's own grid, and the phasors Plane.multiply forms
def amp_np(spec):
    """complex amplitude array of a plane spec: Gaussian integers times 2**aexp (exact in floating point)"""
    A = to_np(spec['A'])
    return A * (2.0 ** spec['aexp']) if spec.get('aexp') else A


def plane_masks(spec):
    A = to_np(spec['A'])
    m = spec.get('mask')
    if m is None:
        return [(A != 0).astype(int)]
    m = np.array(m)
    if m.ndim == 2:
        return [(m != 0).astype(int)]
    return [(x != 0).astype(int) for x in m]


def opd_turns(spec):
    """the plane's OPD in waves, as exact fractions k/den of a turn (None if the plane has no OPD)"""
    if spec.get('opd') is None:
        return None
    den = int(spec['opd_den'])
    return np.array(spec['opd'], dtype=np.int64) % den / float(den)


def transmission(spec):
    """complex transmission of the plane at every sample: amplitude * exp(2 pi i opd / wavelength) inside the mask(s), 0 outside"""
    T = amp_np(spec) * sum(plane_masks(spec))
    t = opd_turns(spec)
    return T if t is None else T * np.exp(2j * np.pi * t)


def plane_phasors(spec):
    """[(data, (offr, offc))]: amplitude*mask on the bounding slice of each mask, offset of the slice centre"""
    A = amp_np(spec)
    n, m = A.shape
    out = []
    for mk in plane_masks(spec):
        bb = bbox(mk.tolist())
        r0, r1, c0, c1 = bb
        data = (A * mk)[r0:r1 + 1, c0:c1 + 1]
        out.append((data, (r0 + (r1 - r0 + 1) // 2 - n // 2, c0 + (c1 - c0 + 1) // 2 - m // 2)))
    return out


def times_canvas(src_plane, T):
    """product on the new plane's grid of a field given on its own grid (both centred at index floor(n/2))"""
    src_plane = np.asarray(src_plane, dtype=complex)
    n, m = T.shape
    sn, sm = src_plane.shape
    out = np.zeros((n, m), dtype=complex)
    for r in range(n):
        for cc in range(m):
            i, j = r - n // 2 + sn // 2, cc - m // 2 + sm // 2
            if 0 <= i < sn and 0 <= j < sm:
                out[r, cc] = T[r, cc] * src_plane[i, j]
    return out


def case_alphas(c):
    """[(ar, ac)] for the propagations of the case, and whether all float alphas are within 1 ulp"""
    info = step_info(c)
    return [(i['ar'], i['ac']) for i in info if 'ar' in i], all(i['ok'] for i in info)


def case_L(c):
    L = 1
    for ar, ac in case_alphas(c)[0]:
        L = lcm(L, lcm(ar.denominator, ac.denominator))
    return L


# ------------------------------------------------------------------ implementation side
_CACHE = {}


def to_np(A):
    return np.array([[complex(v[0], v[1]) for v in row] for row in A], dtype=complex)


def clist(a):
    a = np.asarray(a, dtype=complex)
    return [[[float(v.real), float(v.imag)] for v in row] for row in a]


def wf_summary(w):
    fields = []
    for f in w.data:
        d = np.asarray(f.data)
        fields.append({'shape': [int(s) for s in d.shape], 'offset': [int(f.offset[0]), int(f.offset[1])],
                       'ntilt': len(f.tilt), 'data': clist(d) if d.ndim == 2 else [float(d.real), float(d.imag)],
                       'fps': None if f.pixelscale is None else [float(x) for x in np.broadcast_to(f.pixelscale, (2,))]})
    ps = w.pixelscale
    return {'wl': float(w.wavelength), 'ps': None if ps is None else [float(ps[0]), float(ps[1])],
            'z': None if w.focal_length is None else float(w.focal_length), 'ptype': str(w.ptype),
            'shape': [int(s) for s in tuple(w.shape)], 'fields': fields}


NPDT = {'int': np.int64, 'float32': np.float32, 'uint8': np.uint8, 'bool': bool, 'float': float}


class Tagged(np.ndarray):
    """an ndarray subclass that carries metadata (a legal array_like input of the public API)"""
    def __new__(cls, a, tag='verif'):
        obj = np.asarray(a).view(cls)
        obj.tag = tag
        return obj

    def __array_finalize__(self, obj):
        self.tag = getattr(obj, 'tag', None)


def wrap_array(a, how):
    """the same data handed over as an ndarray subclass; results must equal those for the plain ndarray"""
    if not how:
        return a
    if how == 'ma':
        return np.ma.MaskedArray(a)
    if how == 'ma_masked':                      # some entries flagged invalid: np.asarray still sees the data
        r, c = np.indices(a.shape)
        return np.ma.MaskedArray(a, mask=((r + 2 * c) % 3 == 0))
    if how == 'matrix':
        return np.matrix(a)
    if how == 'subclass':
        return Tagged(a)
    raise ValueError(how)


_HANDED = []      # (what, array handed to lentil, private copy) for the case being run
_KEPT = []


def handed(what, a):
    if a is not None:
        _HANDED.append((what, a, np.array(np.asarray(a), copy=True)))
    return a


def handed_changed():
    for what, a, keep in _HANDED:
        now = np.asarray(a)
        if now.shape != keep.shape or now.dtype != keep.dtype or not np.array_equal(now, keep):
            return f'the caller\'s {what} array was modified'
    return None


def plane_arrays(spec):
    A = to_np(spec['A'])
    if spec.get('adtype'):                    # real-valued amplitude of another dtype (entries are exact in it)
        A = A.real.astype(NPDT[spec['adtype']])
    if spec.get('aexp'):                      # amplitudes scaled over many decades by a power of two (exact)
        A = A * A.dtype.type(2.0 ** spec['aexp'])
    mask = None if spec.get('mask') is None else np.array(spec['mask'], dtype=NPDT.get(spec.get('mdtype'), int))
    return handed('amplitude', wrap_array(A, spec.get('awrap'))), handed('plane mask', mask)


def plane_opd(c, spec):
    """OPD array in metres: k * wavelength / den (0 if the plane has none)"""
    if spec.get('opd') is None:
        return 0
    k = np.array(spec['opd'], dtype=float)
    return handed('opd', k * (fl(c['wl']) / int(spec['opd_den'])))


def plane_history(p, ops):
    """what happened to the Plane OBJECT before it is used: copies taken and tilt fitted on the copies (never in place);
    the original must be what it was"""
    import copy as _copy
    import pickle as _pickle
    kept = []
    for op in ops or []:
        if op == 'fit_tilt_copy':
            kept.append(p.fit_tilt(inplace=False))
        elif op == 'fit_tilt_default':
            kept.append(p.fit_tilt())
        elif op == 'copy_fit':
            q = p.copy()
            q.fit_tilt(inplace=True)
            kept.append(q)
        elif op == 'copy':
            kept.append(p.copy())
        elif op == 'deepcopy_fit':
            kept.append(_copy.deepcopy(p).fit_tilt(inplace=True))
        elif op == 'pickle_fit':
            kept.append(_pickle.loads(_pickle.dumps(p)).fit_tilt(inplace=True))
        else:
            raise ValueError(op)
    return p, kept


def times(w, p, form):
    """Wavefront x Plane in its operator spellings"""
    if form == 'pw':
        return p * w
    if form == 'imul':
        held = w
        w *= p
        return w
    if form == 'method':
        return p.multiply(w)
    return w * p


def mk_plane(lentil, c, spec):
    """one more plane of the optical train: a Pupil on the pupil grid, an Image plane (pixelscale left undefined),
    a plane with a scalar amplitude (1 = a transparent plane), or a Tilt"""
    if spec['kind'] == 'tilt':
        return lentil.Tilt(x=fl(spec['x']), y=fl(spec['y']))
    if 'scalar' in spec:
        a = complex(*spec['scalar'])
        a = a.real if a.imag == 0 else a
        a = int(a) if (spec.get('int') and a == int(a)) else a
        if spec['kind'] == 'pupil':
            return lentil.Pupil(amplitude=a, pixelscale=fl_arg(c['dx']), focal_length=fl(c['z']))
        return lentil.Image() if (a == 1 and spec.get('default')) else lentil.Image(amplitude=a)
    A, mask = plane_arrays(spec)
    if spec['kind'] == 'pupil':
        return lentil.Pupil(amplitude=A, mask=mask, pixelscale=fl_arg(c['dx']), focal_length=fl(c['z']))
    if spec['kind'] == 'image':
        return lentil.Image(amplitude=A, mask=mask)
    raise ValueError(spec['kind'])


def build_wavefront(lentil, c):
    wl, z, dx = fl(c['wl']), fl(c['z']), fl_arg(c['dx'])
    start = c.get('start', c['dir'])
    if c['dir'] == 'refuse':
        # wavefronts propagate_dft cannot evaluate: pixelscale never set, and/or a scalar plane (0-d field data)
        if c.get('scalar') is not None:
            a = complex(*c['scalar'])
            A, mask = (a.real if a.imag == 0 else a), None
        else:
            A, mask = plane_arrays(c)
        ps = None if c.get('no_ps') else dx
        if start == 'pupil':
            return lentil.Wavefront(wl) * lentil.Pupil(amplitude=A, mask=mask, pixelscale=ps, focal_length=z)
        return (lentil.Wavefront(wl, pixelscale=ps, focal_length=z, ptype=lentil.image)
                * lentil.Image(amplitude=A, mask=mask, pixelscale=ps))
    A, mask = plane_arrays(c)
    opd = plane_opd(c, c)
    if start in ('pupil', 'roundtrip'):
        w0 = lentil.Wavefront(wl)
        p = lentil.Pupil(amplitude=A, opd=opd, mask=mask, pixelscale=dx, focal_length=z)
    elif start == 'image':
        w0 = lentil.Wavefront(wl, pixelscale=dx, focal_length=z, ptype=lentil.image)
        p = lentil.Image(amplitude=A, opd=opd, mask=mask, pixelscale=dx)
    else:
        # a wavefront of type none: plain Plane
        w0 = lentil.Wavefront(wl, pixelscale=dx, focal_length=z)
        p = lentil.Plane(amplitude=A, opd=opd, mask=mask, pixelscale=dx)
    p, kept = plane_history(p, c.get('plane_ops'))
    _KEPT[:] = kept                       # the derived planes stay alive, as in a caller's program
    return times(w0, p, c.get('mulform'))


def arg_form(v, form):
    """an argument in one of its legal spellings: per-axis values as tuple / list / ndarray, a single value as a Python
    number, a numpy scalar, a 0-d array or a one-element array"""
    if isinstance(v, (list, tuple)):
        if form in ('uint8', 'int8', 'uint16'):
            return np.array(v, dtype=form)
        return {'tuple': tuple(v), 'list': list(v), 'array': np.array(v)}[form or 'tuple']
    if form == '0d':
        return np.array(v)
    if form == 'arr1':
        return np.array([v])
    if form == 'npscalar':
        return np.asarray(v)[()]
    if form in ('uint8', 'int8', 'uint16'):          # small-width integers: the arithmetic must not wrap (values <= 24)
        return getattr(np, form)(v)
    return v


def do_call(lentil, w, call):
    kw = {'pixelscale': arg_form(fl_arg(call['du']), call.get('du_form')),
          'oversample': np.int64(call['os']) if call.get('os_form') == 'np' else
          getattr(np, call['os_form'])(call['os']) if call.get('os_form') else call['os']}
    if call.get('shape') is not None:
        kw['shape'] = arg_form(call['shape'], call.get('shape_form'))
    if call.get('prop_shape') is not None:
        kw['prop_shape'] = arg_form(call['prop_shape'], call.get('shape_form'))
    if call.get('omask') is not None:
        kw['mask'] = handed('output mask', wrap_array(np.array(call['omask'], dtype=NPDT.get(call.get('omask_dtype'), int)),
                                                    call.get('omask_wrap')))
    return lentil.propagate_dft(w, **kw)


def snapshot(w):
    ps = w.pixelscale
    return {'meta': (float(w.wavelength), None if ps is None else (float(ps[0]), float(ps[1])),
                     None if w.focal_length is None else float(w.focal_length), str(w.ptype),
                     tuple(int(x) for x in tuple(w.shape))),
            'fields': [(np.array(f.data, dtype=complex, copy=True), (int(f.offset[0]), int(f.offset[1])), len(f.tilt))
                       for f in w.data]}


def changed(w, snap):
    """None if the wavefront still is what the snapshot recorded, else a description"""
    now = snapshot(w)
    if now['meta'] != snap['meta']:
        return f'attributes {snap["meta"]} -> {now["meta"]}'
    if len(now['fields']) != len(snap['fields']):
        return f'{len(snap["fields"])} fields -> {len(now["fields"])}'
    for k, (a, b) in enumerate(zip(snap['fields'], now['fields'])):
        if a[1:] != b[1:] or a[0].shape != b[0].shape:
            return f'field {k}: offset/tilt/shape {a[1:]}, {a[0].shape} -> {b[1:]}, {b[0].shape}'
        if not np.array_equal(a[0], b[0]):
            i = np.unravel_index(np.argmax(np.abs(a[0] - b[0])), a[0].shape) if a[0].ndim else ()
            return f'field {k} data at {tuple(int(x) for x in i)}: {a[0][i]} -> {b[0][i]}'
    return None


def result_of(w2):
    return {'out': wf_summary(w2), 'field': clist(w2.field),
            'intensity': [[float(v) for v in row] for row in np.asarray(w2.intensity)]}


def fresh_lentil():
    """a freshly imported lentil for every case: module-level state (memoised grids, caches) cannot leak from one case
    into the next, so a failing case is reproducible on its own and state carried between calls is exercised only
    inside the 'history' cases, which contain their whole call sequence"""
    import sys
    for k in list(sys.modules):
        if k == 'lentil' or k.startswith('lentil.'):
            del sys.modules[k]
    return C.import_lentil()


def _run(c):
    import warnings
    del _HANDED[:]
    es = c.get('errstate')
    with warnings.catch_warnings():
        if c.get('warn_error') and '"matrix"' not in json.dumps(c):     # np.matrix itself warns (PendingDeprecationWarning)
            warnings.simplefilter('error')
        with np.errstate(all=es or 'warn'):
            before = np.geterr()
            res = _run0(c)
            after = np.geterr()
        if after != before and isinstance(res, dict):
            res.setdefault('mutations', []).append({'step': 0, 'wavefront': -1,
                                                    'what': f'the numpy error state of the caller was changed {before} -> {after}'})
    d = handed_changed()
    if d and isinstance(res, dict):
        res.setdefault('mutations', []).append({'step': 0, 'wavefront': -1, 'what': d})
    return res


def big_arrays(c):
    """deterministic amplitude (small integers) and optional segment masks of a large case"""
    n, m = c['n'], c['m']
    r, cc = np.indices((n, m))
    A = ((r * 7 + cc * 3) % 5 - 2) + 1j * ((r + 2 * cc) % 3 - 1)
    A[A == 0] = 1
    masks = None
    if c.get('segments'):
        gr, gc = c['segments']                      # a gr x gc grid of rectangular segments with one-sample gaps
        masks = np.zeros((gr * gc, n, m), dtype=int)
        hr, hc = n // gr, m // gc
        for i in range(gr):
            for j in range(gc):
                masks[i * gc + j, i * hr:(i + 1) * hr - 1, j * hc:(j + 1) * hc - 1] = 1
    return A, masks


def run_big(lentil, c):
    """sizes behind typical thresholds (>= 2**20 output samples, > 1000 rows, > 8 segments, sizes that no block count
    divides): vectorised reference of the same defining sum, verdict computed here"""
    A, masks = big_arrays(c)
    wl, z, dx = fl(c['wl']), fl(c['z']), fl_arg(c['dx'])
    handed('amplitude', A)
    w = lentil.Wavefront(wl) * lentil.Pupil(amplitude=A, mask=masks, pixelscale=dx, focal_length=z)
    call = c['call']
    out = do_call(lentil, w, call)
    plane = A if masks is None else A * masks.sum(axis=0)
    n, m = plane.shape
    S, P = call_shapes(call, (n, m))
    os_ = call['os']
    (ar, ac), = case_alphas(c)[0]
    Ro, Co, Pro, Pco = S[0] * os_, S[1] * os_, P[0] * os_, P[1] * os_
    u = np.arange(Ro) - Ro // 2
    v = np.arange(Co) - Co // 2
    x = np.arange(n) - n // 2
    y = np.arange(m) - m // 2
    tr = float(ar) * np.outer(u, x)
    tc = float(ac) * np.outer(y, v)
    F = np.exp(-2j * np.pi * (tr - np.floor(tr))) @ plane @ np.exp(-2j * np.pi * (tc - np.floor(tc)))
    F *= math.sqrt(abs(float(ar * ac)))
    inside = np.outer((u >= -(Pro // 2)) & (u <= -(Pro // 2) + Pro - 1), (v >= -(Pco // 2)) & (v <= -(Pco // 2) + Pco - 1))
    exp = np.where(inside, F, 0)
    got = np.asarray(out.field)
    verdict = None
    if got.shape != exp.shape:
        verdict = f'output shape {got.shape}, expected {exp.shape}'
    else:
        verdict = arr_close(got, exp)
        verdict = verdict and 'Wavefront.field is not the unitary Fraunhofer sum on the evaluated window and zero elsewhere: ' + verdict
        if not verdict:
            verdict = arr_close(np.asarray(out.intensity), np.abs(exp) ** 2)
            verdict = verdict and 'Wavefront.intensity is not |field|^2 of the Fraunhofer sum: ' + verdict
    if not verdict and str(out.ptype) != 'image':
        verdict = f'output ptype {out.ptype}'
    return {'input': {'shape': [n, m], 'ptype': str(w.ptype)}, 'big': True, 'verdict': verdict,
            'out_shape': [int(x) for x in got.shape], 'max_abs': float(np.max(np.abs(got)))}


def _run0(c):
    lentil = fresh_lentil()
    res = {}
    if c['dir'] == 'big':
        try:
            return run_big(lentil, c)
        except Exception as e:
            return {'input': {}, 'big': True, 'err': type(e).__name__, 'verdict': f'raised {type(e).__name__}: {e}'[:300]}
    try:
        w = build_wavefront(lentil, c)
        res['input'] = wf_summary(w)
        if c['dir'] != 'refuse':
            res['in_plane'] = clist(w.field)       # read BEFORE any propagation
    except Exception as e:
        return {'err': type(e).__name__, 'stage': 'wavefront'}
    if c['dir'] == 'insert':
        # Wavefront.insert(out, weight) on the wavefront itself or on its propagation
        try:
            w2 = w if c.get('call') is None else do_call(lentil, w, c['call'])
            snap2 = snapshot(w2)
            arr = np.array(c['out'], dtype=float)
            wt = fl(c['weight'])
            r = w2.insert(arr) if (wt == 1 and c.get('default_weight')) else w2.insert(arr, wt) if c.get('positional') \
                else w2.insert(arr, weight=wt)
            res['insert'] = {'value': [[float(v) for v in row] for row in np.asarray(r)], 'fields': wf_summary(w2)['fields'],
                             'returned_is_out': bool(r is arr)}
            d = changed(w2, snap2)
            if d:
                res.setdefault('mutations', []).append({'step': 1, 'wavefront': 0, 'what': d})
        except Exception as e:
            res['err'] = type(e).__name__
        return res
    if c['dir'] == 'history':
        # the SAME objects are propagated again and again; every wavefront alive must stay what it was
        live = [w]
        steps = []
        muts = []
        held = []
        for k, (src, call, mul) in enumerate(steps_of(c), start=1):
            srcw = live[src]
            if srcw is None:
                live.append(None)
                steps.append({'err': steps[src - 1].get('err'), 'skipped': True})
                continue
            snaps = [None if x is None else snapshot(x) for x in live]
            try:
                w2 = do_call(lentil, srcw, call) if mul is None else srcw * mk_plane(lentil, c, mul)
                snap_new = snapshot(w2)
                steps.append(result_of(w2))
                # the arrays the caller gets are the caller's: keep one of each across the rest of the history, and scribble
                # over another one - neither may have anything to do with what the library holds
                f_keep, i_keep = w2.field, w2.intensity
                held.append((k, 'field', f_keep, np.array(f_keep, copy=True)))
                held.append((k, 'intensity', i_keep, np.array(i_keep, copy=True)))
                if f_keep.ndim == 2 and f_keep.size:
                    g = w2.field
                    g[...] = -7
                    h = w2.intensity
                    h[...] = -3
                    d = changed(w2, snap_new)
                    if d:
                        muts.append({'step': k, 'wavefront': -2, 'what': f'editing the arrays returned by .field / .intensity of the '
                                     f'result of call {k} changed that wavefront ({d}): they are views of its own memory'})
            except Exception as e:
                w2 = None
                steps.append({'err': type(e).__name__})
            for j, (x, sn) in enumerate(zip(live, snaps)):
                if x is not None:
                    d = changed(x, sn)
                    if d:
                        muts.append({'step': k, 'wavefront': j, 'what': d})
            live.append(w2)
        for k, name, arr, keep in held:
            if arr.shape != keep.shape or not np.array_equal(arr, keep, equal_nan=True):
                muts.append({'step': len(steps), 'wavefront': -2, 'what': f'the .{name} array returned after call {k} was changed by a '
                             f'later call of the library (it is a view of memory the library re-uses)'})
                break
        res['steps'] = steps
        res['mutations'] = muts
        return res
    snap = snapshot(w)
    try:
        w2 = do_call(lentil, w, c['call'])
        if c['dir'] == 'roundtrip':
            res['mid_shape'] = [int(s) for s in tuple(w2.shape)]
            snap2 = snapshot(w2)
            w3 = do_call(lentil, w2, c['call2'])
            d = changed(w2, snap2)
            if d:
                res.setdefault('mutations', []).append({'step': 2, 'wavefront': 1, 'what': d})
            w2 = w3
        res.update(result_of(w2))
        if c['dir'] in ('pupil', 'image') and isinstance(c.get('mask'), list) and isinstance(c['mask'][0][0], list) \
                and len(c['mask']) > 1:
            # the same plane with its segments listed in the opposite order: the order of the fields must not matter
            wr = build_wavefront(lentil, dict(c, mask=c['mask'][::-1]))
            res['field_rev'] = clist(do_call(lentil, wr, c['call']).field)
    except Exception as e:
        res['err'] = type(e).__name__
    d = changed(w, snap)
    if d:
        res.setdefault('mutations', []).append({'step': 1, 'wavefront': 0, 'what': d})
    return res


def key(c):
    return json.dumps({k: v for k, v in c.items() if not k.startswith('_')}, sort_keys=True)


def run_impl(c):
    k = key(c)
    if k not in _CACHE:
        _CACHE[k] = _run(c)
    return _CACHE[k]


# ------------------------------------------------------------------ model side
def enc_call(call):
    dur, duc = pair(call['du'], Fraction)
    out = C.enc_q(dur) + C.enc_q(duc)
    for k in ('shape', 'prop_shape'):
        v = call.get(k)
        out += [0] if v is None else [1] + [int(x) for x in pair(v)]
    out += [int(call['os'])]
    m = call.get('omask')
    if m is None:
        out += [0]
    else:
        out += [1, len(m), len(m[0])] + [int(v) for row in m for v in row]
    return out


def enc_fields(fields):
    """plist pfield: 2-d fields (tag 2) and 0-d fields (tag 0), no tilt"""
    out = [len(fields)]
    for f in fields:
        if len(f['shape']) == 0:
            out += [0] + C.enc_c((C.frac(f['data'][0]), C.frac(f['data'][1])))
        else:
            out += [2, f['shape'][0], f['shape'][1]]
            for row in f['data']:
                for v in row:
                    out += C.enc_c((C.frac(v[0]), C.frac(v[1])))
        out += [f['offset'][0], f['offset'][1], 0]
    return out


def encode(c):
    """the model is run on the fields the implementation's wavefront holds (public attributes)"""
    if c['dir'] == 'big':
        return None
    impl = run_impl(c)
    if 'input' not in impl:
        return None
    if c['dir'] == 'insert':
        if 'insert' not in impl:
            return None
        out = [4, 1] + enc_fields(impl['insert']['fields'])
        out += [len(c['out']), len(c['out'][0])]
        for row in c['out']:
            for v in row:
                out += C.enc_c((Fraction(v), Fraction(0)))
        return out + C.enc_c((Fraction(c['weight']), Fraction(0)))
    w = impl['input']
    refuse = c['dir'] == 'refuse'
    if w['z'] is None or not math.isfinite(w['z']) or (w['ps'] is None and not refuse):
        return None
    for f in w['fields']:
        if f['ntilt'] or (len(f['shape']) != 2 and not (refuse and len(f['shape']) == 0)):
            return None
    if len(w['shape']) != 2 and not (refuse and c['call'].get('shape') is not None):
        return None
    L = case_L(c)
    if L > LMODEL:
        return None          # phases not on a small root-of-unity grid (near ties, SI-like values): oracle only
    out = [{'roundtrip': 2, 'history': 3}.get(c['dir'], 1), L]
    out += C.enc_q(w['wl']) + ([0] if w['ps'] is None else [1] + C.enc_q(w['ps'][0]) + C.enc_q(w['ps'][1])) + [1] + C.enc_q(w['z'])
    wsh = w['shape'] if len(w['shape']) == 2 else [1, 1]       # shape (): never read when the call names a shape
    out += [wsh[0], wsh[1], PT[w['ptype']], 0] + enc_fields(w['fields'])
    if c['dir'] == 'history':
        st = steps_of(c)
        out += [len(st)]
        ptype = {0: w['ptype']}
        shp = {0: tuple(w['shape'])}
        for k, (src, call, mul) in enumerate(st, start=1):
            if mul is None:
                out += [0, src] + enc_call(call)
                ptype[k] = SWAP.get(ptype[src], 'none')
                S, _P = call_shapes(call, shp[src])
                shp[k] = (S[0] * call['os'], S[1] * call['os'])
                continue
            if mul['kind'] == 'tilt' or 'scalar' in mul:
                # a plane with a 0-d amplitude: one 0-d phasor at offset (0, 0); shape and type are kept.  A Tilt is the
                # transparent plane (amplitude 1) plus tilt metadata, which the untilted views compared here do not see
                a = (1, 0) if mul['kind'] == 'tilt' else tuple(mul['scalar'])
                ptype[k], shp[k] = ptype[src], shp[src]
                out += [1, src, shp[k][0], shp[k][1], PT[ptype[k]], 1, 0] + C.enc_c((Fraction(a[0]), Fraction(a[1]))) + [0, 0, 0]
                continue
            # the plane as Plane.multiply sees it: its phasors; result type from the multiplication table
            ptype[k] = mul['kind'] if ptype[src] in ('none', mul['kind']) else 'none'
            ph = plane_phasors(mul)
            shp[k] = (len(mul['A']), len(mul['A'][0]))
            out += [1, src, shp[k][0], shp[k][1], PT[ptype[k]], len(ph)]
            for data, off in ph:
                out += [2, data.shape[0], data.shape[1]]
                for v in data.ravel():
                    out += C.enc_c((C.frac(float(v.real)), C.frac(float(v.imag))))
                out += [int(off[0]), int(off[1]), 0]
        return out
    out += enc_call(c['call'])
    if c['dir'] == 'roundtrip':
        out += enc_call(c['call2'])
    return out


def case_scale(c):
    return step_info(c)[-1]['scale']


def read_wavefront(rd, L, scale):
    """one eresult (ewavefront) of Extract/RunC02.v"""
    st = rd.z()
    if st == 1:
        return {'err': C.ERRNAMES[rd.z()]}
    assert st == 0
    wl = rd.q()
    ps = rd.opt(lambda: (rd.q(), rd.q()))
    z = rd.opt(rd.q)
    shape = [rd.z(), rd.z()]
    ptype = {0: 'none', 1: 'pupil', 2: 'image'}[rd.z()]

    def read_field():
        tag = rd.z()
        assert tag == 2
        a = rd.arr()
        off = [rd.z(), rd.z()]
        assert rd.z() == 0
        return {'shape': [len(a), len(a[0]) if a else 0], 'offset': off,
                'data': [[C.kval(v, L) * scale for v in row] for row in a]}
    fields = rd.lst(read_field)

    def read_res(f):
        s = rd.z()
        if s == 1:
            return {'err': C.ERRNAMES[rd.z()]}
        return [[f(C.kval(v, L)) for v in row] for row in rd.arr()]
    field = read_res(lambda v: v * scale)
    inten = read_res(lambda v: v * scale * scale)
    return {'wl': wl, 'ps': ps, 'z': z, 'shape': shape, 'ptype': ptype, 'fields': fields, 'field': field, 'intensity': inten}


def decode(c, ints):
    if c['dir'] == 'insert':
        rd = C.Reader(ints, 1)
        if rd.z() == 1:
            return {'err': C.ERRNAMES[rd.z()]}
        out = {'insert': [[C.kval(v, 1).real for v in row] for row in rd.arr()]}
        assert rd.done()
        return out
    L = case_L(c)
    rd = C.Reader(ints, L)
    if c['dir'] == 'history':
        assert rd.z() == 0
        info = step_info(c)
        n = rd.z()
        assert n == len(info)
        out = {'steps': [dict(read_wavefront(rd, L, i['scale']), unit=i['unit'], tilted=i['tilted']) for i in info]}
    else:
        out = dict(read_wavefront(rd, L, case_scale(c)), unit=step_info(c)[-1]['unit'])
    assert rd.done()
    return out


def cx(a):
    """[[ [re, im] ]] -> complex ndarray"""
    a = np.asarray(a, dtype=float)
    if a.ndim == 3:
        return a[..., 0] + 1j * a[..., 1]
    return a.astype(complex)


def arr_close(a, b, tol=TOL, unit=1.0):
    """unit = natural magnitude of the compared quantity (1 for integer amplitudes, 2**aexp for scaled ones): the
    tolerance is relative, so a check on amplitudes of 1e-12 is as tight as on amplitudes of 1"""
    a = np.asarray(a, dtype=complex)
    b = np.asarray(b, dtype=complex)
    if a.shape != b.shape:
        return f'shapes differ: {a.shape} vs {b.shape}'
    if a.size == 0:
        return None
    d = np.max(np.abs(a - b))
    if d > tol * (unit + np.max(np.abs(b))):
        i = np.unravel_index(np.argmax(np.abs(a - b)), a.shape)
        return f'max difference {d:.3g} at index {tuple(int(x) for x in i)}: {a[i]} vs {b[i]}'
    return None


def num_close(a, b):
    return abs(float(a) - float(b)) <= 1e-14 * abs(float(b))


def compare(c, impl, model):
    if c['dir'] == 'insert':
        if ('err' in impl) != ('err' in model):
            return f'implementation {impl.get("err", "returned a value")}, model {model.get("err", "returned a value")}'
        if 'err' in impl:
            return None if impl['err'] == model['err'] else f'error kinds differ: impl {impl["err"]} model {model["err"]}'
        msg = arr_close(np.asarray(impl['insert']['value']), np.asarray(model['insert']))
        return msg and 'Wavefront.insert: ' + msg
    if c['dir'] == 'history':
        if 'steps' not in impl:
            return f'implementation {impl.get("err")} while building the wavefront'
        st = steps_of(c)
        for k, (a, b) in enumerate(zip(impl['steps'], model['steps']), start=1):
            if b.get('tilted') and st[k - 1][2] is None:
                continue          # the propagation of a tilted branch belongs to C04 (the model here has no tilt shift)
            if st[k - 1][2] is not None:
                # behind one more plane: only the embedding (Wavefront.field) is pinned, not the grouping into Fields
                msg = None
                if ('err' in a) != ('err' in b):
                    msg = f'implementation {a.get("err", "returned a value")}, model {b.get("err", "returned a value")}'
                elif 'err' not in a:
                    msg = arr_close(cx(a['field']), b['field'], unit=b.get('unit', 1.0))
                    msg = msg and 'Wavefront.field behind the plane: ' + msg
            else:
                msg = compare_one(a, b)
            if msg:
                return f'call {k} of the history: {msg}'
        return None
    return compare_one(impl, model)


def compare_one(impl, model):
    U = model.get('unit', 1.0)
    if ('err' in impl) != ('err' in model):
        return f'implementation {impl.get("err", "returned a value")}, model {model.get("err", "returned a value")}'
    if 'err' in impl:
        return None if impl['err'] == model['err'] else f'error kinds differ: impl {impl["err"]} model {model["err"]}'
    o = impl['out']
    if not num_close(o['wl'], model['wl']):
        return f'wavelength {o["wl"]} vs model {model["wl"]}'
    if o['z'] is None or model['z'] is None or not num_close(o['z'], model['z']):
        return f'focal length {o["z"]} vs model {model["z"]}'
    if o['ps'] is None or not (num_close(o['ps'][0], model['ps'][0]) and num_close(o['ps'][1], model['ps'][1])):
        return f'pixelscale {o["ps"]} vs model {[str(x) for x in model["ps"]]}'
    if o['ptype'] != model['ptype']:
        return f'ptype {o["ptype"]} vs model {model["ptype"]}'
    if o['shape'] != model['shape']:
        return f'shape {o["shape"]} vs model {model["shape"]}'
    if len(o['fields']) != len(model['fields']):
        return f'{len(o["fields"])} output fields vs model {len(model["fields"])}'
    # the order of the output fields is not pinned: match them up
    left = list(model['fields'])
    for k, a in enumerate(o['fields']):
        hit = None
        for b in left:
            if a['shape'] == b['shape'] and a['offset'] == b['offset'] and arr_close(cx(a['data']), b['data'], unit=U) is None:
                hit = b
                break
        if hit is None:
            b = left[0]
            if a['shape'] != b['shape'] or a['offset'] != b['offset']:
                return f'output field {k}: shape/offset {a["shape"]}/{a["offset"]} vs model {b["shape"]}/{b["offset"]}'
            return f'output field {k} data matches no field of the model: {arr_close(cx(a["data"]), b["data"], unit=U)}'
        left.remove(hit)
    for name in ('field', 'intensity'):
        mv = model[name]
        if isinstance(mv, dict):
            return f'model could not render {name}: {mv["err"]}'
        msg = arr_close(cx(impl[name]) if name == 'field' else np.asarray(impl[name]), mv, unit=U if name == 'field' else U * U)
        if msg:
            return f'Wavefront.{name}: {msg}'
    return None


# ------------------------------------------------------------------ direct oracle: plain loops over the defining sum
def e_turns(t):
    t = t - math.floor(t)
    return cmath.exp(-2j * math.pi * float(t))


def bbox(mask):
    """bounding box (array indices) of the samples with mask > 0; None if there is none"""
    rows = [i for i, row in enumerate(mask) if any(v > 0 for v in row)]
    cols = [j for j in range(len(mask[0])) if any(row[j] > 0 for row in mask)]
    if not rows:
        return None
    return rows[0], rows[-1], cols[0], cols[-1]


def fraunhofer(plane, ar, ac, S, P, os, omask):
    """expected Wavefront.field: the unitary Fraunhofer sum of the plane (optical axis at index floor(n/2)) on the
    evaluated window, zeros elsewhere.  Returns (array, window in plane coordinates (umin, umax, vmin, vmax) or None)"""
    plane = np.asarray(plane, dtype=complex)
    n, m = plane.shape
    Ro, Co = S[0] * os, S[1] * os
    Pro, Pco = P[0] * os, P[1] * os
    out = [[0j] * Co for _ in range(Ro)]
    bb = (0, Ro - 1, 0, Co - 1) if omask is None else bbox(omask)
    # window in plane coordinates: (bounding box) /\ (centred prop box)
    umin = max(bb[0] - Ro // 2, -(Pro // 2))
    umax = min(bb[1] - Ro // 2, -(Pro // 2) + Pro - 1)
    vmin = max(bb[2] - Co // 2, -(Pco // 2))
    vmax = min(bb[3] - Co // 2, -(Pco // 2) + Pco - 1)
    if umin > umax or vmin > vmax:
        return out, None
    scale = math.sqrt(abs(float(ar * ac)))
    for i in range(Ro):
        u = i - Ro // 2
        if not umin <= u <= umax:
            continue
        er = [e_turns(ar * (x - n // 2) * u) for x in range(n)]
        for j in range(Co):
            v = j - Co // 2
            if not vmin <= v <= vmax:
                continue
            ec = [e_turns(ac * (y - m // 2) * v) for y in range(m)]
            tot = 0j
            for x in range(n):
                for y in range(m):
                    if plane[x, y] != 0:
                        tot += plane[x, y] * er[x] * ec[y]
            out[i][j] = tot * scale
    return out, (umin, umax, vmin, vmax)


def mask_ok(call, S):
    """None if the mask is usable, else the exception the call must raise"""
    m = call.get('omask')
    if m is None:
        return None
    Ro, Co = S[0] * call['os'], S[1] * call['os']
    if len(m) != Ro and len(m[0]) != Co:
        return 'ValueError'
    if len(m) != Ro or len(m[0]) != Co:
        return 'unspecified'
    if bbox(m) is None:
        return 'IndexError'
    return None


def oracle(c, impl):
    if 'input' not in impl:
        return f'building the wavefront raised {impl.get("err")}'
    if c['dir'] == 'history':
        return oracle_history(c, impl)
    if c['dir'] == 'big':
        return impl.get('verdict') or (mutation_msg(impl['mutations'][0]) if impl.get('mutations') else None)
    if c['dir'] == 'refuse':
        return oracle_refuse(c, impl)
    if c['dir'] == 'insert':
        return oracle_insert(c, impl)
    if impl.get('mutations'):
        return mutation_msg(impl['mutations'][0])
    if c['dir'] == 'none':
        return None if impl.get('err') == 'TypeError' else 'a wavefront of type none was not refused with TypeError'
    wshape = tuple(impl['input']['shape'])
    S1, P1 = call_shapes(c['call'], wshape)
    bad = mask_ok(c['call'], S1)
    S2 = P2 = None
    if bad is None and c['dir'] == 'roundtrip':
        S2, P2 = call_shapes(c['call2'], (S1[0] * c['call']['os'], S1[1] * c['call']['os']))
        bad = mask_ok(c['call2'], S2)
    if bad == 'unspecified':
        return None
    if bad is not None:
        return None if impl.get('err') == bad else f'an unusable mask was not refused with {bad} (got {impl.get("err", "a result")})'
    if 'err' in impl:
        return f'propagate_dft raised {impl["err"]}'
    (al, _) = case_alphas(c)
    plane = transmission(c)        # the input plane from the ARRAYS of the plane, not from the wavefront's own view of it
    exp, win = fraunhofer(plane, al[0][0], al[0][1], S1, P1, c['call']['os'], c['call'].get('omask'))
    os_, S_, du_ = c['call']['os'], S1, c['call']['du']
    if c['dir'] == 'roundtrip':
        exp, win = fraunhofer(np.array(exp), al[1][0], al[1][1], S2, P2, c['call2']['os'], c['call2'].get('omask'))
        os_, S_, du_ = c['call2']['os'], S2, c['call2']['du']
    U = step_info(c)[-1]['unit']
    msg = arr_close(cx(impl['field']), exp, unit=U)
    if msg:
        return 'Wavefront.field is not the unitary Fraunhofer sum on the evaluated window and zero elsewhere: ' + msg
    msg = arr_close(np.asarray(impl['intensity']), np.abs(np.array(exp)) ** 2, unit=U * U)
    if msg:
        return 'Wavefront.intensity is not |field|^2 of the Fraunhofer sum: ' + msg
    if 'field_rev' in impl:
        msg = arr_close(cx(impl['field_rev']), exp, unit=U)
        if msg:
            return 'with the segments of the plane listed in the opposite order Wavefront.field is no longer the Fraunhofer sum: ' + msg
    o = impl['out']
    if o['shape'] != [S_[0] * os_, S_[1] * os_]:
        return f'output shape {o["shape"]} is not shape*oversample'
    # every output Field of an untilted wavefront covers exactly the evaluated window
    for k, f in enumerate(o['fields']):
        if win is None:
            return f'output field {k} exists although no sample is evaluated'
        rmin = -(f['shape'][0] // 2) + f['offset'][0]
        cmin = -(f['shape'][1] // 2) + f['offset'][1]
        ext = (rmin, rmin + f['shape'][0] - 1, cmin, cmin + f['shape'][1] - 1)
        if ext != win:
            return f'output field {k} covers {ext}, the evaluated window is {win}'
    inp = impl['input']
    if o['wl'] != inp['wl']:
        return f'wavelength changed: {inp["wl"]} -> {o["wl"]}'
    if o['z'] != inp['z']:
        return f'focal length changed: {inp["z"]} -> {o["z"]}'
    du = pair(du_, Fraction)
    want = [float(du[0] / os_), float(du[1] / os_)]
    if not (num_close(o['ps'][0], want[0]) and num_close(o['ps'][1], want[1])):
        return f'output pixelscale {o["ps"]} is not du/oversample = {want}'
    for k, f in enumerate(o['fields']):
        if f.get('fps') is None or not (num_close(f['fps'][0], want[0]) and num_close(f['fps'][1], want[1])):
            return f'output field {k} carries pixelscale {f.get("fps")}, not du/oversample = {want}'
    want_pt = {'pupil': 'image', 'image': 'pupil', 'roundtrip': 'pupil'}[c['dir']]
    if o['ptype'] != want_pt:
        return f'output ptype {o["ptype"]}, expected {want_pt}'
    return None


def lay_over(plane, R, Cc):
    """a field given on its own grid laid centre on centre (index floor(n/2)) over an R x Cc array"""
    plane = np.asarray(plane, dtype=complex)
    n, m = plane.shape
    out = np.zeros((R, Cc), dtype=complex)
    for i in range(R):
        for j in range(Cc):
            a, b = i - R // 2 + n // 2, j - Cc // 2 + m // 2
            if 0 <= a < n and 0 <= b < m:
                out[i, j] = plane[a, b]
    return out


def oracle_insert(c, impl):
    """Wavefront.insert(out, weight) = out + weight * |field|^2, the field laid centre on centre over out"""
    if impl.get('mutations'):
        return mutation_msg(impl['mutations'][0])
    plane = transmission(c)
    if c.get('call') is not None:
        S, P = call_shapes(c['call'], plane.shape)
        if mask_ok(c['call'], S) is not None:
            return None
        (ar, ac), = case_alphas(c)[0]
        plane, _win = fraunhofer(plane, ar, ac, S, P, c['call']['os'], c['call'].get('omask'))
    if 'err' in impl:
        return f'Wavefront.insert raised {impl["err"]}'
    out = np.array(c['out'], dtype=float)
    exp = out + float(Fraction(c['weight'])) * np.abs(lay_over(plane, *out.shape)) ** 2
    msg = arr_close(np.asarray(impl['insert']['value']), exp)
    return msg and 'Wavefront.insert(out, weight) is not out + weight*|field|^2 with the field centred on out: ' + msg


def oracle_refuse(c, impl):
    """a wavefront without pixelscale (alpha undefined) or with 0-d field data: where no sample is evaluated the result is
    the all-zero plane with the usual metadata; where samples are evaluated a wavefront without pixelscale cannot be
    given any value (the kind of exception is compared with the model, not pinned here)"""
    if impl.get('mutations'):
        return mutation_msg(impl['mutations'][0])
    call = c['call']
    wshape = tuple(impl['input']['shape'])
    if call.get('shape') is None and len(wshape) != 2:
        return None
    S, P = call_shapes(call, wshape)
    bad = mask_ok(call, S)
    if bad == 'unspecified':
        return None
    if bad is not None:
        return None if impl.get('err') == bad else f'an unusable mask was not refused with {bad} (got {impl.get("err", "a result")})'
    _z, win = fraunhofer(np.zeros((1, 1)), Fraction(0), Fraction(0), S, P, call['os'], call.get('omask'))
    if win is None:
        if 'err' in impl:
            return f'no sample is evaluated (the window is empty), yet propagate_dft raised {impl["err"]}'
        f = cx(impl['field'])
        if f.shape != (S[0] * call['os'], S[1] * call['os']) or np.any(f != 0) or impl['out']['fields']:
            return 'no sample is evaluated (the window is empty), yet the result is not the all-zero plane'
        return None
    if c.get('no_ps') and 'err' not in impl:
        return 'a wavefront whose pixelscale was never set was propagated to numbers (alpha is undefined)'
    return None


def mutation_msg(m):
    if m.get('wavefront') == -1:
        return m['what'] + ' by the calls of this case (arrays handed to the public API and the process state belong to the caller)'
    if m.get('wavefront') == -2:
        return m['what']
    return (f'call {m["step"]} changed wavefront #{m["wavefront"]} (0 = the initial wavefront, j = result of call j) '
            f'that the caller still holds: {m["what"]}; a later propagation of it no longer sees the same input plane')


SWAP = {'pupil': 'image', 'image': 'pupil'}


def oracle_history(c, impl):
    """one wavefront object propagated several times, intermediate results re-used: every call must give what it would
    give on a fresh copy of its input (the Fraunhofer sum of the input plane as it was BEFORE any call)"""
    info = step_info(c)
    inp = impl['input']
    plane = {0: transmission(c)}      # from the arrays of the plane(s); every further plane multiplies on a canvas
    shape = {0: tuple(inp['shape'])}
    ptype = {0: inp['ptype']}
    muts = {}
    for m in impl.get('mutations', []):
        muts.setdefault(m['step'], m)
    note = ''
    for k, (src, call, mul) in enumerate(steps_of(c), start=1):
        got = impl['steps'][k - 1]
        plane[k] = None
        if plane[src] is None:
            continue
        if mul is not None:
            if 'err' in got:
                return f'step {k}: multiplying by a {mul["kind"]} plane raised {got["err"]}'
            if k in muts and not note:
                note = f' [earlier, {mutation_msg(muts[k])}]'
            if mul['kind'] == 'tilt':
                # a tilted branch: its own far field is C04's business; the wavefront it was split off must not change
                shape[k], ptype[k] = shape[src], ptype[src]
                continue
            if 'scalar' in mul:
                plane[k] = complex(*mul['scalar']) * plane[src]
                shape[k], ptype[k] = shape[src], ptype[src]
                continue
            T = transmission(mul)
            plane[k] = times_canvas(plane[src], T)       # product of the transmissions, sample by sample
            shape[k] = T.shape
            ptype[k] = mul['kind'] if ptype[src] in ('none', mul['kind']) else 'none'
            continue
        S, P = call_shapes(call, shape[src])
        bad = mask_ok(call, S)
        if bad == 'unspecified':
            continue
        if bad is not None:
            if got.get('err') != bad:
                return f'call {k}: an unusable mask was not refused with {bad} (got {got.get("err", "a result")})'
            continue
        if 'err' in got:
            return f'call {k}: propagate_dft raised {got["err"]}'
        os_ = call['os']
        exp, win = fraunhofer(plane[src], info[k - 1]['ar'], info[k - 1]['ac'], S, P, os_, call.get('omask'))
        tag = f'call {k} (propagating {"the initial wavefront" if src == 0 else f"the result of call {src}"}){note}'
        U = info[k - 1]['unit']
        msg = arr_close(cx(got['field']), exp, unit=U)
        if msg:
            return f'{tag}: Wavefront.field is not the unitary Fraunhofer sum on the evaluated window and zero elsewhere: ' + msg
        msg = arr_close(np.asarray(got['intensity']), np.abs(np.array(exp)) ** 2, unit=U * U)
        if msg:
            return f'{tag}: Wavefront.intensity is not |field|^2 of the Fraunhofer sum: ' + msg
        o = got['out']
        if o['shape'] != [S[0] * os_, S[1] * os_]:
            return f'{tag}: output shape {o["shape"]} is not shape*oversample'
        for j, f in enumerate(o['fields']):
            if win is None:
                return f'{tag}: output field {j} exists although no sample is evaluated'
            rmin = -(f['shape'][0] // 2) + f['offset'][0]
            cmin = -(f['shape'][1] // 2) + f['offset'][1]
            ext = (rmin, rmin + f['shape'][0] - 1, cmin, cmin + f['shape'][1] - 1)
            if ext != win:
                return f'{tag}: output field {j} covers {ext}, the evaluated window is {win}'
        if o['wl'] != inp['wl']:
            return f'{tag}: wavelength changed: {inp["wl"]} -> {o["wl"]}'
        if o['z'] != inp['z']:
            return f'{tag}: focal length changed: {inp["z"]} -> {o["z"]}'
        du = pair(call['du'], Fraction)
        want = [float(du[0] / os_), float(du[1] / os_)]
        if not (num_close(o['ps'][0], want[0]) and num_close(o['ps'][1], want[1])):
            return f'{tag}: output pixelscale {o["ps"]} is not du/oversample = {want}'
        for j, f in enumerate(o['fields']):
            if f.get('fps') is None or not (num_close(f['fps'][0], want[0]) and num_close(f['fps'][1], want[1])):
                return f'{tag}: output field {j} carries pixelscale {f.get("fps")}, not du/oversample = {want}'
        if o['ptype'] != SWAP[ptype[src]]:
            return f'{tag}: output ptype {o["ptype"]}, expected {SWAP[ptype[src]]}'
        if k in muts and not note:
            # keep going: a later call on the changed wavefront shows the consequence
            note = f' [earlier, {mutation_msg(muts[k])}]'
        plane[k] = np.array(exp)
        shape[k] = (S[0] * os_, S[1] * os_)
        ptype[k] = o['ptype']
    if impl.get('mutations'):
        return mutation_msg(impl['mutations'][0])
    return None


# ------------------------------------------------------------------ generation
DYAD = ['1', '1/2', '1/4', '1/8', '1/16', '2']


def rnd_scale(rng, per_axis_p=0.35):
    a = rng.choice(DYAD[:5])
    if rng.random() < per_axis_p:
        b = rng.choice(DYAD[:5])
        return [a, b]
    return a


def rnd_pupil(rng, maxn):
    n, m = rng.randint(1, maxn), rng.randint(1, maxn)
    if rng.random() < 0.15:
        m = n
    # support: a sub-box, usually off-centre
    r0 = rng.randint(0, n - 1)
    r1 = rng.randint(r0, n - 1)
    c0 = rng.randint(0, m - 1)
    c1 = rng.randint(c0, m - 1)
    t = rng.random()
    if t < 0.3:
        r0, r1, c0, c1 = 0, n - 1, 0, m - 1
    elif t < 0.42:
        r1, c1 = r0, c0                      # a single illuminated pixel, anywhere (a 1x1 Field with an offset)
    A = [[[0, 0] for _ in range(m)] for _ in range(n)]
    for r in range(r0, r1 + 1):
        for cc in range(c0, c1 + 1):
            if rng.random() < 0.8:
                A[r][cc] = [rng.randint(-4, 4), rng.randint(-4, 4)]
    if all(v == [0, 0] for row in A for v in row):
        A[r0][c0] = [1, rng.randint(-2, 2)]
    t = rng.random()
    mask = None
    if t < 0.25:
        # explicit 2-d mask: a box that may be larger or smaller than the support
        a0 = rng.randint(0, n - 1)
        a1 = rng.randint(a0, n - 1)
        b0 = rng.randint(0, m - 1)
        b1 = rng.randint(b0, m - 1)
        mask = [[1 if (a0 <= r <= a1 and b0 <= cc <= b1 and rng.random() < 0.85) else 0 for cc in range(m)] for r in range(n)]
        if not any(v for row in mask for v in row):
            mask[a0][b0] = 1
        if rng.random() < 0.25:
            mask = [mask]                    # a mask cube with a single layer (1, r, c)
    elif t < 0.42 and n * m >= 4:
        # segmented plane: 2-3 disjoint boxes (split along rows or columns)
        segs = []
        if n >= 2 and (m < 2 or rng.random() < 0.5):
            cut = rng.randint(1, n - 1)
            boxes = [(0, cut - 1, 0, m - 1), (cut, n - 1, 0, m - 1)]
        else:
            cut = rng.randint(1, m - 1)
            boxes = [(0, n - 1, 0, cut - 1), (0, n - 1, cut, m - 1)]
        for (a0, a1, b0, b1) in boxes:
            sm = [[1 if (a0 <= r <= a1 and b0 <= cc <= b1 and rng.random() < 0.8) else 0 for cc in range(m)] for r in range(n)]
            if not any(v for row in sm for v in row):
                sm[a0][b0] = 1
            if rng.random() < 0.2:               # a one-pixel segment
                sm = [[0] * m for _ in range(n)]
                sm[rng.randint(a0, a1)][rng.randint(b0, b1)] = 1
            segs.append(sm)
        mask = segs
    return A, mask


def rnd_call(rng, wshape, maxs, maxos):
    os = rng.choice([1, 2, 2, 3][:maxos + 1])
    t = rng.random()
    if t < 0.2:
        shape = None
        S = wshape
    elif t < 0.35:
        k = rng.randint(1, maxs)
        shape, S = k, (k, k)
    else:
        S = (rng.randint(1, maxs), rng.randint(1, maxs))
        shape = list(S)
    t = rng.random()
    if t < 0.35:
        prop = None
    elif t < 0.45:
        prop = rng.randint(1, max(1, min(S)))
    elif t < 0.93:
        prop = [rng.randint(1, S[0]), rng.randint(1, S[1])]
    else:
        prop = [S[0] + rng.randint(0, 2), S[1] + rng.randint(0, 2)]     # not forbidden by the code
    omask = None
    Ro, Co = S[0] * os, S[1] * os
    t = rng.random()
    if t < 0.5:
        k = rng.random()
        if k < 0.12:
            omask = [[1] * Co for _ in range(Ro)]
        elif k < 0.25:
            omask = [[0] * Co for _ in range(Ro)]
            omask[rng.randint(0, Ro - 1)][rng.randint(0, Co - 1)] = rng.choice([1, 2, 5])
        elif k < 0.7:
            # a box: the bounding box clips the propagated chip on any side
            a0 = rng.randint(0, Ro - 1)
            a1 = rng.randint(a0, Ro - 1)
            b0 = rng.randint(0, Co - 1)
            b1 = rng.randint(b0, Co - 1)
            omask = [[1 if (a0 <= r <= a1 and b0 <= cc <= b1) else 0 for cc in range(Co)] for r in range(Ro)]
        elif k < 0.9:
            p = rng.choice([0.1, 0.3, 0.6])
        elif k < 0.95:
            omask = [[0] * Co for _ in range(Ro)]                                  # IndexError
        else:
            omask = [[1] * (Co + 1) for _ in range(Ro + 1)]                        # ValueError
    call = {'du': rnd_scale(rng), 'shape': shape, 'prop_shape': prop, 'os': os, 'omask': omask}
    rnd_forms(rng, call)
    return call, (Ro, Co)


def rnd_forms(rng, call):
    """legal spellings of the same arguments: tuple / list / ndarray for per-axis values, mask dtypes"""
    for k in ('du_form', 'shape_form', 'omask_dtype', 'os_form', 'omask_wrap'):
        call.pop(k, None)
    if not isinstance(call['du'], list) and rng.random() < 0.25:
        call['du_form'] = rng.choice(['0d', 'arr1', 'npscalar'])
    if not isinstance(call.get('shape'), list) and not isinstance(call.get('prop_shape'), list) \
            and (call.get('shape') is not None or call.get('prop_shape') is not None) and rng.random() < 0.4:
        call['shape_form'] = rng.choice(['0d', 'arr1', 'npscalar'])
    if rng.random() < 0.2:
        call['os_form'] = rng.choice(['np', 'uint8', 'int8', 'uint16'])
    if (call.get('shape') is not None or call.get('prop_shape') is not None) and rng.random() < 0.12:
        call['shape_form'] = rng.choice(['uint8', 'int8', 'uint16'])
    if False:
        call['os_form'] = 'np'
    if call.get('omask') is not None and rng.random() < 0.2:
        call['omask_wrap'] = rng.choice(['ma', 'ma_masked', 'matrix', 'subclass'])
    if isinstance(call['du'], list) and rng.random() < 0.5:
        call['du_form'] = rng.choice(['list', 'array'])
    if (isinstance(call.get('shape'), list) or isinstance(call.get('prop_shape'), list)) and rng.random() < 0.4:
        call['shape_form'] = rng.choice(['list', 'array'])
    m = call.get('omask')
    if m is not None and rng.random() < 0.5:
        vals = {v for row in m for v in row}
        if vals <= {0, 1}:
            call['omask_dtype'] = rng.choice(['bool', 'uint8', 'float'])
        elif min(vals) >= 0:
            call['omask_dtype'] = rng.choice(['uint8', 'float'])
        else:
            call['omask_dtype'] = 'float'


def box_mask(rng, Ro, Co):
    a0 = rng.randint(0, Ro - 1)
    a1 = rng.randint(a0, Ro - 1)
    b0 = rng.randint(0, Co - 1)
    b1 = rng.randint(b0, Co - 1)
    return [[1 if (a0 <= r <= a1 and b0 <= cc <= b1) else 0 for cc in range(Co)] for r in range(Ro)]


def vary(rng, call, wshape, maxs):
    """the same call with ONE argument changed (or none: the call repeated); the mask follows the output shape"""
    new = json.loads(json.dumps(call))
    S, P = call_shapes(new, wshape)
    what = rng.choice(['repeat', 'shape', 'prop_shape', 'os', 'omask', 'du_form', 'du', 'forms'])
    if what == 'shape':
        S = (rng.randint(1, maxs), rng.randint(1, maxs))
        new['shape'] = S[0] if (S[0] == S[1] and rng.random() < 0.5) else list(S)
    elif what == 'prop_shape':
        new['prop_shape'] = None if (new.get('prop_shape') is not None and rng.random() < 0.4) \
            else [rng.randint(1, S[0]), rng.randint(1, S[1])]
    elif what == 'os':
        new['os'] = rng.choice([o for o in (1, 2, 3) if o != new['os']])
    elif what == 'omask':
        new['omask'] = None if (new.get('omask') is not None and rng.random() < 0.3) else 'new'
    elif what == 'du_form':
        du = new['du']
        new['du'] = [du, du] if not isinstance(du, list) else (du[0] if du[0] == du[1] else [du[0], du[0]])
    elif what == 'du':
        new['du'] = rnd_scale(rng)
    Ro, Co = S[0] * new['os'], S[1] * new['os']
    m = new.get('omask')
    if m == 'new' or (m is not None and (len(m) != Ro or len(m[0]) != Co)):
        new['omask'] = box_mask(rng, Ro, Co) if rng.random() < 0.7 else \
            [[1 if rng.random() < 0.3 else 0 for _ in range(Co)] for _ in range(Ro)]
        if not any(v > 0 for row in new['omask'] for v in row):
            new['omask'][rng.randint(0, Ro - 1)][rng.randint(0, Co - 1)] = 1
    rnd_forms(rng, new)
    return new, what


def usable(call, wshape):
    S, _ = call_shapes(call, wshape)
    return mask_ok(call, S) is None


def rnd_stop(rng, n, m, kind):
    """one more array-valued plane on an n x m grid whose support is a single sample, a single row or column (slit),
    or a small box (field stop / sub-aperture), anywhere on the grid"""
    t = rng.random()
    r0, c0 = rng.randint(0, n - 1), rng.randint(0, m - 1)
    if t < 0.45:
        r1, c1 = r0, c0
    elif t < 0.6:
        r1, c0, c1 = r0, 0, m - 1
        c0 = rng.randint(0, m - 1)
        c1 = rng.randint(c0, m - 1)
    elif t < 0.75:
        c1 = c0
        r0 = rng.randint(0, n - 1)
        r1 = rng.randint(r0, n - 1)
    else:
        r1, c1 = rng.randint(r0, n - 1), rng.randint(c0, m - 1)
    nz = lambda: rng.choice([-3, -2, -1, 1, 2, 3])
    A = [[[0, 0] for _ in range(m)] for _ in range(n)]
    for r in range(r0, r1 + 1):
        for cc in range(c0, c1 + 1):
            A[r][cc] = [nz(), rng.randint(-2, 2) if rng.random() < 0.5 else 0]
    spec = {'kind': kind, 'A': A, 'mask': None}
    if rng.random() < 0.25:
        # the support given by an explicit mask over a fully populated amplitude
        spec['mask'] = [[1 if (r0 <= r <= r1 and c0 <= cc <= c1) else 0 for cc in range(m)] for r in range(n)]
        spec['A'] = [[[nz(), rng.randint(-1, 1)] for _ in range(m)] for _ in range(n)]
        if rng.random() < 0.4:
            spec['mdtype'] = rng.choice(['bool', 'float'])
    elif rng.random() < 0.25:
        for row in spec['A']:
            for v in row:
                v[0], v[1] = abs(v[0]), 0
        spec['adtype'] = rng.choice(['int', 'float32', 'uint8'])
    return spec


def rnd_train(rng, c, wshape, maxs):
    """a wavefront that passes 2-3 array-valued planes before it is propagated: aperture x stop(s) in the pupil
    (Pupil x Pupil, Plane x Pupil), or pupil -> image -> Image-plane pinhole / slit / field stop -> pupil"""
    n, m = wshape
    steps = []
    if rng.random() < 0.55:
        c['start'] = 'pupil' if rng.random() < 0.7 else 'plane'
        last = 0
        for _ in range(1 if rng.random() < 0.7 else 2):
            sn, sm = (n, m) if rng.random() < 0.85 else (rng.randint(1, n + 1), rng.randint(1, m + 1))
            steps.append({'src': last, 'mul': rnd_stop(rng, sn, sm, 'pupil')})
            last = len(steps)
            wshape = (sn, sm)
        for _ in range(50):
            c1, so = rnd_call(rng, wshape, maxs, 3)
            if usable(c1, wshape):
                break
        else:
            return None
        steps.append({'src': last, 'call': c1})
        if rng.random() < 0.4:
            c2, _what = vary(rng, c1, wshape, maxs)
            steps.append({'src': last, 'call': c2})
        return steps, 'stop'
    c['start'] = 'pupil'
    for _ in range(50):
        c1, so = rnd_call(rng, wshape, maxs, 2)
        if usable(c1, wshape):
            break
    else:
        return None
    steps.append({'src': 0, 'call': c1})
    steps.append({'src': 1, 'mul': rnd_stop(rng, so[0], so[1], 'image')})
    for _ in range(50):
        c2, _so2 = rnd_call(rng, so, min(maxs, 5), 2)
        if usable(c2, so):
            break
    else:
        return None
    steps.append({'src': 2, 'call': c2})
    if rng.random() < 0.4:
        c3, _what = vary(rng, c2, so, min(maxs, 5))
        steps.append({'src': rng.choice([2, 2, 1]), 'call': c3})
    return steps, 'pinhole'


def rnd_branch(rng, c, wshape, maxs):
    """a shared wavefront: w passes a plane, then branches of it go through a Tilt / a transparent or scalar plane (results
    kept or dropped), and w itself - which never passed those - is propagated before and after"""
    c['start'] = 'pupil' if rng.random() < 0.75 else 'image'
    kind = c['start']
    for _ in range(50):
        c1, so = rnd_call(rng, wshape, maxs, 3)
        if usable(c1, wshape):
            break
    else:
        return None
    steps = []
    if rng.random() < 0.4:
        steps.append({'src': 0, 'call': c1})
    first = len(steps)
    for _ in range(rng.randint(1, 2)):
        t = rng.random()
        if t < 0.55:
            mul = {'kind': 'tilt', 'x': rng.choice(['1/16', '-1/8', '1/4', '-1/32', '0']), 'y': rng.choice(['1/8', '-1/16', '1/2', '0'])}
            if mul['x'] == '0' and mul['y'] == '0':
                mul['x'] = '1/8'
        elif t < 0.8:
            mul = {'kind': kind, 'scalar': [1, 0], 'int': rng.random() < 0.5, 'default': rng.random() < 0.5}     # transparent
        else:
            mul = {'kind': kind, 'scalar': [rng.choice([-2, -1, 2, 3]), rng.choice([0, 0, 1, -2])]}
        steps.append({'src': 0, 'mul': mul})
    steps.append({'src': 0, 'call': json.loads(json.dumps(c1))})
    scal = [k for k, st in enumerate(steps, start=1) if 'mul' in st and 'scalar' in st['mul']]
    if scal and rng.random() < 0.6:
        c2, _w = vary(rng, c1, wshape, maxs)
        steps.append({'src': rng.choice(scal), 'call': c2})       # the branch behind a scalar plane: a times the field
    if rng.random() < 0.3:
        c3, _w = vary(rng, c1, wshape, maxs)
        steps.append({'src': 0, 'call': c3})
    return steps, 'branch'


NEAR = [0.0, 1e-9, -1e-7, 1e-6, -1e-6, 4e-6, -4e-6, 9e-6, -9e-6, 3e-5, -3e-5, 1e-4, -2e-4]


def rnd_neartie(rng, maxn):
    """alpha within 1e-9 .. 2e-4 (relative) of the FFT-matched sampling 1/n without being equal to it, output window =
    input array, both planes centred: the Fraunhofer sum for the REQUESTED alpha is pinned, at the tolerance of every
    other case.  The values are arbitrary floats, so these cases are decided by the oracle alone"""
    n, m = rng.randint(2, maxn), rng.randint(2, maxn)
    if rng.random() < 0.3:
        m = n
    nzv = lambda: rng.choice([-4, -3, -2, -1, 1, 2, 3, 4])
    A = [[[nzv(), rng.randint(-4, 4)] for _ in range(m)] for _ in range(n)]
    os = 2 if (n % 2 == 0 and m % 2 == 0 and rng.random() < 0.3) else 1
    eps_r = rng.choice(NEAR)
    eps_c = eps_r if rng.random() < 0.7 else rng.choice(NEAR)
    k = rng.choice([1, 1, 1, 2])                    # also near 1/(2n): half-critical sampling
    dur = float(Fraction(os, n * k)) * (1.0 + eps_r)
    duc = float(Fraction(os, m * k)) * (1.0 + eps_c)
    wl = rng.choice([1.0, 0.5, 0.75])
    c = {'dir': 'pupil' if rng.random() < 0.6 else 'image', 'A': A, 'mask': None,
         'wl': str(Fraction(wl)), 'z': '1', 'dx': str(Fraction(wl)), 'neartie': [eps_r, eps_c, k],
         'call': {'du': [str(Fraction(dur)), str(Fraction(duc))] if (n != m or eps_r != eps_c or rng.random() < 0.5)
                  else str(Fraction(dur)),
                  'shape': rng.choice([None, [n // os, m // os]]), 'prop_shape': None, 'os': os, 'omask': None}}
    if isinstance(c['call']['du'], str) and dur != duc:
        c['call']['du'] = [str(Fraction(dur)), str(Fraction(duc))]
    if rng.random() < 0.2:
        c['call']['omask'] = [[1] * m for _ in range(n)]
    return c


def rnd_refuse_or_insert(rng, maxn, maxs):
    A, mask = rnd_pupil(rng, min(maxn, 5))
    wshape = (len(A), len(A[0]))
    c = {'A': A, 'mask': mask, 'wl': rng.choice(['1/2', '1/4', '1']), 'z': rng.choice(['1', '2', '4']), 'dx': rnd_scale(rng),
         'start': 'pupil' if rng.random() < 0.7 else 'image'}
    for _ in range(50):
        call, so = rnd_call(rng, wshape, min(maxs, 4), 2)
        if usable(call, wshape):
            break
    else:
        return None
    if rng.random() < 0.45:
        c['dir'] = 'refuse'
        c['no_ps'] = rng.random() < 0.6
        if rng.random() < 0.5 or not c['no_ps']:
            c['scalar'] = [rng.choice([1, 2, -1]), rng.choice([0, 0, 1])]
            if call.get('shape') is None:
                call['shape'] = [rng.randint(1, 4), rng.randint(1, 4)]
                call['omask'] = None
        S, P = call_shapes(call, wshape)
        if rng.random() < 0.4 and S[0] * call['os'] >= 3 and S[1] * call['os'] >= 3:
            # a mask in a corner and a one-sample propagation window at the centre: nothing is evaluated
            Ro, Co = S[0] * call['os'], S[1] * call['os']
            call['prop_shape'] = 1 if call['os'] == 1 else None
            if call['prop_shape'] == 1:
                call['omask'] = [[1 if (r == 0 and cc == 0) else 0 for cc in range(Co)] for r in range(Ro)]
        rnd_forms(rng, call)
        c['call'] = call
        return c
    c['dir'] = 'insert'
    c['call'] = call if rng.random() < 0.65 else None
    R, Cc = (so if c['call'] is not None else wshape) if rng.random() < 0.5 else (rng.randint(1, 9), rng.randint(1, 9))
    c['out'] = [[rng.randint(-3, 9) for _ in range(Cc)] for _ in range(R)]
    c['weight'] = rng.choice(['1', '1', '1/2', '3', '-2', '0', '5/4'])
    c['default_weight'] = rng.random() < 0.5
    c['positional'] = rng.random() < 0.3
    return c


def rnd_history(rng, wshape, maxs):
    """2-4 propagations that re-use wavefront objects: the same wavefront with one argument varied at a time, or a
    pupil -> image -> pupil chain whose intermediate wavefront is propagated more than once"""
    for _ in range(50):
        c1, so = rnd_call(rng, wshape, maxs, 3)
        if usable(c1, wshape):
            break
    else:
        return None
    steps = [{'src': 0, 'call': c1}]
    n = rng.randint(2, 4)
    kinds = []
    if rng.random() < 0.6:
        prev = c1
        for _ in range(n - 1):
            prev, what = vary(rng, prev, wshape, maxs)
            kinds.append(what)
            steps.append({'src': 0, 'call': prev})
        tag = 'same'
    else:
        for _ in range(50):
            c2, _so2 = rnd_call(rng, so, min(maxs, 5), 2)
            if usable(c2, so):
                break
        else:
            return None
        steps.append({'src': 1, 'call': c2})
        if n >= 3:
            if rng.random() < 0.6:
                c3, what = vary(rng, c2, so, min(maxs, 5))
                steps.append({'src': 1, 'call': c3})
            else:
                c3, what = vary(rng, c1, wshape, maxs)
                steps.append({'src': 0, 'call': c3})
            kinds.append(what)
        if n >= 4:
            steps.append({'src': 0, 'call': json.loads(json.dumps(c1))})      # the very first call again
        tag = 'chain'
    if rng.random() < 0.25:
        # a REFUSED call in the middle (all-zero mask -> IndexError, or a mask of the wrong shape -> ValueError): the calls after
        # it must be unaffected
        pos = rng.randint(1, len(steps) - 1)
        bad = json.loads(json.dumps(steps[0]['call']))
        S, _P = call_shapes(bad, wshape)
        Ro, Co = S[0] * bad['os'], S[1] * bad['os']
        bad['omask'] = [[0] * Co for _ in range(Ro)] if rng.random() < 0.6 else [[1] * (Co + 1) for _ in range(Ro + 1)]
        for k in ('omask_dtype', 'omask_wrap'):
            bad.pop(k, None)
        steps.insert(pos, {'src': 0, 'call': bad})
        for st in steps[pos + 1:]:
            if st['src'] >= pos + 1:
                st['src'] += 1
    return steps, tag


def generate(rng, tier):
    quick = tier == 'quick'
    n_cases = 120 if quick else 2000
    maxn = 6 if quick else 8
    maxs = 5 if quick else 8
    Lmax = 64 if quick else 160
    big = [
        {'n': 3, 'm': 4, 'call': {'du': '1/1024', 'shape': [1024, 1024], 'prop_shape': None, 'os': 1, 'omask': None}},   # 2**20 samples
        {'n': 1100, 'm': 3, 'call': {'du': ['1/1024', '1/4'], 'shape': [4, 5], 'prop_shape': None, 'os': 1, 'omask': None}},   # > 1000 rows
        {'n': 2, 'm': 2, 'call': {'du': '1/1024', 'shape': [1025, 1023], 'prop_shape': [1001, 999], 'os': 1, 'omask': None}},
        {'n': 24, 'm': 30, 'segments': [3, 5], 'call': {'du': '1/16', 'shape': [8, 8], 'prop_shape': None, 'os': 2, 'omask': None}},  # 15 segments
        {'n': 129, 'm': 127, 'call': {'du': '1/128', 'shape': [43, 37], 'prop_shape': None, 'os': 3, 'omask': None}},     # odd, no block divides
        {'n': 1024, 'm': 1024, 'call': {'du': '1/1024', 'shape': [3, 3], 'prop_shape': None, 'os': 1, 'omask': None}},   # 2**20 input samples
    ]
    for b in (big[:2] + big[3:4] if quick else big):
        yield dict({'dir': 'big', 'wl': '1/2', 'z': '1', 'dx': '1/2'}, **b)
    out = 0
    tries = 0
    while out < n_cases and tries < 200000:
        tries += 1
        if rng.random() < 0.03:
            c = rnd_neartie(rng, maxn)
            if case_alphas(c)[1]:
                out += 1
                yield c
            continue
        if rng.random() < 0.08:
            c = rnd_refuse_or_insert(rng, maxn, maxs)
            if c is not None and case_alphas(c)[1] and case_L(c) <= Lmax:
                out += 1
                yield c
            continue
        t = rng.random()
        d = 'pupil' if t < 0.36 else 'image' if t < 0.49 else 'roundtrip' if t < 0.59 else 'history' if t < 0.97 else 'none'
        small = d in ('roundtrip', 'history')
        A, mask = rnd_pupil(rng, maxn if not small else min(maxn, 5))
        wshape = (len(A), len(A[0]))
        c = {'dir': d, 'A': A, 'mask': mask,
             'wl': rng.choice(['1/2', '1/4', '3/4', '5/8', '1', '3/8']),
             'z': rng.choice(['1', '2', '4', '8', '3', '3/2', '16']),
             'dx': rnd_scale(rng)}
        if rng.random() < 0.2:
            # a real amplitude of another dtype (values exact in it); the mask, if any, as bool or float
            dt = rng.choice(['int', 'float32', 'uint8', 'bool'])
            for row in A:
                for v in row:
                    v[1] = 0
                    v[0] = (1 if v[0] else 0) if dt == 'bool' else abs(v[0]) if dt == 'uint8' else v[0]
            if not any(v[0] for row in A for v in row):
                A[rng.randint(0, wshape[0] - 1)][rng.randint(0, wshape[1] - 1)][0] = 1
            c['adtype'] = dt
            if mask is not None and rng.random() < 0.5:
                c['mdtype'] = rng.choice(['bool', 'float'])
        if d == 'history':
            t2 = rng.random()
            if t2 < 0.35:
                h = rnd_train(rng, c, wshape, min(maxs, 4))
            elif t2 < 0.55:
                h = rnd_branch(rng, c, wshape, min(maxs, 4))
            else:
                c['start'] = 'pupil' if rng.random() < 0.75 else 'image'
                h = rnd_history(rng, wshape, min(maxs, 4))
            if h is None:
                continue
            c['steps'], c['pattern'] = h
        else:
            c['call'], so = rnd_call(rng, wshape, maxs if d != 'roundtrip' else min(maxs, 4), 3)
            if d == 'roundtrip':
                if c['call'].get('omask') is not None and rng.random() < 0.5:
                    c['call']['omask'] = None
                    rnd_forms(rng, c['call'])
                c['call2'], _ = rnd_call(rng, so, min(maxs, 5), 2)
        al, ok = case_alphas(c)
        if not ok or case_L(c) > Lmax:
            continue
        if any(abs(a) > 2 for pr in al for a in pr):
            continue
        # the object history of the plane, operator spellings, the caller's numpy error state and warnings filters
        if d in ('pupil', 'image', 'roundtrip', 'history') and 'start' in c or d in ('pupil', 'image', 'roundtrip'):
            if c.get('mask') is None or not isinstance(c['mask'][0][0], list):
                if rng.random() < 0.22:
                    # an OPD with a linear part (a tilt a fit would find), in units of wavelength/den: exact phasors
                    n_, m_ = wshape
                    den = rng.choice([4, 8, 16])
                    a_, b_ = rng.randint(-3, 3), rng.randint(-3, 3)
                    c['opd'] = [[a_ * r + b_ * cc + ((r * cc) % 3 if rng.random() < 0.5 else 0) + rng.randint(-1, 1)
                                 for cc in range(m_)] for r in range(n_)]
                    c['opd_den'] = den
                    if not c.get('adtype'):
                        # a real amplitude, as the OPD-carrying planes of lentil have (a complex "amplitude" makes fit_tilt
                        # return complex angles)
                        for row in c['A']:
                            for v in row:
                                v[1] = 0
                        if not any(v[0] for row in c['A'] for v in row):
                            c['A'][0][0][0] = 1
                        c['adtype'] = 'float'
                    if min(wshape) >= 2 and rng.random() < 0.7 and c.get('start', d) != 'image' and \
                            sum(1 for row in c['A'] for v in row if v != [0, 0]) >= 4:
                        c['plane_ops'] = [rng.choice(['fit_tilt_copy', 'fit_tilt_default', 'copy_fit', 'copy', 'deepcopy_fit',
                                                      'pickle_fit']) for _ in range(rng.randint(1, 2))]
            if rng.random() < 0.2:
                c['mulform'] = rng.choice(['pw', 'imul', 'method'])
        if rng.random() < 0.2:
            c['errstate'] = rng.choice(['raise', 'ignore'])
            c['warn_error'] = rng.random() < 0.5
        # the same data in other legal guises: ndarray subclasses, amplitudes scaled over many decades
        if rng.random() < 0.15:
            c['awrap'] = rng.choice(['ma', 'ma_masked', 'matrix', 'subclass'])
        if not c.get('adtype') and rng.random() < 0.15:
            c['aexp'] = rng.choice([-30, -37, -43, 20])
        out += 1
        yield c


def classify(c):
    k = c['dir']
    if k == 'big':
        return 'big'
    if k == 'history':
        k += '/' + c.get('pattern', '?') + '/' + c.get('start', 'pupil')
    if isinstance(c.get('mask'), list) and c['mask'] and isinstance(c['mask'][0][0], list):
        k += '/segmented'
    if any(call is not None and call.get('omask') is not None for _, call, _m in steps_of(c)):
        k += '/mask'
    if c.get('adtype'):
        k += '/' + c['adtype']
    if c.get('neartie'):
        k += '/neartie'
    if c.get('awrap'):
        k += '/' + c['awrap']
    if c.get('aexp'):
        k += '/scaled'
    if c.get('opd') is not None:
        k += '/opd'
    if c.get('plane_ops'):
        k += '/plane-history'
    return k


def nontrivial(c):
    if c['dir'] in ('history', 'big', 'refuse', 'insert'):
        return True
    n, m = len(c['A']), len(c['A'][0])
    call = c['call']
    S, P = call_shapes(call, (n, m))
    return (n != m or S[0] != S[1] or P != S or call.get('omask') is not None
            or isinstance(c['dx'], list) or isinstance(call['du'], list))


# ------------------------------------------------------------------ WP-T2: translation layer (source -> Gallina)
# An ADDITIONAL tie on top of the correspondence check above: harness/gen_src.py (suite 'C02') translates the integer
# window arithmetic of lentil/propagate.py (_mask_shape, _mask_shift, propagate_dft up to and inside its loop over the
# fields, with the functions of lentil/extent.py it calls inlined) from the CURRENT source text into
# coq/theories/Gen/PropagateSrc.v; Proofs/PropagateSrcP.v proves every translated term equal to the model of
# Model/Propagate.v for all integers; Properties/C02Src.v states it.  Same policy as the C06 layer: a function the
# translator refuses is only reported (coverage.extra.refused); a translated function whose equivalence lemma no longer
# compiles is a VIOLATION with a witness searched on an exhaustive small box (replayable: op 'src').  The build of
# C02Src happens here, never in COQ_TARGETS.
def extra(tier, rng):
    from .. import gen_src as G
    return G.run_layer('C02', ID, tier, rng, C)


def _wrap_src_replay():
    from .. import gen_src as G
    return G.wrap_replay(run_impl, oracle, C)


run_impl, oracle = _wrap_src_replay()
