"""C04 - Tilt carried as metadata is optically identical to tilt in the OPD."""
import itertools
import math
from fractions import Fraction

import numpy as np

from .. import common as C

ID = 'C04'
MODEL = 'c04'
RUNFUN = 'run'
COQ_TARGETS = ['theories/Properties/C04.vo', 'theories/Extract/RunC04.vo']
DESIGN_REF = 'DESIGN.md section 6, C04'
TECHNIQUE = ('Coq proof (displacement formula, additivity/permutation invariance by induction, OPD ramp = shift of the '
             'defining Fourier sum for every ring with an additive kernel, fix/sub-pixel split, least-squares tilt fit '
             'over the reals, first-order dispersion) + exact rational execution of the extracted tilt model against '
             'lentil (Field.shift, fit_tilt, plane chains) + direct oracle: four tilt representations through '
             'lentil.propagate_dft compared sample by sample with each other and with the displaced Fraunhofer sum')
LEVEL_TEXT = ('Theorems in coq/theories/Properties/C04.v for all tilt lists, angles, pixel scales, oversampling factors, '
              'masks and segmentations; the model follows plane.py/field.py/propagate.py and is run on exact rationals '
              'against the public API on every check; the optical equivalence of the four representations is decided '
              'on the implementation itself (complex fields, 1e-9 of the peak).')
LEVEL_NOTE = ('Trusted: Coq kernel + stdlib Reals axioms (least-squares theorems over R), extraction, harness; numpy '
              'lstsq/exp/sqrt and IEEE rounding are modelled not verified (1e-9 tolerance); higher-order DispersiveTilt '
              '(scipy leastsq/quad) is outside the model. The evaluated window of a tilted field is not pinned.')
TRUSTED = ['Coq 8.16.1 kernel (coqc; coqchk in the thorough tier)',
           'extraction with ExtrOcamlBasic only; ocaml/driver.ml',
           'harness/props/c04.py: codec, brute-force displaced Fraunhofer sum (numpy float), window bookkeeping',
           'numpy: linalg.lstsq (contract: returns a solution of the normal equations), exp, sqrt, fix',
           'parametricity: the theorem instance (R / any ring) and the executed instance (Qc) are the same Gallina term',
           'sqrt(1 + trace[0]^2) enters the model as an input (validated: s*s = 1 + t0^2 to 1e-15)']
ASSUMPTIONS = ['floats are rationals; comparison tolerance 1e-9 relative (1e-12 for Field.shift; exact in the dyadic regime)',
               'DispersiveTilt of first order in trace and dispersion; dispersion[0] != 0',
               'fit_tilt on masks whose masked basis {1, r*dx_r, -c*dx_c} is linearly independent on every segment '
               '(degenerate masks: only OPD + recorded tilt = OPD is checked); OPD arrays of dtype float64, float32, int64, int32']
RULE = ('corpus first; four case families: (wave) Wavefront(tilt=) with 0..4 entries; (shift) Field.shift of 0..5 angular/dispersive elements, per-axis or scalar or missing pixel '
        'scale, both indexings, permuted orders; (fit) fit_tilt on monolithic and 2-3 segment pupils <= 8x8 after 0..2 OPD '
        'updates, OPD dtype float64/float32/int64/int32, mask dtype float/int/bool/uint8, amplitude float/int; (prop) pupils <= 8x8, monolithic or 2-3 segments with per-segment tilts, 1..4 global tilt elements in '
        'several orderings, total displacement from 0.1 px to 1.5x the output (40% of the cases with the displaced window '
        'straddling the edge of the output: |s| in (S/2-P/2, S/2+P/2) per axis and sign), scalar/per-axis/int/tuple argument '
        'forms (positional / keyword, int / tuple / small-width integer dtypes, w*p / p*w / w*=p), optional output mask, one-segment 3-d masks, '
        'one-sample segments, the tilt also as an OPD ramp in a second array plane (both orders), zero-padded polynomials, caller numpy '
        'error state raise/ignore, every intermediate wavefront held and re-checked, the same plane objects re-used across all chains of a case, per-axis dx/du, oversample 1..3, each case '
        'propagated as OPD ramp / Tilt planes (1-3 orderings, before and after the pupil) / Wavefront(tilt=) / fit_tilt after 0..2 OPD '
        'updates / mixed (wavefront tilt + fitted OPD + planes); non-trivial = non-zero tilt')

TOL = 1e-9
F = Fraction


def fl(x):
    return float(F(x))


def enc_f(x):
    """the exact value of the float the implementation receives"""
    return C.enc_q(fl(x))


# ------------------------------------------------------------------ tilt elements
def tilt_obj(lentil, e, positional=False):
    if positional:
        if e[0] == 'ang':
            return lentil.Tilt(fl(e[1]), fl(e[2]))
        if e[0] == 'dispn':
            return lentil.DispersiveTilt([fl(v) for v in e[1]], [fl(v) for v in e[2]])
        return lentil.DispersiveTilt([fl(e[1]), fl(e[2])], [fl(e[3]), fl(e[4])])
    if e[0] == 'ang':
        return lentil.Tilt(x=fl(e[1]), y=fl(e[2]))
    if e[0] == 'dispn':
        return lentil.DispersiveTilt(trace=[fl(v) for v in e[1]], dispersion=[fl(v) for v in e[2]])
    return lentil.DispersiveTilt(trace=[fl(e[1]), fl(e[2])], dispersion=[fl(e[3]), fl(e[4])])


def enc_tilt(e):
    if e[0] == 'ang':
        return [0] + enc_f(e[1]) + enc_f(e[2])
    t0 = fl(e[1])
    root = float(np.sqrt(1 + t0 ** 2))
    assert abs(root * root - (1 + t0 * t0)) <= 1e-15 * (1 + t0 * t0)
    return [1] + enc_f(e[1]) + enc_f(e[2]) + enc_f(e[3]) + enc_f(e[4]) + C.enc_q(root)


def dispn_xy(trace, disp, wl):
    """The displacement the property assigns to a dispersive element of any order, computed independently of
    lentil: d = the real root of polyval(dispersion, d) = wl nearest the reference (d = 0; generated dispersion
    polynomials are monotonic there), x = the abscissa whose arc length along y = polyval(trace, x) from 0 is d
    (adaptive quadrature to 1e-13, bracketing root finder), y = polyval(trace, x)."""
    import scipy.integrate
    import scipy.optimize
    q = np.array(disp, dtype=float)
    q[-1] -= wl
    real = [r.real for r in np.roots(q) if abs(r.imag) <= 1e-9 * (1 + abs(r))]
    d = min(real, key=abs)
    dq = np.polyder(q)
    for _ in range(3):
        d -= np.polyval(q, d) / np.polyval(dq, d)
    tr = np.array(trace, dtype=float)
    if d == 0:
        x = 0.0
    elif len(tr) == 2:
        x = d / math.sqrt(1 + tr[0] ** 2)
    else:
        dt = np.polyder(tr)

        def g(x):
            return scipy.integrate.quad(lambda t: math.sqrt(1 + np.polyval(dt, t) ** 2), 0, x,
                                        epsabs=0, epsrel=1e-13, limit=200)[0] - d
        x = scipy.optimize.brentq(g, 0.0, d, xtol=1e-300, rtol=1e-15, maxiter=200)
    return float(x), float(np.polyval(tr, x))


def has_dispn(elems):
    return any(e[0] == 'dispn' for e in elems)


def elem_xy(e, z, wl):
    """displacement (x, y) in metres at the focal plane that the property assigns to one element"""
    if e[0] == 'ang':
        return -z * fl(e[2]), -z * fl(e[1])
    if e[0] == 'dispn':
        return dispn_xy([fl(v) for v in e[1]], [fl(v) for v in e[2]], wl)
    t0, t1, d0, d1 = (fl(v) for v in e[1:5])
    d = (wl - d1) / d0
    x = d / math.sqrt(1 + t0 * t0)
    return x, t0 * x + t1


def stored(t):
    """stored attributes of an implementation tilt object, canonical"""
    if hasattr(t, 'trace'):
        return ['disp'] + [float(v) for v in np.asarray(t.trace).ravel()] + [float(v) for v in np.asarray(t.dispersion).ravel()]
    return ['ang', float(t.x), float(t.y)]


def read_tilt(rd):
    tag = rd.z()
    if tag == 0:
        return ['ang', rd.q(), rd.q()]
    return ['disp', rd.q(), rd.q(), rd.q(), rd.q(), rd.q()]


def read_shift(rd):
    s = (rd.q(), rd.q())
    fr = rd.z()
    subr = rd.q()
    fc = rd.z()
    subc = rd.q()
    return {'shift': s, 'fix': (fr, fc), 'sub': (subr, subc)}


def close(a, b, tol, unit=1.0):
    return abs(a - b) <= tol * (unit + abs(b))


def cmp_tilts(impl_t, model_t, tol, unit=1.0):
    if len(impl_t) != len(model_t):
        return f'tilt lists differ in length: impl {len(impl_t)} model {len(model_t)}'
    for k, (a, b) in enumerate(zip(impl_t, model_t)):
        if a[0] != b[0]:
            return f'tilt entry {k}: kinds differ {a[0]} vs {b[0]}'
        n = 3 if a[0] == 'ang' else 5
        for i in range(1, n):
            if not close(a[i], float(b[i]), tol, unit):
                return f'tilt entry {k} attribute {i}: impl {a[i]!r} model {float(b[i])!r}'
    return None


# ------------------------------------------------------------------ generators
PS_POW2 = ['1/4', '1/2', '1', '2', '4']
PS_ANY = ['1/4', '1/2', '1', '2', '3/2', '3', '5/2', '3/4', '5']
DX_ANY = ['1/4', '1/2', '1', '3/8', '1/8', '3/4']
TRACE0 = ['0', '3/4', '-4/3', '5/12', '1', '-1/2']


def rq(rng, den_choices=(1, 2, 4, 8), lo=-16, hi=16):
    d = rng.choice(den_choices)
    return F(rng.randint(lo, hi), d)


def rnd_disp(rng, wl, scale):
    """a first-order dispersive element whose arc length at wl is about [scale] metres"""
    t0 = rng.choice(TRACE0)
    t1 = str(rq(rng, (1, 2, 4), -2, 2) * scale / 4) if rng.random() < 0.5 else '0'
    d = rq(rng, (1, 2, 4), -6, 6) * scale / 2
    d0 = rng.choice([F(1, 100), F(-1, 50), F(1, 8), F(3, 1)])
    d1 = F(wl) - d0 * d
    return ['disp', t0, t1, str(d0), str(d1)]


def rnd_dispn(rng, wl, scale):
    """a dispersive element with a trace and/or dispersion polynomial of order 2 or 3 whose arc length at wl is about
    [scale] metres: strongly curved trace (slope changes by O(1) along the way), dispersion monotonic around 0"""
    X = F(scale)
    d = F(rng.choice([-1, 1]) * rng.randint(4, 12), 8) * X
    to = rng.choice([2, 2, 3, 1])
    do = rng.choice([1, 2, 3]) if to > 1 else rng.choice([2, 3])
    a1 = F(rng.choice(TRACE0))
    a0 = rq(rng, (1, 2, 4), -2, 2) * X / 4 if rng.random() < 0.4 else F(0)
    a2 = F(rng.choice([1, 2, 4, 6]), 2) / X * rng.choice([1, -1])
    a3 = F(rng.choice([1, 2]), 4) / (X * X) * rng.choice([1, -1])
    trace = {1: [a1, a0], 2: [a2, a1, a0], 3: [a3, a2, a1, a0]}[to]
    c1 = rng.choice([F(1, 8), F(-1, 4), F(1, 2)]) / X
    c2 = c1 / (8 * X) * rng.choice([1, -1])
    c3 = c1 / (32 * X * X) * rng.choice([1, -1])
    hi = {1: [c1], 2: [c2, c1], 3: [c3, F(0), c1]}[do]
    c0 = F(wl) - sum(c * d ** (len(hi) - i) for i, c in enumerate(hi))
    tr, di = [str(v) for v in trace], [str(v) for v in hi + [c0]]
    if (to == 1 and rng.random() < 0.6) or rng.random() < 0.25:       # coefficient vectors padded with leading zeros (a padded linear trace is still linear)
        tr = ['0'] * rng.choice([1, 2]) + tr
    if rng.random() < 0.2:
        di = ['0'] * rng.choice([1, 2]) + di
    return ['dispn', tr, di]


def add_alias(rng, tl, p=0.3):
    """with probability p let one element object appear a second time in the list (same object, not an equal copy)"""
    alias = {}
    if tl and len(tl) < 6 and rng.random() < p:
        i = rng.randrange(len(tl))
        j = rng.randint(0, len(tl))
        tl.insert(j, list(tl[i]))
        i = i + 1 if j <= i else i
        alias[str(j)] = i
    return alias


def make_objs(lentil, elems, alias, positional=False):
    objs = [tilt_obj(lentil, e, positional) for e in elems]
    for j, i in (alias or {}).items():
        objs[int(j)] = objs[i]
    return objs


def gen_shift(rng):
    exact = rng.random() < 0.35
    z = str(rng.choice([F(1), F(2), F(8), F(1, 2)]) if exact else rng.choice([F(10), F(3), F(8), F(5, 2), F(1, 3)]))
    wl = str(rng.choice([F(1), F(1, 2), F(2)]))
    n = rng.choice([0, 1, 1, 2, 2, 3, 4, 5])
    tl = []
    for _ in range(n):
        if exact or rng.random() < 0.65:
            den = (1, 2, 4, 8) if exact else (1, 2, 3, 5, 8, 10)
            tl.append(['ang', str(rq(rng, den)), str(rq(rng, den))])
        elif rng.random() < 0.5:
            tl.append(rnd_disp(rng, wl, F(4)))
        else:
            tl.append(rnd_dispn(rng, wl, rng.choice([F(4), F(1, 2), F(1, 100)])))
    alias = add_alias(rng, tl)
    n = len(tl)
    t = rng.random()
    pool = PS_POW2 if exact else PS_ANY
    if t < 0.05:
        ps = None
    elif t < 0.3:
        ps = rng.choice(pool)
    else:
        ps = [rng.choice(pool), rng.choice(pool)]
    t = rng.random()
    ix = 'bad' if t < 0.04 else ('xy' if t < 0.4 else 'ij')
    os_ = rng.choice([1, 2, 3, 4]) if not exact else rng.choice([1, 2, 4])
    perm = list(range(n))
    rng.shuffle(perm)
    return {'op': 'shift', 'tilts': tl, 'z': z, 'wl': wl, 'ps': ps, 'os': os_, 'indexing': ix,
            'exact': exact and ps is not None, 'perm': perm, 'alias': alias, 'positional': rng.random() < 0.3,
            'refused_between': rng.random() < 0.3, 'errstate': None if rng.random() < 0.7 else rng.choice(['raise', 'ignore'])}


def noncollinear(pts):
    if len(pts) < 3:
        return False
    (r0, c0) = pts[0]
    for (r1, c1), (r2, c2) in itertools.combinations(pts[1:], 2):
        if (r1 - r0) * (c2 - c0) - (r2 - r0) * (c1 - c0) != 0:
            return True
    return False


def rnd_masks(rng, m, n, nseg, degenerate=False):
    for _ in range(200):
        lab = [[(0 if rng.random() < 0.2 else rng.randint(1, nseg)) for _ in range(n)] for _ in range(m)]
        if degenerate:
            # one segment confined to a single row: its masked basis is rank deficient
            k = rng.randint(1, nseg)
            r0 = rng.randrange(m)
            for i in range(m):
                for j in range(n):
                    if lab[i][j] == k and i != r0:
                        lab[i][j] = 0
            lab[r0][0] = k
            if n > 1:
                lab[r0][n - 1] = k
        masks = [[[1 if lab[i][j] == k else 0 for j in range(n)] for i in range(m)] for k in range(1, nseg + 1)]
        ok = True
        for k, mk in enumerate(masks):
            pts = [(i, j) for i in range(m) for j in range(n) if mk[i][j]]
            if not pts:
                ok = False
            if not degenerate and not noncollinear(pts):
                ok = False
        if ok:
            return masks
    return [[[1] * n for _ in range(m)]] if nseg == 1 else \
        [[[1 if (j * nseg) // n == k else 0 for j in range(n)] for _ in range(m)] for k in range(nseg)]


def rnd_px(rng, span):
    """a displacement in oversampled output samples: sub-pixel, integer, few pixels, or larger than the output"""
    t = rng.random()
    if t < 0.1:
        return F(0)
    if t < 0.14:          # a near-tie: an integer number of samples plus or minus 2**-22
        return F(rng.randint(-6, 6)) + F(rng.choice([1, -1]), 2 ** 22)
    if t < 0.3:
        return F(rng.choice([1, 2, 3, 5, 7, 9]), 10) * rng.choice([1, -1])
    if t < 0.5:
        return F(rng.randint(-4, 4))
    if t < 0.8:
        return F(rng.randint(-40, 40), rng.choice([8, 10, 4]))
    return F(rng.randint(6 * span, 15 * span), 10) * rng.choice([1, -1])


def gen_fit(rng, tier):
    hi = 6 if tier == 'quick' else 8
    m, n = rng.randint(2, hi), rng.randint(2, hi)
    nseg = rng.choice([1, 1, 2, 3])
    deg = rng.random() < 0.05
    if m < 3 or n < 3:
        nseg = 1
    if rng.random() < 0.06:          # more than 8 segments
        m, n, nseg, deg = rng.randint(10, 12), rng.randint(10, 12), rng.randint(9, 11), False
    masks = rnd_masks(rng, m, n, nseg, degenerate=deg)
    dx = [rng.choice(DX_ANY), rng.choice(DX_ANY)] if rng.random() < 0.7 else [rng.choice(DX_ANY)] * 2
    nupd = rng.choice([0, 0, 1, 2])

    # dtypes of the arrays handed to the plane: OPD float64 / float32 / int64 / int32 (fit_tilt must not depend on
    # being able to write a float result back into the caller's array type), integer / bool / uint8 masks, integer amplitude
    odt = rng.choice(['float64'] * 5 + ['int64', 'int64', 'int32', 'float32', 'float32'])
    integer = odt.startswith('int')

    def rnd_opd():
        t = rng.random()
        out = [[F(0)] * n for _ in range(m)]
        for k, mk in enumerate(masks):
            if integer:
                a, b, p = F(rng.randint(-6, 6)), F(rng.randint(-6, 6)), F(rng.randint(-9, 9))
            else:
                a, b, p = rq(rng, (4, 8, 10)), rq(rng, (4, 8, 10)), rq(rng, (2, 4))
            for i in range(m):
                for j in range(n):
                    if mk[i][j] or t < 0.3:
                        if integer:
                            v = a * (i - m // 2) - b * (j - n // 2) + p
                            if t > 0.5:
                                v += rng.randint(-3, 3)
                        else:
                            v = a * (i - m // 2) * F(dx[0]) - b * (j - n // 2) * F(dx[1]) + p
                            if t > 0.5:
                                v += F(rng.randint(-8, 8), 16)
                        out[i][j] = out[i][j] + v if mk[i][j] else v
        return [[str(v) for v in row] for row in out]
    return {'op': 'fit', 'm': m, 'n': n, 'masks': masks, 'dx': dx, 'opd': rnd_opd(),
            'deltas': [rnd_opd() for _ in range(nupd)], 'degenerate': deg, 'mask3d': nseg == 1 and rng.random() < 0.2,
            'opd_dtype': odt, 'mask_dtype': rng.choice(['float', 'float', 'int', 'bool', 'uint8']),
            'amp_dtype': rng.choice(['float', 'int']),
            # OPD values times 2**unit_exp (OPDs in metres are ~1e-8): every comparison is relative to that unit
            'unit_exp': 0 if integer or rng.random() < 0.6 else rng.choice([-30, -20, -40, 10]),
            # ndarray subclasses are legal array_like inputs: same data, same result
            'container': rng.choice(['ndarray'] * 6 + ['masked', 'masked1', 'matrix']),
            'inplace': rng.choice(['False'] * 6 + ['True', '1', 'np.True_', '0']),
            'errstate': None if rng.random() < 0.7 else rng.choice(['raise', 'ignore'])}


def gen_prop(rng, tier):
    hi = 6 if tier == 'quick' else 8
    m, n = rng.randint(2, hi), rng.randint(2, hi)
    nseg = rng.choice([1, 1, 2, 3]) if min(m, n) >= 3 else 1
    masks = rnd_masks(rng, m, n, nseg)
    one_sample = rng.random() < 0.15
    if one_sample:          # a segment (or the whole aperture) with exactly one lit sample
        k = rng.randrange(nseg)
        lit = [(i, j) for i in range(m) for j in range(n) if masks[k][i][j]]
        keep = rng.choice(lit)
        masks[k] = [[1 if (i, j) == keep else 0 for j in range(n)] for i in range(m)]
    amp = [[rng.randint(1, 3) for _ in range(n)] for _ in range(m)]
    wl = rng.choice(['1', '1/2', '2'])
    base = [[str(F(rng.randint(-4, 4), 8) * F(wl)) if rng.random() < 0.5 else '0' for _ in range(n)] for _ in range(m)]
    if rng.random() < 0.4:
        base = [['0'] * n for _ in range(m)]
    dx = [rng.choice(DX_ANY), rng.choice(DX_ANY)] if rng.random() < 0.6 else [rng.choice(DX_ANY)] * 2
    du = [rng.choice(PS_ANY), rng.choice(PS_ANY)] if rng.random() < 0.7 else [rng.choice(PS_ANY)] * 2
    z = rng.choice(['8', '10', '4', '25/2'])
    os_ = rng.choice([1, 2, 3])
    shape = [rng.randint(3, hi), rng.randint(3, hi)]
    prop_shape = None if rng.random() < 0.5 else [rng.randint(2, shape[0]), rng.randint(2, shape[1])]
    span = max(shape) * os_
    zf, osf = F(z), F(os_)

    def angle(pr, pc):
        # the angles whose image displacement is (pr, pc) samples: +x tilt -> +row, +y tilt -> -column
        return str(pr * F(du[0]) / (zf * osf)), str(-pc * F(du[1]) / (zf * osf))
    def edge_px(ax):
        # a displacement between S/2 - P/2 and S/2 + P/2: the displaced window straddles the edge of the output
        S_ = shape[ax] * os_
        P_ = (prop_shape or shape)[ax] * os_
        lo, hi = F(S_ - P_, 2), F(S_ + P_, 2)
        if rng.random() < 0.5:
            lo = max(lo, F(S_, 2))
        k = rng.randint(int(lo * 8) + 1, max(int(lo * 8) + 1, int(hi * 8) - 1))
        return F(k, 8) * rng.choice([1, -1])
    edge = rng.random() < 0.4
    edge_seg = edge and nseg > 1 and rng.random() < 0.5          # the large tilt belongs to one segment only
    seg = []
    for _ in range(nseg):
        if nseg == 1 or rng.random() < 0.25:
            seg.append(['0', '0'])
        else:
            seg.append(list(angle(rnd_px(rng, span) / 2, rnd_px(rng, span) / 2)))
    ne = rng.choice([1, 1, 2, 3, 4])
    elems = []
    if edge:
        t = rng.random()
        target = [edge_px(0) if t < 0.7 else rnd_px(rng, span) / 4, edge_px(1) if t > 0.3 else rnd_px(rng, span) / 4]
        if edge_seg:
            seg[rng.randrange(nseg)] = list(angle(target[0], target[1]))
            target = [rnd_px(rng, span) / 8, rnd_px(rng, span) / 8]
        wts = {1: [F(1)], 2: [F(3, 2), F(-1, 2)], 3: [F(1, 2), F(1, 4), F(1, 4)], 4: [F(1, 2), F(3, 4), F(-1, 2), F(1, 4)]}[ne]
        rng.shuffle(wts)
        for wt in wts:
            a, b = angle(target[0] * wt, target[1] * wt)
            elems.append(['ang', a, b])
    else:
        for _ in range(ne):
            if rng.random() < 0.75:
                a, b = angle(rnd_px(rng, span) / ne, rnd_px(rng, span) / ne)
                elems.append(['ang', a, b])
            elif rng.random() < 0.6:
                elems.append(rnd_disp(rng, wl, F(du[1]) * span / (2 * osf * ne)))
            else:
                elems.append(rnd_dispn(rng, wl, F(du[1]) * span / (2 * osf * ne)))
    alias = add_alias(rng, elems, 0.25)
    ne = len(elems)
    orders = []
    for _ in range(rng.choice([1, 2, 3])):
        perm = list(range(ne))
        rng.shuffle(perm)
        orders.append({'perm': perm, 'before': rng.randint(0, ne)})
    # legal argument forms: scalar vs per-axis pixel scale, int vs tuple shapes, a one-segment 3-d mask, integer
    # amplitude, an output mask (its bounding box is the output box)
    S0, S1 = shape[0] * os_, shape[1] * os_
    omask = None
    if rng.random() < 0.2:
        r0, c0 = rng.randrange(S0), rng.randrange(S1)
        omask = [r0, rng.randint(r0, S0 - 1), c0, rng.randint(c0, S1 - 1), rng.random() < 0.5]
    forms = {'du_scalar': du[0] == du[1] and rng.random() < 0.5,
             'shape_int': shape[0] == shape[1] and rng.random() < 0.5,
             'prop_int': prop_shape is not None and prop_shape[0] == prop_shape[1] and rng.random() < 0.5,
             'mask3d': nseg == 1 and rng.random() < 0.2,
             'amp_int': rng.random() < 0.3,
             'amp_exp': 0 if rng.random() < 0.7 else rng.choice([-30, -40, -45]),      # field amplitudes down to 1e-13
             'omask': omask,
             'opforms': [rng.choice(['w*p', 'w*p', 'p*w', 'w*=p']) for _ in range(3)],
             'int_dtype': None if rng.random() < 0.75 else rng.choice(['uint8', 'int8', 'uint16']),
             'errstate': None if rng.random() < 0.7 else rng.choice(['raise', 'ignore']),
             'positional': rng.random() < 0.3}
    nupd = rng.choice([0, 1, 2])
    w = [F(1)] if nupd == 0 else ([F(1, 2), F(1, 2)] if nupd == 1 else [F(1, 2), F(1, 4), F(1, 4)])
    return {'op': 'prop', 'm': m, 'n': n, 'masks': masks, 'amp': amp, 'base': base, 'wl': wl, 'dx': dx, 'du': du,
            'z': z, 'os': os_, 'shape': shape, 'prop_shape': prop_shape, 'seg': seg, 'elems': elems,
            'orders': orders, 'weights': [str(x) for x in w], 'edge': bool(edge), 'forms': forms, 'alias': alias, 'one_sample': one_sample}


def gen_wave(rng):
    t = rng.random()
    if t < 0.15:
        tilt = None
    else:
        k = 2 if t < 0.7 else rng.choice([0, 1, 3, 4])
        tilt = [str(rq(rng, (1, 2, 4, 8, 10))) for _ in range(k)]
    return {'op': 'wave', 'form': rng.choice(['list', 'tuple', 'array']), 'tilt': tilt, 'z': str(rng.choice([F(2), F(8), F(5, 2)])), 'du': [rng.choice(PS_ANY), rng.choice(PS_ANY)],
            'os': rng.choice([1, 2, 3])}


def generate(rng, tier):
    n_prop, n_fit, n_shift = (60, 50, 80) if tier == 'quick' else (2000, 800, 1200)
    for _ in range(12 if tier == 'quick' else 60):
        yield gen_wave(rng)
    for _ in range(n_shift):
        yield gen_shift(rng)
    for _ in range(n_fit):
        yield gen_fit(rng, tier)
    for _ in range(n_prop):
        yield gen_prop(rng, tier)
    for _ in range(45 if tier == 'quick' else 600):
        yield gen_entry(rng)


def classify(c):
    if c['op'] in ENTRY_OPS:
        return entry_classify(c)
    if c['op'] == 'shift':
        return (f'shift/{c["indexing"]}/' + ('nops' if c['ps'] is None else ('scalar' if not isinstance(c['ps'], list) else 'peraxis'))
                + ('/order>1' if has_dispn(c['tilts']) else '') + ('/sameobj' if c.get('alias') else ''))
    if c['op'] == 'fit':
        return (f'fit/seg{len(c["masks"])}/upd{len(c["deltas"])}/{c.get("opd_dtype", "float64")}/mask-{c.get("mask_dtype", "float")}'
                + (f'/{c["container"]}' if c.get('container', 'ndarray') != 'ndarray' else '') + (f'/unit2^{c["unit_exp"]}' if c.get('unit_exp') else '')
                + (f'/inplace={c["inplace"]}' if c.get('inplace', 'False') != 'False' else '') + ('/seg>8' if len(c['masks']) > 8 else '')
                + ('/degenerate' if c.get('degenerate') else ''))
    if c['op'] == 'wave':
        return 'wave/' + ('none' if c['tilt'] is None else f'len{len(c["tilt"])}')
    return (f'prop/seg{len(c["masks"])}/el{len(c["elems"])}/os{c["os"]}' + ('/aniso' if c['du'][0] != c['du'][1] else '')
            + ('/edge' if c.get('edge') else '') + ('/omask' if (c.get('forms') or {}).get('omask') else '')
            + ('/mask3d' if (c.get('forms') or {}).get('mask3d') else '')
            + ('/order>1' if has_dispn(c['elems']) else '') + ('/sameobj' if c.get('alias') else '') + ('/1sample' if c.get('one_sample') else ''))


def nontrivial(c):
    if c['op'] in ENTRY_OPS:
        return True
    if c['op'] == 'shift':
        return len(c['tilts']) >= 1 and c['ps'] is not None and c['indexing'] != 'bad'
    if c['op'] == 'fit':
        return any(F(v) != 0 for row in c['opd'] for v in row)
    if c['op'] == 'wave':
        return c['tilt'] is not None and len(c['tilt']) == 2
    return any(F(v) != 0 for e in c['elems'] if e[0] == 'ang' for v in e[1:]) or any(e[0] != 'ang' for e in c['elems']) \
        or any(F(v) != 0 for s in c['seg'] for v in s)


# ------------------------------------------------------------------ shared case arithmetic (floats the impl sees)
def mesh(m, n):
    r = np.arange(m, dtype=float)[:, None] - (m // 2) + np.zeros((1, n))
    c = np.arange(n, dtype=float)[None, :] - (n // 2) + np.zeros((m, 1))
    return r, c


def ramp(m, n, a, b, dx):
    r, c = mesh(m, n)
    return a * r * fl(dx[0]) - b * c * fl(dx[1])


def opd_arr(c, a):
    """an OPD array of a fit case in the dtype the case asks for (values of integer cases are integers)"""
    dt = c.get('opd_dtype', 'float64')
    if dt.startswith('int'):
        return np.array([[int(F(v)) for v in row] for row in a], dtype=dt)
    return np.array([[fl(v) for v in row] for row in a], dtype=float).astype(dt) * np.array(2.0 ** c.get('unit_exp', 0), dtype=dt)


def unit_of(c):
    return 2.0 ** c.get('unit_exp', 0)


def contain(c, a, allow_matrix=True):
    """wrap an array in the ndarray subclass the case asks for (same data)"""
    k = c.get('container', 'ndarray')
    if k == 'masked':
        return np.ma.MaskedArray(a)
    if k == 'masked1':
        mk = np.zeros(a.shape, dtype=bool)
        mk.flat[a.size // 2] = True
        return np.ma.MaskedArray(a, mask=mk)
    if k == 'matrix' and allow_matrix and a.ndim == 2:
        return np.matrix(a)
    return a


def frac_arr(a):
    return np.array([[fl(v) for v in row] for row in a], dtype=float)


def prop_setup(c):
    """everything derived from a prop case, in the floats handed to the implementation"""
    m, n = c['m'], c['n']
    masks = [np.array(mk, dtype=float) for mk in c['masks']]
    gm = sum(masks)
    z, wl = fl(c['z']), fl(c['wl'])
    xy = [elem_xy(e, z, wl) for e in c['elems']]
    X, Y = sum(v[0] for v in xy), sum(v[1] for v in xy)
    ag, bg = -Y / z, -X / z               # the angular tilt equivalent to all global elements
    base = frac_arr(c['base'])
    seg_ramps = sum(mk * ramp(m, n, fl(s[0]), fl(s[1]), c['dx']) for mk, s in zip(masks, c['seg']))
    glob_ramp = gm * ramp(m, n, ag, bg, c['dx'])
    return {'masks': masks, 'gm': gm, 'z': z, 'wl': wl, 'xy': xy, 'ag': ag, 'bg': bg, 'base': base,
            'seg_ramps': seg_ramps, 'glob_ramp': glob_ramp, 'amp': np.array(c['amp'], dtype=float) * gm * (1.0 if (c.get('forms') or {}).get('amp_int') else 2.0 ** (c.get('forms') or {}).get('amp_exp', 0))}


def rep_names(c):
    return ['opd'] + [f'plane{k}' for k in range(len(c['orders']))] + ['wavefront', 'fit', 'mixed', 'again', 'branch', 'opd2', 'opd2r']


def mixed_parts(c, st):
    """'mixed': element 0 on the wavefront, element 1 in the OPD (then fitted), the rest as planes"""
    z = st['z']
    e = c['elems']
    a0, b0 = -st['xy'][0][1] / z, -st['xy'][0][0] / z
    if len(e) > 1:
        a1, b1 = -st['xy'][1][1] / z, -st['xy'][1][0] / z
    else:
        a1, b1 = 0.0, 0.0
    return (a0, b0), (a1, b1), e[2:]


def fit_opds(c, st):
    """OPD before the first fit and the increments added before each further fit"""
    w = [fl(x) for x in c['weights']]
    tot = st['seg_ramps'] + st['glob_ramp']
    return st['base'] + w[0] * tot, [wk * tot for wk in w[1:]]


# ------------------------------------------------------------------ model side
def enc_arrq(a):
    a = np.asarray(a, dtype=float)
    out = [a.shape[0], a.shape[1]]
    for v in a.ravel():
        out += C.enc_q(float(v))
    return out


def enc_ps(ps):
    if ps is None:
        return [0]
    if not isinstance(ps, list):
        ps = [ps, ps]
    return [1] + enc_f(ps[0]) + enc_f(ps[1])


def enc_qplane(dx, masks, opd):
    out = enc_ps(list(dx)) + [len(masks)]
    for mk in masks:
        out += enc_arrq(mk)
    out += [1] + enc_arrq(opd) + [0]
    return out


def enc_fitplane(dx, masks, opd, deltas):
    out = [2] + enc_qplane(dx, masks, opd) + [len(deltas)]
    for d in deltas:
        out += enc_arrq(d)
    return out


def encode(c):
    if c['op'] in ENTRY_OPS:
        return entry_encode(c)
    if has_dispn(c.get('tilts') or c.get('elems') or []):
        return None      # trace/dispersion of order > 1 (scipy leastsq/quad) is outside the model: decided by the oracle alone
    if c['op'] == 'shift':
        out = [1, len(c['tilts'])]
        for e in c['tilts']:
            out += enc_tilt(e)
        out += enc_f(c['z']) + enc_f(c['wl']) + enc_ps(c['ps']) + enc_f(c['os'])
        out += [{'ij': 0, 'xy': 1, 'bad': 2}[c['indexing']]]
        return out
    if c['op'] == 'fit':
        masks = [np.array(mk, dtype=float) for mk in c['masks']]
        out = [2] + enc_qplane(c['dx'], masks, opd_arr(c, c['opd']).astype(float)) + [len(c['deltas'])]
        for d in c['deltas']:
            out += enc_arrq(opd_arr(c, d).astype(float))
        return out
    if c['op'] == 'wave':
        w = [0] if c['tilt'] is None else [1, len(c['tilt'])] + [x for v in c['tilt'] for x in enc_f(v)]
        return [3] + enc_f(c['z']) + enc_f(1) + enc_ps(list(c['du'])) + enc_f(c['os']) + [1] + w + [0]
    if c['op'] == 'prop':
        st = prop_setup(c)
        nseg = len(c['masks'])
        chains = []
        plain = [1, nseg, 0]
        chains.append([0] + [1] + plain)                                   # opd
        for o in c['orders']:
            es = [c['elems'][k] for k in o['perm']]
            items = [[0] + enc_tilt(e) for e in es[:o['before']]] + [plain] + [[0] + enc_tilt(e) for e in es[o['before']:]]
            chains.append([0] + [len(items)] + [x for it in items for x in it])
        chains.append([1, 2] + C.enc_q(st['ag']) + C.enc_q(st['bg']) + [1] + plain)    # wavefront
        o0, ds = fit_opds(c, st)
        chains.append([0] + [1] + enc_fitplane(c['dx'], st['masks'], o0, ds))           # fit
        (a0, b0), (a1, b1), rest = mixed_parts(c, st)
        mo = st['base'] + st['seg_ramps'] + st['gm'] * ramp(c['m'], c['n'], a1, b1, c['dx'])
        items = [enc_fitplane(c['dx'], st['masks'], mo, [])] + [[0] + enc_tilt(e) for e in rest]
        chains.append([1, 2] + C.enc_q(a0) + C.enc_q(b0) + [len(items)] + [x for it in items for x in it])
        chains.append(list(chains[1]))                                                  # again = plane0
        items = [plain] + [[0] + enc_tilt(e) for e in c['elems']]                       # branch: pupil, then every element
        chains.append([0] + [len(items)] + [x for it in items for x in it])
        chains.append([0] + [2] + plain + [1, 1, 0])                                    # opd2: pupil, then a second array plane
        chains.append([0] + [2] + [1, 1, 0] + plain)                                    # opd2r: the two array planes exchanged
        out = [3] + enc_f(c['z']) + enc_f(c['wl']) + enc_ps(list(c['du'])) + enc_f(c['os']) + [len(chains)]
        for ch in chains:
            out += ch
        return out
    return None


def decode(c, ints):
    if c['op'] in ENTRY_OPS:
        return entry_decode(c, ints)
    rd = C.Reader(ints)
    st = rd.z()
    if c['op'] == 'shift':
        if st == 1:
            return {'err': C.ERRNAMES[rd.z()]}
        tl = rd.lst(lambda: read_tilt(rd))
        r = read_shift(rd)
        r['tilts'] = tl
        return r
    if c['op'] == 'fit':
        if st == 1:
            return {'err': C.ERRNAMES[rd.z()]}
        opd = rd.opt(lambda: rd.arr(rd.q))
        tl = rd.lst(lambda: read_tilt(rd))
        return {'opd': opd, 'tilts': tl}
    if c['op'] in ('prop', 'wave'):
        out = {}
        nch = rd.z()
        for name in (rep_names(c) if c['op'] == 'prop' else ['wave'])[:nch]:
            s = rd.z()
            if s == 1:
                out[name] = {'err': C.ERRNAMES[rd.z()]}
                continue
            fields = []
            for _ in range(rd.z()):
                tl = rd.lst(lambda: read_tilt(rd))
                r = read_shift(rd)
                r['tilts'] = tl
                fields.append(r)
            out[name] = {'fields': fields}
        return out['wave'] if c['op'] == 'wave' else out
    return None


# ------------------------------------------------------------------ implementation side
def mk_pupil(lentil, c, st, opd):
    masks = st['masks']
    fm = c.get('forms') or {}
    mask = (np.array(masks) if fm.get('mask3d') else masks[0]) if len(masks) == 1 else np.array(masks)
    amp = st['amp'].astype(int) if fm.get('amp_int') else st['amp'].copy()
    return lentil.Pupil(amplitude=amp, opd=np.array(opd, dtype=float), mask=mask.copy(),
                        pixelscale=(fl(c['dx'][0]), fl(c['dx'][1])), focal_length=st['z'])


def out_mask(c):
    r0, r1, c0, c1, hole = c['forms']['omask']
    mk = np.zeros((c['shape'][0] * c['os'], c['shape'][1] * c['os']))
    mk[r0:r1 + 1, c0:c1 + 1] = 1
    if hole and r1 - r0 >= 2 and c1 - c0 >= 2:
        mk[r0 + 1:r1, c0 + 1:c1] = 0          # the bounding box stays the same
    return mk


def windows_of(out):
    return [[int(v) for v in f.extent] for f in out.data]


def run_rep(lentil, c, st, wave_tilt, planes, start=None):
    """multiply a fresh wavefront (or [start]) through the planes, propagate, and also propagate field by field"""
    if start is not None:
        w = start
    else:
        w = lentil.Wavefront(st['wl']) if wave_tilt is None else lentil.Wavefront(st['wl'], tilt=list(wave_tilt))
    fm = c.get('forms') or {}
    held = []            # every intermediate wavefront stays referenced; its tilt bookkeeping must not change afterwards
    for k, p in enumerate(planes):
        held.append((w, [[stored(t) for t in f.tilt] for f in w.data]))
        form = (fm.get('opforms') or ['w*p'])[k % len(fm.get('opforms') or ['w*p'])]
        if form == 'p*w':
            w = p * w
        elif form == 'w*=p':
            w *= p
        else:
            w = w * p
    du = (fl(c['du'][0]), fl(c['du'][1]))
    idt = {'uint8': np.uint8, 'int8': np.int8, 'uint16': np.uint16}.get(fm.get('int_dtype'))
    shape_arg = c['shape'][0] if fm.get('shape_int') else tuple(c['shape'])
    prop_arg = None if c['prop_shape'] is None else (c['prop_shape'][0] if fm.get('prop_int') else tuple(c['prop_shape']))
    os_arg = c['os']
    if idt is not None:      # small-width integer scalars / arrays for shape, prop_shape, oversample
        shape_arg = idt(shape_arg) if np.ndim(shape_arg) == 0 else np.array(shape_arg, dtype=idt)
        prop_arg = None if prop_arg is None else (idt(prop_arg) if np.ndim(prop_arg) == 0 else np.array(prop_arg, dtype=idt))
        os_arg = idt(os_arg)
    kw = dict(pixelscale=du[0] if fm.get('du_scalar') else du, shape=shape_arg, oversample=os_arg, prop_shape=prop_arg)
    if fm.get('omask'):
        kw['mask'] = out_mask(c)
    shifts = [[float(np.ravel(v)[0]) for v in f.shift(z=w.focal_length, wavelength=w.wavelength, pixelscale=du, oversample=c['os'])]
              for f in w.data]
    tilts = [[stored(t) for t in f.tilt] for f in w.data]
    out = lentil.propagate_dft(w, **kw)
    per_field = []
    data = w.data
    for f in data:
        w.data = [f]
        o1 = lentil.propagate_dft(w, **kw)
        per_field.append(windows_of(o1))
    w.data = data
    intact = all([[stored(t) for t in f.tilt] for f in hw.data] == snap for hw, snap in held)
    return {'shifts': shifts, 'tilts': tilts, 'field': np.asarray(out.field), 'windows': windows_of(out),
            'per_field': per_field, 'held_intact': bool(intact)}


def run_impl(c):
    """the call history of the case, under the caller's numpy error state the case asks for; the library must neither
    depend on it nor change it"""
    es = c.get('errstate') or (c.get('forms') or {}).get('errstate')
    if es is None:
        return run_impl_inner(c)
    with np.errstate(over=es, invalid=es, divide=es):
        before = np.geterr()
        res = run_impl_inner(c)
        if isinstance(res, dict) and np.geterr() != before:
            res['errstate_changed'] = [before, np.geterr()]
    return res


def run_impl_inner(c):
    lentil = C.import_lentil()
    if c['op'] in ENTRY_OPS:
        return entry_run(lentil, c)
    if c['op'] == 'shift':
        objs = make_objs(lentil, c['tilts'], c.get('alias'), c.get('positional'))
        ps = None if c['ps'] is None else (fl(c['ps']) if not isinstance(c['ps'], list) else (fl(c['ps'][0]), fl(c['ps'][1])))
        ix = {'ij': 'ij', 'xy': 'xy', 'bad': 'rc'}[c['indexing']]

        def one(lst):
            f = lentil.field.Field(data=1, tilt=list(lst))
            if c.get('positional'):
                return [float(np.ravel(v)[0]) for v in f.shift(fl(c['z']), fl(c['wl']), ps, c['os'], ix)]
            return [float(np.ravel(v)[0]) for v in f.shift(z=fl(c['z']), wavelength=fl(c['wl']), pixelscale=ps,
                                              oversample=c['os'], indexing=ix)]
        try:
            res = {'shift': one(objs), 'tilts': [stored(t) for t in objs]}
            if c.get('refused_between'):          # a refused call in the middle of the history must leave no trace
                for bad in (dict(pixelscale=None, indexing='ij'), dict(pixelscale=1.0, indexing='rc')):
                    try:
                        lentil.field.Field(data=1, tilt=list(objs)).shift(z=1.0, wavelength=1.0, oversample=1, **bad)
                    except ValueError:
                        pass
            res['perm'] = one([objs[k] for k in c['perm']])
            res['rev'] = one(objs[::-1])
            return res
        except Exception as e:
            return {'err': type(e).__name__}
    if c['op'] == 'fit':
        masks = [np.array(mk, dtype=float) for mk in c['masks']]
        mask = (np.array(masks) if c.get('mask3d') else masks[0]) if len(masks) == 1 else np.array(masks)
        mask = mask.astype({'float': float, 'int': int, 'bool': bool, 'uint8': np.uint8}[c.get('mask_dtype', 'float')])
        amp = sum(masks).astype(int if c.get('amp_dtype') == 'int' else float)
        ip = {'False': False, 'True': True, '1': 1, 'np.True_': np.True_, '0': 0}[c.get('inplace', 'False')]
        try:
            opd_caller = contain(c, opd_arr(c, c['opd']))
            caller_copy = np.array(np.asarray(opd_caller), copy=True)
            p = lentil.Pupil(amplitude=contain(c, amp), opd=opd_caller, mask=contain(c, mask),
                             pixelscale=(fl(c['dx'][0]), fl(c['dx'][1])), focal_length=1.0)
            p0 = p
            opd_in = np.array(p.opd, copy=True)
            p = p.fit_tilt(inplace=ip)
            same_obj = p is p0
            untouched = bool(np.array_equal(p0.opd, opd_in) and p0.opd.dtype == opd_in.dtype and p0.tilt == [])
            for d in c['deltas']:
                p.opd = contain(c, np.asarray(p.opd) + opd_arr(c, d))      # the sum is formed on plain arrays
                p = p.fit_tilt(inplace=ip)
            q = p.rescale(1.0)
            return {'opd': np.asarray(p.opd, dtype=float), 'tilts': [stored(t) for t in p.tilt], 'untouched': untouched,
                    'same_obj': same_obj, 'opd_type': type(p.opd).__name__,
                    'caller_intact': bool(np.array_equal(np.asarray(opd_caller), caller_copy)),
                    'rescaled_tilts': [stored(t) for t in q.tilt]}
        except Exception as e:
            return {'err': type(e).__name__}
    if c['op'] == 'wave':
        try:
            tv = None if c['tilt'] is None else [fl(v) for v in c['tilt']]
            if tv is not None and c.get('form') == 'tuple':
                tv = tuple(tv)
            elif tv is not None and c.get('form') == 'array':
                tv = np.array(tv, dtype=float)
            w = lentil.Wavefront(1.0, tilt=tv)
            f = w.data[0]
            return {'tilts': [stored(t) for t in f.tilt],
                    'shift': [float(v) for v in f.shift(z=fl(c['z']), wavelength=1.0, pixelscale=(fl(c['du'][0]), fl(c['du'][1])),
                                                        oversample=c['os'])]}
        except Exception as e:
            return {'err': type(e).__name__}
    if c['op'] == 'prop':
        st = prop_setup(c)
        res = {}
        opd_seg = st['base'] + st['seg_ramps']

        def guard(name, fn):
            try:
                res[name] = fn()
            except Exception as e:
                res[name] = {'err': type(e).__name__ + ': ' + str(e)[:200]}
        guard('opd', lambda: run_rep(lentil, c, st, None, [mk_pupil(lentil, c, st, opd_seg + st['glob_ramp'])]))
        # one history in one process: the same element objects and the same pupil object serve every chain
        objs = make_objs(lentil, c['elems'], c.get('alias'), (c.get('forms') or {}).get('positional'))
        pupil = mk_pupil(lentil, c, st, opd_seg)

        def plane_chain(o):
            es = [objs[i] for i in o['perm']]
            return es[:o['before']] + [pupil] + es[o['before']:]
        for k, o in enumerate(c['orders']):
            guard(f'plane{k}', lambda o=o: run_rep(lentil, c, st, None, plane_chain(o)))
        guard('wavefront', lambda: run_rep(lentil, c, st, (st['ag'], st['bg']), [pupil]))

        def fit_rep():
            o0, ds = fit_opds(c, st)
            p = mk_pupil(lentil, c, st, o0).fit_tilt()
            for d in ds:
                p.opd = p.opd + d
                p = p.fit_tilt()
            r = run_rep(lentil, c, st, None, [p])
            r['plane_tilts'] = [stored(t) for t in p.tilt]
            r['residual'] = np.asarray(p.opd, dtype=float)
            return r
        guard('fit', fit_rep)

        def mixed_rep():
            (a0, b0), (a1, b1), rest = mixed_parts(c, st)
            mo = opd_seg + st['gm'] * ramp(c['m'], c['n'], a1, b1, c['dx'])
            p = mk_pupil(lentil, c, st, mo).fit_tilt()
            return run_rep(lentil, c, st, (a0, b0), [p] + objs[2:])
        guard('mixed', mixed_rep)
        # the first chain once more, after everything else ran on the same objects
        guard('again', lambda: run_rep(lentil, c, st, None, plane_chain(c['orders'][0])))

        # a shared wavefront: one branch passes a tilt element, then the stem is re-used for the full chain
        def branch_rep():
            stem = lentil.Wavefront(st['wl']) * pupil
            if objs:
                side = stem * objs[-1]
                side = side * objs[0]
            return run_rep(lentil, c, st, None, list(objs), start=stem)
        guard('branch', branch_rep)

        # the tilt written as an OPD ramp in a SECOND array plane (full aperture, unit amplitude), in both orders
        def second_plane():
            return lentil.Pupil(amplitude=np.ones((c['m'], c['n'])), opd=ramp(c['m'], c['n'], st['ag'], st['bg'], c['dx']),
                                pixelscale=(fl(c['dx'][0]), fl(c['dx'][1])), focal_length=st['z'])
        guard('opd2', lambda: run_rep(lentil, c, st, None, [mk_pupil(lentil, c, st, opd_seg), second_plane()]))
        guard('opd2r', lambda: run_rep(lentil, c, st, None, [second_plane(), mk_pupil(lentil, c, st, opd_seg)]))
        return res
    return {'err': 'unknown op'}


# ------------------------------------------------------------------ comparison with the model
def compare(c, impl, model):
    if c['op'] in ENTRY_OPS:
        return entry_compare(c, impl, model)
    if c['op'] in ('shift', 'fit'):
        if c['op'] == 'fit' and model.get('err') == 'ValueError' and 'err' not in impl:
            return None     # rank-deficient masked basis: lstsq's minimum-norm choice is outside the model
        if ('err' in impl) != ('err' in model):
            return f'implementation {impl.get("err", "returned a value")}, model {model.get("err", "returned a value")}'
        if 'err' in impl:
            return None if impl['err'] == model['err'] else f'error kinds differ: impl {impl["err"]} model {model["err"]}'
    if c['op'] == 'wave':
        if ('err' in impl) != ('err' in model):
            return f'implementation {impl.get("err", "returned a value")}, model {model.get("err", "returned a value")}'
        if 'err' in impl:
            return None if impl['err'] == model['err'] else f'error kinds differ: impl {impl["err"]} model {model["err"]}'
        if len(model['fields']) != 1:
            return 'model: a fresh wavefront must hold one field'
        msg = cmp_tilts(impl['tilts'], model['fields'][0]['tilts'], 0.0)
        if msg:
            return 'Wavefront(tilt=): ' + msg
        for k in (0, 1):
            if not close(impl['shift'][k], float(model['fields'][0]['shift'][k]), 1e-12):
                return f'Wavefront(tilt=) shift component {k}: impl {impl["shift"][k]!r} model {float(model["fields"][0]["shift"][k])!r}'
        return None
    if c['op'] == 'shift':
        msg = cmp_tilts(impl['tilts'], model['tilts'], 0.0)
        if msg:
            return 'stored tilt attributes: ' + msg
        for k in (0, 1):
            a, b = impl['shift'][k], model['shift'][k]
            if c.get('exact'):
                if C.frac(a) != b:
                    return f'Field.shift component {k}: impl {a!r} != model {b} (exact regime)'
            elif not close(a, float(b), 1e-12):
                return f'Field.shift component {k}: impl {a!r} model {float(b)!r}'
        return None
    if c['op'] == 'fit':
        msg = cmp_tilts(impl['tilts'], model['tilts'], TOL, unit_of(c))
        if msg:
            return 'recorded tilt: ' + msg
        mo = np.array([[float(v) for v in row] for row in model['opd']])
        d = np.max(np.abs(mo - impl['opd']))
        if d > TOL * (unit_of(c) + np.max(np.abs(mo))):
            return f'residual OPD differs from the model by {d:.3g}'
        return None
    if c['op'] == 'prop':
        for name in rep_names(c):
            a, b = impl.get(name), model.get(name)
            if a is None or b is None:
                return f'representation {name} missing'
            if 'err' in b:
                continue     # singular fit in the model
            if 'err' in a:
                return f'{name}: implementation raised {a["err"]}'
            if len(a['shifts']) != len(b['fields']):
                return f'{name}: {len(a["shifts"])} fields in the implementation, {len(b["fields"])} in the model'
            for k, (sa, fb) in enumerate(zip(a['shifts'], b['fields'])):
                msg = cmp_tilts(a['tilts'][k], fb['tilts'], TOL)
                if msg:
                    return f'{name} field {k}: ' + msg
                for ax in (0, 1):
                    if not close(sa[ax], float(fb['shift'][ax]), TOL):
                        return f'{name} field {k}: Field.shift axis {ax}: impl {sa[ax]!r} model {float(fb["shift"][ax])!r}'
        return None
    return None


# ------------------------------------------------------------------ direct oracle (no model)
def expected_shift(c):
    z, wl = fl(c['z']), fl(c['wl'])
    xy = [elem_xy(e, z, wl) for e in c['tilts']]
    X, Y = sum(v[0] for v in xy), sum(v[1] for v in xy)
    ps = c['ps'] if isinstance(c['ps'], list) else [c['ps'], c['ps']]
    pr, pc = fl(ps[0]), fl(ps[1])
    if c['indexing'] == 'ij':
        return [-Y / pr * c['os'], X / pc * c['os']]
    return [X / pc * c['os'], Y / pr * c['os']]


def seg_fields(c, st):
    """per segment: the Fraunhofer field of the untilted segment displaced by the property's formula,
    on the whole output array; plain matrix evaluation of the defining sum"""
    m, n = c['m'], c['n']
    z, wl, os_ = st['z'], st['wl'], c['os']
    dur, duc = fl(c['du'][0]), fl(c['du'][1])
    ar = fl(c['dx'][0]) * dur / (wl * z * os_)
    ac = fl(c['dx'][1]) * duc / (wl * z * os_)
    Sr, Sc = c['shape'][0] * os_, c['shape'][1] * os_
    X = np.arange(m) - m // 2
    Yc = np.arange(n) - n // 2
    gx = sum(v[0] for v in st['xy'])
    gy = sum(v[1] for v in st['xy'])
    out = []
    shifts = []
    for mk, s in zip(st['masks'], c['seg']):
        a, b = fl(s[0]), fl(s[1])
        # displacement: focal_length*angle/du*oversample, +x tilt -> +row, +y tilt -> -column; metres (x, y) -> (-y, x)
        sr = z * a * os_ / dur - gy / dur * os_
        sc = -z * b * os_ / duc + gx / duc * os_
        P = st['amp'] * mk * np.exp(2j * np.pi * st['base'] / wl)
        U = (np.arange(Sr) - Sr // 2) - sr
        V = (np.arange(Sc) - Sc // 2) - sc
        E1 = np.exp(-2j * np.pi * ar * np.outer(U, X))
        E2 = np.exp(-2j * np.pi * ac * np.outer(Yc, V))
        out.append(math.sqrt(abs(ar * ac)) * (E1 @ P @ E2))
        shifts.append((sr, sc))
    return out, shifts


def window_mask(shape, ext):
    R, Cc = shape
    w = np.zeros(shape, dtype=bool)
    r0, r1 = max(ext[0] + R // 2, 0), min(ext[1] + R // 2, R - 1)
    c0, c1 = max(ext[2] + Cc // 2, 0), min(ext[3] + Cc // 2, Cc - 1)
    if r0 <= r1 and c0 <= c1:
        w[r0:r1 + 1, c0:c1 + 1] = True
    return w


def must_evaluate(shape, P, s, eps=1e-9):
    """output samples inside the centred P box translated by t, for every integer t between floor(s) and ceil(s)"""
    need = []
    for ax in (0, 1):
        lo_t, hi_t = math.floor(s[ax] - eps), math.ceil(s[ax] + eps)
        lo = hi_t - P[ax] // 2                       # first coordinate covered for the largest translation
        hi = lo_t - P[ax] // 2 + P[ax] - 1           # last coordinate covered for the smallest translation
        idx = np.arange(shape[ax]) - shape[ax] // 2
        need.append((idx >= lo) & (idx <= hi))
    return np.outer(need[0], need[1])


def oracle(c, impl):
    if isinstance(impl, dict) and impl.get('errstate_changed'):
        return f'the library changed the caller\'s numpy error state: {impl["errstate_changed"]}'
    if c['op'] in ENTRY_OPS:
        return entry_oracle(c, impl)
    if c['op'] == 'wave':
        if c['tilt'] is not None and len(c['tilt']) != 2:
            return None if impl.get('err') == 'ValueError' else 'a wavefront tilt that is not [rx, ry] was not refused with ValueError'
        if 'err' in impl:
            return f'Wavefront(tilt=) raised {impl["err"]}'
        a, b = (0.0, 0.0) if c['tilt'] is None else (fl(c['tilt'][0]), fl(c['tilt'][1]))
        exp = [fl(c['z']) * a * c['os'] / fl(c['du'][0]), -fl(c['z']) * b * c['os'] / fl(c['du'][1])]
        for k in (0, 1):
            if not close(impl['shift'][k], exp[k], 1e-11):
                return f'wavefront tilt [rx, ry]: displacement component {k} is {impl["shift"][k]!r}, expected {exp[k]!r}'
        return None
    if c['op'] == 'shift':
        bad = c['indexing'] == 'bad' or c['ps'] is None
        if bad:
            return None if impl.get('err') == 'ValueError' else 'missing pixel scale / unknown indexing not refused with ValueError'
        if 'err' in impl:
            return f'Field.shift raised {impl["err"]}'
        exp = expected_shift(c)
        # elements of order > 1 are evaluated by scipy.optimize.leastsq (xtol 1.5e-8; observed 1e-12): 1e-9 for those
        stol = 1e-9 if has_dispn(c['tilts']) else 1e-11
        for k in (0, 1):
            if not close(impl['shift'][k], exp[k], stol):
                return (f'displacement is not focal_length*angle/du*oversample with +x -> +row, +y -> -column '
                        f'(component {k}: {impl["shift"][k]!r}, expected {exp[k]!r})')
            for alt in ('perm', 'rev'):
                if not close(impl[alt][k], impl['shift'][k], 1e-11):
                    return f'displacement depends on the order of the tilt elements ({alt}: {impl[alt]} vs {impl["shift"]})'
        return None
    if c['op'] == 'fit':
        if 'err' in impl:
            return f'fit_tilt raised {impl["err"]} on a valid plane (OPD dtype {c.get("opd_dtype", "float64")}, mask dtype {c.get("mask_dtype", "float")})'
        m, n = c['m'], c['n']
        masks = [np.array(mk, dtype=float) for mk in c['masks']]
        total = opd_arr(c, c['opd']).astype(float) + sum((opd_arr(c, d).astype(float) for d in c['deltas']), np.zeros((m, n)))
        nseg = len(masks)
        nfit = 1 + len(c['deltas'])
        if len(impl['tilts']) != nseg * nfit:
            return f'{len(impl["tilts"])} tilt entries recorded, expected {nseg * nfit}'
        ipf = c.get('inplace', 'False')
        if ipf in ('False', '0'):
            if not impl.get('untouched', True) or impl.get('same_obj'):
                return f'fit_tilt(inplace={ipf}) modified the plane it was called on'
        elif not impl.get('same_obj', True):
            return f'fit_tilt(inplace={ipf}) did not work on the plane itself'
        if not impl.get('caller_intact', True):
            return 'fit_tilt changed the array the caller passed as opd'
        if impl.get('opd_type', 'ndarray') != 'ndarray':
            return f'the plane keeps its OPD as {impl["opd_type"]} (array subclasses must be reduced to plain arrays)'
        if 'rescaled_tilts' in impl and impl['rescaled_tilts'] != impl['tilts']:
            return 'Plane.rescale(1.0) changed the recorded tilt of a fitted plane'
        scale = unit_of(c) + np.max(np.abs(total))
        r, cc = mesh(m, n)
        for k, mk in enumerate(masks):
            rec = np.zeros((m, n))
            for j in range(nfit):
                t = impl['tilts'][j * nseg + k]
                # stored attributes: Tilt(x, y) keeps x in .y and y in .x
                rec += ramp(m, n, t[2], t[1], c['dx'])
            d = np.max(np.abs((impl['opd'] + rec - total) * mk))
            if d > TOL * scale:
                return f'OPD plus recorded tilt changed on segment {k} by {d:.3g} (piston or tilt lost)'
            if not c.get('degenerate'):
                cnt = mk.sum()
                res = (impl['opd'] - (impl['opd'] * mk).sum() / cnt) * mk
                for nm, bas in (('x', r * fl(c['dx'][0])), ('y', -cc * fl(c['dx'][1]))):
                    if abs((res * bas).sum()) > TOL * scale * (1 + np.abs(bas).sum()):
                        return f'residual OPD of segment {k} still has a least-squares {nm} tilt'
        return None
    if c['op'] == 'prop':
        st = prop_setup(c)
        E, shifts = seg_fields(c, st)
        nseg = len(E)
        shape = E[0].shape
        peak = max(1e-300, max(np.max(np.abs(e)) for e in E))
        ref = None
        P = (c['prop_shape'] or c['shape'])
        dur, duc = fl(c['du'][0]), fl(c['du'][1])
        gshift = (-sum(v[1] for v in st['xy']) / dur * c['os'], sum(v[0] for v in st['xy']) / duc * c['os'])
        obox = np.ones(shape, dtype=bool)
        if (c.get('forms') or {}).get('omask'):
            r0, r1, c0, c1, _ = c['forms']['omask']       # with mask= the output box is the mask's bounding box
            obox[:] = False
            obox[r0:r1 + 1, c0:c1 + 1] = True
        for name in (c.get('_only') or rep_names(c)):
            r = impl.get(name)
            if r is None or 'err' in r:
                return f'{name}: propagation raised {None if r is None else r["err"]}'
            if len(r['per_field']) != nseg:
                return f'{name}: {len(r["per_field"])} pupil-plane fields for {nseg} segments'
            if not r.get('held_intact', True):
                return f'{name}: a wavefront that was multiplied by a plane had its tilt bookkeeping changed by that (or a later) product'
            exp = np.zeros(shape, dtype=complex)
            allw = np.ones(shape, dtype=bool)
            for k in range(nseg):
                wk = np.zeros(shape, dtype=bool)
                for ext in r['per_field'][k]:
                    wk |= window_mask(shape, ext)
                exp += np.where(wk, E[k], 0)
                if (wk & ~obox).any():
                    return f'{name}: segment {k}: samples outside the bounding box of the output mask were evaluated'
                allw &= wk
                # The window is not pinned (fix / floor / round of the shift are all admissible integer parts), but
                # every output sample that lies in the propagation window translated by floor(s) AND by ceil(s)
                # of the field's metadata shift s lies in it for every admissible choice, and must be evaluated.
                if name in ('opd', 'opd2', 'opd2r'):
                    ms = (0.0, 0.0)
                elif name.startswith('plane') or name in ('wavefront', 'again', 'branch'):
                    ms = gshift
                else:
                    ms = r['shifts'][k]           # fit / mixed: the shift the field's own metadata reports
                need = must_evaluate(shape, (P[0] * c['os'], P[1] * c['os']), ms) & obox
                miss = need & ~wk
                if miss.any():
                    i = np.argwhere(miss)[0]
                    return (f'{name}: segment {k} with tilt shift ({ms[0]:.6g}, {ms[1]:.6g}): {int(miss.sum())} of {int(need.sum())} output '
                            f'samples that lie inside the displaced propagation window for every admissible integer part of '
                            f'the shift are not evaluated (first: sample {int(i[0])},{int(i[1])}; {len(r["per_field"][k])} field(s) returned)')
                # the sample the tilt metadata displaces the window centre to must be evaluated whenever it lies
                # inside the output (the window itself is not pinned)
                if (name.startswith('plane') or name in ('wavefront', 'again', 'branch')) and obox.all():
                    cr, cc_ = int(np.fix(gshift[0])) + shape[0] // 2, int(np.fix(gshift[1])) + shape[1] // 2
                    if min(P) * c['os'] >= 3 and 0 <= cr < shape[0] and 0 <= cc_ < shape[1] and not wk[cr, cc_]:
                        return f'{name}: the displaced window centre of segment {k} (sample {cr},{cc_}) is not evaluated'
            got = np.asarray(r['field'])
            if got.shape != shape:
                return f'{name}: output shape {got.shape} != {shape}'
            d = np.abs(got - exp)
            if d.max() > TOL * peak:
                i = np.unravel_index(np.argmax(d), shape)
                return (f'{name}: propagated field is not the image displaced by focal_length*angle/du*oversample '
                        f'(+x -> +row, +y -> -column): sample {tuple(int(v) for v in i)} is {got[i]}, expected {exp[i]}, '
                        f'peak {peak:.3g}')
            if ref is None:
                ref = (got, allw)
            else:
                both = ref[1] & allw
                if both.any() and np.max(np.abs(got - ref[0])[both]) > TOL * peak:
                    return f'{name} and the OPD-ramp representation differ on samples both evaluate'
            for k, sh in enumerate(r['shifts']):
                for ax in (0, 1):
                    if name in ('opd', 'opd2', 'opd2r'):
                        if sh[ax] != 0:
                            return f'{name}: a wavefront without tilt elements reports a shift'
                    elif (name.startswith('plane') or name in ('wavefront', 'again', 'branch')) and not close(sh[ax], gshift[ax], TOL):
                        return (f'{name} field {k}: Field.shift axis {ax} is {sh[ax]!r}, the displacement formula gives '
                                f'{gshift[ax]!r} for its tilt elements')
        return None
    return None


# ------------------------------------------------------------------ labelled tests outside the case protocol
def extra(tier, rng):
    """(1) the model's OPD ramp (the one the theorems speak about) equals the ramp this harness feeds to lentil as the
    'OPD representation'; (2) observation only, never a verdict: how often the window the model computes for a
    tilted field equals the window propagate_dft evaluated (the window is not pinned by the property)."""
    lentil = C.import_lentil()
    binp = C.build_model(MODEL)
    report, viol = {}, []
    # (1)
    encs, exps = [], []
    for _ in range(10 if tier == 'quick' else 40):
        m, n = rng.randint(1, 7), rng.randint(1, 7)
        a, b = rq(rng, (1, 2, 4, 8)), rq(rng, (1, 2, 4, 8))
        dx = [rng.choice(DX_ANY), rng.choice(DX_ANY)]
        encs.append([4] + C.enc_q(a) + C.enc_q(b) + enc_f(dx[0]) + enc_f(dx[1]) + [m, n])
        exps.append(ramp(m, n, float(a), float(b), dx))
    bad = 0
    for ints, exp in zip(C.run_model(binp, encs), exps):
        rd = C.Reader(ints)
        assert rd.z() == 0
        got = np.array([[float(v) for v in row] for row in rd.arr(rd.q)])
        if got.shape != exp.shape or np.max(np.abs(got - exp)) > 1e-12 * (1 + np.max(np.abs(exp))):
            bad += 1
    report['ramp_cases'] = len(encs)
    report['ramp_disagreements'] = bad
    if bad:
        viol.append({'case': None, 'impl': None, 'what': 'harness OPD ramp differs from the model\'s opd_ramp (harness/model inconsistency)'})
    # (2)
    encs, obs = [], []
    for _ in range(40 if tier == 'quick' else 300):
        shape = (rng.randint(2, 7), rng.randint(2, 7))
        ps = None if rng.random() < 0.4 else (rng.randint(1, shape[0]), rng.randint(1, shape[1]))
        os_ = rng.choice([1, 2, 3])
        du = (fl(rng.choice(PS_ANY)), fl(rng.choice(PS_ANY)))
        z = 8.0
        span = max(shape) * os_
        a = float(rnd_px(rng, span)) * du[0] / (z * os_)
        b = -float(rnd_px(rng, span)) * du[1] / (z * os_)
        w = lentil.Wavefront(1.0) * lentil.Pupil(amplitude=np.ones((3, 3)), pixelscale=0.25, focal_length=z) * lentil.Tilt(x=a, y=b)
        s = w.data[0].shift(z=z, wavelength=1.0, pixelscale=du, oversample=os_)
        out = lentil.propagate_dft(w, pixelscale=du, shape=shape, prop_shape=ps, oversample=os_)
        got = None if not out.data else [int(out.data[0].shape[0]), int(out.data[0].shape[1]),
                                         int(out.data[0].offset[0]), int(out.data[0].offset[1])]
        S0, S1 = shape[0] * os_, shape[1] * os_
        P = shape if ps is None else ps
        oe = [-(S0 // 2), -(S0 // 2) + S0 - 1, -(S1 // 2), -(S1 // 2) + S1 - 1]
        encs.append([5] + oe + [P[0] * os_, P[1] * os_] + C.enc_q(float(s[0])) + C.enc_q(float(s[1])))
        obs.append(got)
    agree = 0
    for ints, got in zip(C.run_model(binp, encs), obs):
        rd = C.Reader(ints)
        assert rd.z() == 0
        mw = rd.opt(lambda: [rd.z(), rd.z(), rd.z(), rd.z()])
        agree += (mw == got)
    report['window_cases'] = len(encs)
    report['window_model_equals_implementation'] = agree
    report['window_note'] = 'observation only: the evaluated window of a tilted field is not pinned by C04'
    return {'report': report, 'violations': viol}


# ------------------------------------------------------------------ entry points, refusal paths, early returns
# (op 'fft': the propagate_fft guard; 'fitcall': the entry of fit_tilt for Plane / Pupil / Image, with and without a
#  2-d mask, pixelscale, array OPD, inplace; 'dctor': DispersiveTilt's constructor)
ENTRY_OPS = ('fft', 'fitcall', 'dctor')
FFT_Z, FFT_DX, FFT_DU, FFT_OS = 8.0, 0.25, 4.0, 2          # alpha = dx*du/(wl*z*os) = 1/16 for wl = 1


def gen_entry(rng):
    t = rng.random()
    if t < 0.4:
        nseg = rng.choice([1, 1, 2])
        w = rng.random()
        wt = None if w < 0.5 else (['0', '0'] if w < 0.65 else [str(rq(rng, (8, 16), -4, 4) / 16), str(rq(rng, (8, 16), -4, 4) / 16)])
        ne = rng.choice([0, 0, 1, 2])
        elems = []
        for _ in range(ne):
            r = rng.random()
            if r < 0.2:
                elems.append(['ang', '0', '0'])
            elif r < 0.8:
                elems.append(['ang', str(rq(rng, (8, 16), -4, 4) / 16), str(rq(rng, (8, 16), -4, 4) / 16)])
            else:
                elems.append(rnd_disp(rng, '1', F(2)))
        f = rng.random()
        fitted = None if f < 0.6 else ('zero' if f < 0.75 else 'ramp')
        return {'op': 'fft', 'nseg': nseg, 'wtilt': wt, 'elems': elems, 'before': rng.randint(0, ne), 'fitted': fitted,
                'ramp': [str(rq(rng, (8,), -4, 4) / 8), str(rq(rng, (8,), -4, 4) / 8)]}
    if t < 0.8:
        m, n = rng.randint(2, 5), rng.randint(2, 5)
        kind = rng.choice(['plane', 'pupil', 'pupil', 'image'])
        has_mask = rng.random() < 0.8
        opd = None if rng.random() < 0.25 else [[str(rq(rng, (1, 2, 4, 8), -8, 8)) for _ in range(n)] for _ in range(m)]
        mask = [[1] * n for _ in range(m)]
        if m * n > 4 and rng.random() < 0.5:
            mask[0][0] = 0
        return {'op': 'fitcall', 'kind': kind, 'has_mask': has_mask, 'inplace': rng.random() < 0.4, 'm': m, 'n': n,
                'ps': None if rng.random() < 0.25 else [rng.choice(DX_ANY), rng.choice(DX_ANY)], 'opd': opd, 'mask': mask}
    lt, ld = rng.choice([0, 1, 2, 2, 3, 4]), rng.choice([0, 1, 2, 2, 3])
    return {'op': 'dctor', 'trace': [str(rq(rng, (1, 2, 4), -4, 4)) for _ in range(lt)],
            'dispersion': [str(rq(rng, (1, 2, 4), 1, 4)) for _ in range(ld)], 'scalar': rng.random() < 0.1}


def entry_classify(c):
    if c['op'] == 'fft':
        return f'fft/seg{c["nseg"]}/w{"-" if c["wtilt"] is None else "+"}/el{len(c["elems"])}/fit-{c["fitted"]}'
    if c['op'] == 'fitcall':
        return (f'fitcall/{c["kind"]}/mask{int(c["has_mask"])}/ps{int(c["ps"] is not None)}/opd{int(c["opd"] is not None)}'
                f'/inplace{int(c["inplace"])}')
    return f'dctor/{len(c["trace"])}x{len(c["dispersion"])}' + ('/scalar' if c.get('scalar') else '')


def fft_masks(c):
    if c['nseg'] == 1:
        return [np.ones((4, 4))]
    a = np.zeros((4, 4))
    a[:, :2] = 1
    return [a, 1 - a]


def fft_opd(c):
    if c['fitted'] == 'ramp':
        return ramp(4, 4, fl(c['ramp'][0]), fl(c['ramp'][1]), [FFT_DX, FFT_DX]) + 0.125
    return np.zeros((4, 4))


def entry_encode(c):
    if c['op'] == 'fft':
        masks = fft_masks(c)
        if c['fitted']:
            plane = enc_fitplane([str(F(1, 4)), str(F(1, 4))], masks, fft_opd(c), [])
        else:
            plane = [1, c['nseg'], 0]
        items = [[0] + enc_tilt(e) for e in c['elems'][:c['before']]] + [plane] + [[0] + enc_tilt(e) for e in c['elems'][c['before']:]]
        w = [0] if c['wtilt'] is None else [1, 2] + enc_f(c['wtilt'][0]) + enc_f(c['wtilt'][1])
        return [6, 1] + w + [len(items)] + [x for it in items for x in it]
    if c['op'] == 'fitcall':
        out = [7, {'plane': 0, 'pupil': 1, 'image': 2}[c['kind']], int(c['has_mask']), int(c['inplace'])]
        out += enc_ps(c['ps']) + ([1] + enc_arrq(np.array(c['mask'], dtype=float)) if c['has_mask'] else [0])
        out += ([0] if c['opd'] is None else [1] + enc_arrq(frac_arr(c['opd']))) + [0]
        return out
    if c['op'] == 'dctor':
        if c.get('scalar'):
            return None            # a bare number instead of a coefficient list: decided by the oracle alone
        t0 = fl(c['trace'][0]) if c['trace'] else 0.0
        root = float(np.sqrt(1 + t0 ** 2))
        return ([8, len(c['trace'])] + [x for v in c['trace'] for x in enc_f(v)] + [len(c['dispersion'])]
                + [x for v in c['dispersion'] for x in enc_f(v)] + C.enc_q(root))
    return None


def read_qplane(rd):
    opd = rd.opt(lambda: rd.arr(rd.q))
    return {'opd': opd, 'tilts': rd.lst(lambda: read_tilt(rd))}


def entry_decode(c, ints):
    rd = C.Reader(ints)
    st = rd.z()
    if c['op'] == 'fft':
        assert rd.z() == 1
        return {'refused': rd.z() == 1}
    if c['op'] == 'fitcall':
        if st == 1:
            return {'err': C.ERRNAMES[rd.z()]}
        return {'returned': read_qplane(rd), 'receiver': read_qplane(rd)}
    code = rd.z()
    return {'kind': ['refused', 'first', 'higher'][code], 'tilt': read_tilt(rd) if code == 1 else None}


def plane_state(p):
    o = np.asarray(p.opd, dtype=float)
    return {'opd': None if o.ndim == 0 else o, 'tilts': [stored(t) for t in p.tilt]}


def entry_run(lentil, c):
    if c['op'] == 'fft':
        masks = fft_masks(c)
        mask = masks[0] if len(masks) == 1 else np.array(masks)

        def pupil(opd):
            return lentil.Pupil(amplitude=sum(masks), opd=opd, mask=mask, pixelscale=FFT_DX, focal_length=FFT_Z)
        p = pupil(fft_opd(c))
        if c['fitted']:
            p = p.fit_tilt()
        objs = [tilt_obj(lentil, e) for e in c['elems']]
        w = lentil.Wavefront(1.0) if c['wtilt'] is None else lentil.Wavefront(1.0, tilt=[fl(v) for v in c['wtilt']])
        for pl in objs[:c['before']] + [p] + objs[c['before']:]:
            w = w * pl
        shifts = [[float(np.ravel(v)[0]) for v in f.shift(z=FFT_Z, wavelength=1.0, pixelscale=FFT_DU, oversample=FFT_OS)] for f in w.data]
        res = {'shifts': shifts, 'has_meta': any(len(f.tilt) > 0 for f in w.data)}
        ref = lentil.propagate_fft(lentil.Wavefront(1.0) * pupil(np.zeros((4, 4)) if c['fitted'] != 'ramp' else fft_opd(c) * 0),
                                   pixelscale=FFT_DU, oversample=FFT_OS).field
        try:
            out = lentil.propagate_fft(w, pixelscale=FFT_DU, oversample=FFT_OS)
            res['refused'] = False
            res['same_as_untilted'] = bool(out.field.shape == ref.shape and np.allclose(out.field, ref, rtol=0, atol=1e-9 * np.max(np.abs(ref))))
        except NotImplementedError:
            res['refused'] = True
        except Exception as e:
            res['err'] = type(e).__name__
        return res
    if c['op'] == 'fitcall':
        cls = {'plane': lentil.Plane, 'pupil': lentil.Pupil, 'image': lentil.Image}[c['kind']]
        kw = {}
        if c['has_mask']:
            kw['amplitude'] = np.array(c['mask'], dtype=float)
            kw['mask'] = np.array(c['mask'], dtype=float)
        if c['opd'] is not None:
            kw['opd'] = frac_arr(c['opd'])
        if c['ps'] is not None:
            kw['pixelscale'] = (fl(c['ps'][0]), fl(c['ps'][1]))
        try:
            p = cls(**kw)
            q = p.fit_tilt(inplace=c['inplace'])
            return {'returned': plane_state(q), 'receiver': plane_state(p), 'same_obj': q is p}
        except Exception as e:
            return {'err': type(e).__name__}
    if c['op'] == 'dctor':
        try:
            if c.get('scalar'):
                t = lentil.DispersiveTilt(trace=fl(c['trace'][0]) if c['trace'] else 1.0, dispersion=[fl(v) for v in c['dispersion']] or [1.0, 1.0])
            else:
                t = lentil.DispersiveTilt(trace=[fl(v) for v in c['trace']], dispersion=[fl(v) for v in c['dispersion']])
            return {'constructed': True, 'stored': stored(t), 'sizes': [int(np.asarray(t.trace).size), int(np.asarray(t.dispersion).size)]}
        except Exception as e:
            return {'err': type(e).__name__}
    return {'err': 'unknown op'}


def cmp_state(a, b, what):
    if (a['opd'] is None) != (b['opd'] is None):
        return f'{what}: OPD is {"a scalar" if a["opd"] is None else "an array"} in the implementation, {"a scalar" if b["opd"] is None else "an array"} in the model'
    if a['opd'] is not None:
        mo = np.array([[float(v) for v in row] for row in b['opd']])
        if mo.shape != a['opd'].shape or np.max(np.abs(mo - a['opd'])) > TOL * (1 + np.max(np.abs(mo))):
            return f'{what}: OPD differs from the model'
    msg = cmp_tilts(a['tilts'], b['tilts'], TOL)
    return f'{what}: {msg}' if msg else None


def entry_compare(c, impl, model):
    if c['op'] == 'fft':
        if 'err' in impl:
            return f'propagate_fft raised {impl["err"]}'
        if impl['refused'] != model['refused']:
            if model['refused'] and all(abs(v) < 1e-12 for s_ in impl['shifts'] for v in s_):
                return None        # bookkeeping present but of zero displacement: accepting it is not pinned by C04
            return f'propagate_fft {"refused" if impl["refused"] else "accepted"} the wavefront, the model {"refuses" if model["refused"] else "accepts"} it'
        return None
    if c['op'] == 'fitcall':
        if ('err' in impl) != ('err' in model):
            return f'implementation {impl.get("err", "returned a value")}, model {model.get("err", "returned a value")}'
        if 'err' in impl:
            return None if impl['err'] == model['err'] else f'error kinds differ: impl {impl["err"]} model {model["err"]}'
        return cmp_state(impl['returned'], model['returned'], 'plane handed back') or cmp_state(impl['receiver'], model['receiver'], 'receiver after the call')
    if c['op'] == 'dctor':
        if model['kind'] == 'refused':
            return None if impl.get('err') == 'AssertionError' else f'model: AssertionError, implementation: {impl.get("err", "constructed")}'
        if 'err' in impl:
            return f'implementation raised {impl["err"]}, model constructs a {model["kind"]}-order element'
        if model['kind'] == 'first':
            return cmp_tilts([impl['stored']], [model['tilt'][:5]], 0.0)
        return None if max(impl['sizes']) > 2 else 'model: numeric (higher-order) branch, implementation holds first-order polynomials'
    return None


def entry_oracle(c, impl):
    if c['op'] == 'fft':
        if 'err' in impl:
            return f'propagate_fft raised {impl["err"]}'
        moved = any(abs(v) > 0.05 for s_ in impl['shifts'] for v in s_)
        if not impl['refused'] and moved and impl.get('same_as_untilted'):
            return ('propagate_fft accepted a wavefront whose tilt bookkeeping displaces the image by '
                    f'{impl["shifts"]} samples and returned the untilted field: the tilt was silently dropped')
        return None
    if c['op'] == 'fitcall':
        if c['kind'] != 'image' and c['has_mask'] and c['ps'] is None:
            return None if impl.get('err') == 'ValueError' else 'a masked plane without pixelscale cannot record angles: fit_tilt must refuse it (ValueError)'
        if 'err' in impl:
            return f'fit_tilt raised {impl["err"]} on a valid plane'
        m, n = c['m'], c['n']
        orig = None if c['opd'] is None else frac_arr(c['opd'])
        ret, rec = impl['returned'], impl['receiver']
        if (ret['opd'] is None) != (orig is None):
            return 'fit_tilt changed a scalar OPD into an array or vice versa'
        if orig is not None:
            mask = np.array(c['mask'], dtype=float) if c['has_mask'] else np.ones((m, n))
            tot = ret['opd'].copy()
            for t in ret['tilts']:
                if c['ps'] is None:
                    return 'a tilt was recorded without a pixelscale'
                tot = tot + ramp(m, n, t[2], t[1], c['ps'])
            if np.max(np.abs((tot - orig) * mask)) > TOL * (1 + np.max(np.abs(orig))):
                return 'OPD plus recorded tilt changed (piston or tilt lost)'
        elif ret['tilts']:
            return 'a tilt was recorded for a scalar OPD'
        if not c['inplace'] and not impl.get('same_obj'):
            if rec['tilts'] or (orig is not None and not np.array_equal(rec['opd'], orig)):
                return 'fit_tilt(inplace=False) modified the plane it was called on'
        return None
    return None
