"""C06 - Field and extent bookkeeping equals arithmetic on an infinite zero-padded plane."""
import copy
import itertools
from fractions import Fraction

import numpy as np

from .. import common as C
from . import c07 as P7

ID = 'C06'
MODEL = 'c06'
RUNFUN = 'run'
COQ_TARGETS = ['theories/Properties/C06.vo', 'theories/Extract/RunC06.vo']
DESIGN_REF = 'DESIGN.md section 6, C06'
TECHNIQUE = 'Coq proof (ring-generic, lia) of the Field/extent model + exact differential execution of the extracted model against lentil.field / lentil.extent'
LEVEL_TEXT = ('Theorems in coq/theories/Properties/C06.v, for every commutative ring and all shapes/offsets: product = '
              'product of embeddings, merge = sum, reduce = disjoint cover with the same total, insert = out + '
              'w*embedding (all/some/none inside), extent queries = integer sets. The executable model the theorems '
              'are about is extracted and compared for equality with lentil on every run.')
LEVEL_NOTE = ('Trusted: Coq kernel, extraction (ExtrOcamlBasic), the correspondence harness; numpy slicing/broadcasting is '
              'modelled, not verified. Known finding: product of two 0-d fields with unequal offsets is empty.')
TRUSTED = ['Coq 8.16.1 kernel (coqc; coqchk in the thorough tier)',
           'extraction with ExtrOcamlBasic only; ocaml/driver.ml',
           'harness/props/c06.py: case codec, canvas rendering oracle',
           'numpy basic slicing, broadcasting and in-place += are modelled, observed through the tie']
ASSUMPTIONS = ['fields are 0-d or 2-d with positive dimensions; integer offsets',
               'exact regime: Gaussian-integer data, integer/dyadic weights (float arithmetic is exact)']
RULE = ('corpus first, then random and (thorough) exhaustive small-scope cases over ops '
        '{mul, merge, reduce, insert, extent queries, array_extent, boundary, Wavefront.field/intensity}; '
        'histories: the same Field objects used by 2-4 merge/reduce/intensity/insert/mul calls (a field spanning the others '
        'listed first, 0-d fields at the origin, ...), each call compared on the ORIGINAL data + operands unchanged by value; extent histories: array_extent asked about one (shape, shift) 2-4 times relative to the origin and to different parents in every order, then a Field there (extent, product); mul/merge/reduce/boundary configurations carried to offsets beyond 2**53 / 2**60 (exact integers); extent queries with the extents spelled as int8/int16/int32 arrays or scalars near the end of the range of the dtype (every result fits); '
        'every Field built with the offset as list/tuple/ndarray/numpy ints/None and data as complex/real/int/Python values or '
        'as an ndarray subclass (masked with/without flags, np.matrix, metadata subclass, memmap; caller memory unchanged); '
        'cases with all data scaled by 2^-30..2^-43 and the results un-scaled; fields with > 2**20 samples against numpy canvases; '
        'non-trivial = not both operands centred at offset (0,0) with equal shapes; distinct by case hash')


# ------------------------------------------------------------------ helpers
def mk_field(fd, px=None):
    lentil = C.import_lentil()
    if fd['tag'] == 0:
        data = np.array(complex(*fd['data']))
    else:
        data = np.array([[complex(*v) for v in row] for row in fd['data']], dtype=complex)
    # the data argument in the dtypes / forms a caller may use (Field casts to complex)
    dform = fd.get('dform', 'complex')
    if dform != 'complex' and np.all(data.imag == 0):
        if dform == 'real':
            data = data.real.copy()
        elif dform == 'int' and np.all(data.real == np.round(data.real)):
            data = data.real.astype(int)
        elif dform == 'py':
            data = data.real.tolist()        # a Python number / nested list
    elif dform == 'py':
        data = data.tolist()
    if fd.get('sc'):                          # the same data 2^-sc times smaller (exact): every operation is linear
        data = np.asarray(data, dtype=float if np.isrealobj(np.asarray(data)) else complex) * 2.0 ** (-fd['sc'])
    if fd.get('sub') and isinstance(data, np.ndarray) and data.ndim == 2:
        # the same samples as an instance of an ndarray subclass (masked array with or without flags, np.matrix,
        # metadata-carrying subclass, memmap): the Field must behave as for the plain ndarray
        data = P7.subclass_form(data, fd['sub'])
        _KEEP.append(('field data', data, P7.plain(data),
                      None if not isinstance(data, np.ma.MaskedArray) else np.array(np.ma.getmaskarray(data))))
    return lentil.field.Field(data=data, pixelscale=mk_px(px), offset=mk_offset(fd))


_KEEP = []


def mk_px(px):
    """Field.pixelscale as a caller gives it: None, a number, a pair"""
    if px is None:
        return None
    if isinstance(px, list):
        return (float(Fraction(px[0])), float(Fraction(px[1])))
    return float(Fraction(px))


def enc_px(px):
    if px is None:
        return [0]
    if isinstance(px, list):
        return [2] + C.enc_q(float(Fraction(px[0]))) + C.enc_q(float(Fraction(px[1])))
    return [1] + C.enc_q(float(Fraction(px)))


def read_px(rd):
    t = rd.z()
    return None if t == 0 else (float(rd.q()) if t == 1 else [float(rd.q()), float(rd.q())])


def canon_px(p):
    if p is None:
        return None
    if isinstance(p, (tuple, list, np.ndarray)):
        return [float(p[0]), float(p[1])]
    return float(p)


def mk_offset(fd):
    """the offset argument in every documented/used form: list, tuple, ndarray, numpy integers, None for (0, 0)"""
    form = fd.get('form', 'list')
    r, c = int(fd['off'][0]), int(fd['off'][1])
    if form == 'tuple':
        return (r, c)
    if form == 'ndarray':
        return np.array([r, c])
    if form == 'npint':
        return (np.int64(r), np.int64(c))
    if form == 'npint_list':
        return [np.int32(r), np.int32(c)]
    if form == 'none' and (r, c) == (0, 0):
        return None
    return [r, c]


FORMS = ['list', 'list', 'tuple', 'tuple', 'ndarray', 'npint', 'npint_list', 'none']


def enc_field(fd):
    if fd['tag'] == 0:
        out = [0] + C.enc_c(tuple(fd['data']))
    else:
        d = fd['data']
        out = [2, len(d), len(d[0])]
        for row in d:
            for v in row:
                out += C.enc_c(tuple(v))
    return out + list(fd['off']) + [0]


def shape_of(fd):
    return (1, 1) if fd['tag'] == 0 else (len(fd['data']), len(fd['data'][0]))


def extent_of(fd):
    sr, sc = shape_of(fd)
    rmin = -(sr // 2) + fd['off'][0]
    cmin = -(sc // 2) + fd['off'][1]
    return rmin, rmin + sr - 1, cmin, cmin + sc - 1


def size_of(fd):
    s = shape_of(fd)
    return s[0] * s[1]


def embed_pt(fd, r, c):
    rmin, rmax, cmin, cmax = extent_of(fd)
    if rmin <= r <= rmax and cmin <= c <= cmax:
        v = fd['data'] if fd['tag'] == 0 else fd['data'][r - rmin][c - cmin]
        return complex(*v)
    return 0j


def value_of(fd):
    return complex(*(fd['data'] if fd['tag'] == 0 else fd['data'][0][0]))


def canvas_box(fds, margin=1):
    es = [extent_of(f) for f in fds]
    return (min(e[0] for e in es) - margin, max(e[1] for e in es) + margin,
            min(e[2] for e in es) - margin, max(e[3] for e in es) + margin)


def impl_field_canon(f):
    """lentil Field -> canonical dict"""
    d = np.asarray(np.ma.getdata(f.data))
    if d.size == 0:
        return {'kind': 'empty'}
    off = [int(f.offset[0]), int(f.offset[1])]
    if d.ndim == 0:
        return {'kind': 'field', 'tag': 0, 'data': [d.real.item(), d.imag.item()], 'off': off}
    return {'kind': 'field', 'tag': 2, 'data': [[[v.real, v.imag] for v in row] for row in d.tolist()], 'off': off}


def read_field(rd):
    tag = rd.z()
    if tag == 0:
        c = rd.k()[0]
        data = [float(c[0]), float(c[1])]
    else:
        a = rd.arr()
        data = [[[float(v[0][0]), float(v[0][1])] for v in row] for row in a]
    off = [rd.z(), rd.z()]
    nt = rd.z()
    assert nt == 0
    return {'kind': 'field', 'tag': tag, 'data': data, 'off': off}


def canon_render(cf, box):
    """canonical field -> embedding over the box (pt semantics)"""
    if cf['kind'] == 'empty':
        return [[0j] * (box[3] - box[2] + 1) for _ in range(box[1] - box[0] + 1)]
    return [[embed_pt(cf, r, c) for c in range(box[2], box[3] + 1)] for r in range(box[0], box[1] + 1)]


def canvases_equal(a, b, tol=0.0):
    for ra, rb in zip(a, b):
        for x, y in zip(ra, rb):
            if abs(x - y) > tol * (1 + abs(y)):
                return False
    return True


# ------------------------------------------------------------------ generation
def rnd_gauss(rng, lo=-4, hi=4):
    return [rng.randint(lo, hi), rng.randint(lo, hi)]


def rnd_field(rng, maxn=4, offr=5, allow0=True, allow11=True):
    t = rng.random()
    off = [rng.randint(-offr, offr), rng.randint(-offr, offr)]
    if rng.random() < 0.25:
        off = [0, 0]
    form = rng.choice(FORMS)
    dform = rng.choice(['complex', 'complex', 'real', 'int', 'py'])
    if allow0 and t < 0.12:
        d = rnd_gauss(rng)
        if dform != 'complex' and rng.random() < 0.7:
            d[1] = 0
        return {'tag': 0, 'data': d, 'off': off, 'form': form, 'dform': dform}
    if allow11 and t < 0.22:
        n, m = 1, 1
    else:
        n, m = rng.randint(1, maxn), rng.randint(1, maxn)
    data = [[rnd_gauss(rng) for _ in range(m)] for _ in range(n)]
    if dform in ('real', 'int') and rng.random() < 0.7:
        data = [[[v[0], 0] for v in row] for row in data]
    fd = {'tag': 2, 'data': data, 'off': off, 'form': form, 'dform': dform}
    if rng.random() < 0.2:
        fd['sub'] = rng.choice(P7.SUBFORMS)
        if fd['dform'] == 'py':
            fd['dform'] = 'complex'
    return fd


def rnd_hist(rng):
    """the same Field objects used by 2-4 calls: a field that spans the bounding box of the others (listed first in
    half of the cases) plus smaller fields inside it, or 0-d fields at the origin, or arbitrary fields"""
    t = rng.random()
    if t < 0.55:
        n, m = rng.randint(2, 5), rng.randint(2, 5)
        off = [rng.randint(-3, 3), rng.randint(-3, 3)]
        big = {'tag': 2, 'data': [[rnd_gauss(rng) for _ in range(m)] for _ in range(n)], 'off': off, 'form': rng.choice(FORMS)}
        r0, c0 = -(n // 2) + off[0], -(m // 2) + off[1]
        fs = []
        for _ in range(rng.randint(1, 3)):
            a, b = rng.randint(1, n), rng.randint(1, m)
            i0, j0 = rng.randint(0, n - a), rng.randint(0, m - b)
            fs.append({'tag': 2, 'data': [[rnd_gauss(rng) for _ in range(b)] for _ in range(a)],
                       'off': [r0 + i0 + a // 2, c0 + j0 + b // 2], 'form': rng.choice(FORMS)})
        fs.insert(0 if rng.random() < 0.6 else rng.randrange(len(fs) + 1), big)
        if rng.random() < 0.3:
            fs.append(rnd_field(rng, maxn=3, offr=6, allow0=False))
    elif t < 0.7:
        fs = [{'tag': 0, 'data': rnd_gauss(rng), 'off': [0, 0], 'form': rng.choice(FORMS)} for _ in range(rng.randint(2, 3))]
    else:
        fs = [rnd_field(rng, maxn=4, offr=3, allow0=False) for _ in range(rng.randint(2, 4))]
    k = len(fs)
    sized = all(f['tag'] == 2 for f in fs)
    calls = []
    for _ in range(rng.randint(2, 4)):
        u = rng.random()
        idx = list(range(k))
        if rng.random() < 0.3:
            rng.shuffle(idx)
            idx = idx[:rng.randint(1, k)]
        if u < 0.3:
            calls.append({'op': 'merge', 'idx': idx})
        elif u < 0.55:
            calls.append({'op': 'reduce', 'idx': idx})
        elif u < 0.75 and sized:
            calls.append({'op': rng.choice(['wintensity', 'wintensity', 'wfield']), 'idx': idx,
                          'shape': [rng.randint(2, 7), rng.randint(2, 7)]})
        elif u < 0.88 and sized:
            R, Cc = rng.randint(2, 6), rng.randint(2, 6)
            inten = rng.random() < 0.5
            calls.append({'op': 'insert', 'i': rng.randrange(k), 'intensity': inten,
                          'out': [[[rng.randint(-3, 3), 0 if inten else rng.randint(-3, 3)] for _ in range(Cc)] for _ in range(R)],
                          'w': str(rng.choice([1, 2, Fraction(1, 2), -1]))})
        else:
            calls.append({'op': 'mul', 'i': rng.randrange(k), 'j': rng.randrange(k)})
    return {'op': 'hist', 'fs': fs, 'calls': calls}


def rnd_aexth(rng):
    """array_extent asked about ONE (shape, shift) several times in one process, relative to the origin and to different
    parents in every order, then a Field of that shape at that offset: its extent, and its product with itself"""
    shape = [rng.randint(1, 6), rng.randint(1, 6)]
    shift = [rng.randint(-5, 5), rng.randint(-5, 5)]
    parents = [None, [rng.randint(2, 12), rng.randint(2, 12)], [rng.randint(2, 40), rng.randint(2, 40)], None]
    rng.shuffle(parents)
    parents = parents[:rng.randint(2, 4)]
    return {'op': 'aexth', 'shape': shape, 'shift': shift, 'parents': parents,
            'data': [[rnd_gauss(rng) for _ in range(shape[1])] for _ in range(shape[0])]}


def aexth_subs(c):
    f = {'tag': 2, 'data': c['data'], 'off': list(c['shift']), 'form': 'list'}
    return ([{'op': 'aextp', 'shape': c['shape'], 'shift': c['shift'], 'parent': p} for p in c['parents']]
            + [{'op': 'attrs', 'f': f}, {'op': 'mul', 'a': f, 'b': dict(f)}])


def expand(c, call):
    """one call of a history as an ordinary case on the ORIGINAL field data"""
    op = call['op']
    if op in ('merge', 'reduce', 'boundary'):
        return {'op': op, 'fs': [c['fs'][i] for i in call['idx']]}
    if op in ('wfield', 'wintensity'):
        return {'op': op, 'fs': [c['fs'][i] for i in call['idx']], 'shape': call['shape']}
    if op == 'insert':
        return {'op': op, 'f': c['fs'][call['i']], 'out': call['out'], 'intensity': call['intensity'], 'w': call['w']}
    if op == 'mul':
        return {'op': op, 'a': c['fs'][call['i']], 'b': c['fs'][call['j']]}
    raise ValueError(op)


def generate(rng, tier):
    for k in range(3 if tier == 'quick' else 6):
        yield {'op': 'big', 'kind': ['mul', 'views', 'insert'][k % 3], 'seed': rng.randint(0, 10 ** 6),
               'shape': [1030, 1021] if k < 3 else [1153, 911]}
    for _ in range(25 if tier == 'quick' else 300):
        yield rnd_aexth(rng)
    for c in _generate(rng, tier):
        if c['op'] in ('mul', 'merge', 'reduce', 'boundary') and rng.random() < 0.12 and \
                all(f['tag'] == 2 for f in fields_of(c)):
            # the same configuration carried very far from the origin: offsets are exact integers of any size
            dr = rng.choice([-1, 1]) * (2 ** rng.choice([53, 54, 55, 60]) + rng.randint(1, 9))
            dc = rng.choice([-1, 1]) * (2 ** rng.choice([31, 53, 54, 60]) + rng.randint(1, 9))
            c = copy.deepcopy(c)
            for f in fields_of(c):
                f['off'] = [f['off'][0] + dr, f['off'][1] + dc]
                if f.get('form') in ('none', 'npint', 'npint_list', 'ndarray'):
                    f['form'] = 'list'
            c['far'] = True
        if c['op'] in ('mul', 'merge', 'reduce', 'insert', 'wfield', 'wintensity'):
            t = rng.random()
            if t < 0.1 and all(f['tag'] == 2 or c['op'] == 'mul' for f in fields_of(c)):
                scale_case(c, rng.choice([30, 33, 37, 40, 43]))
            if c['op'] == 'insert' and rng.random() < 0.15:
                c['osub'] = rng.choice(['ma', 'meta', 'memmap', 'matrix'])
        yield c


def run_big(c):
    """fields with more than 2**20 samples (sizes not divisible by small block counts): product, merged views and
    insert against whole-array numpy arithmetic on a common canvas"""
    lentil = C.import_lentil()
    Fm = lentil.field
    g = np.random.default_rng(c['seed'])
    n, m = c['shape']

    def data(a, b):
        return (g.integers(-4, 5, (a, b)) + 1j * g.integers(-4, 5, (a, b))).astype(complex)
    A, offA = data(n, m), (3, -2)
    B, offB = data(n - 401, m - 333), (-100, 50)

    def canvas(d, off, R, Cc):
        out = np.zeros((R, Cc), dtype=complex)
        r0 = R // 2 - d.shape[0] // 2 + off[0]
        c0 = Cc // 2 - d.shape[1] // 2 + off[1]
        rs, cs = max(r0, 0), max(c0, 0)
        re, ce = min(r0 + d.shape[0], R), min(c0 + d.shape[1], Cc)
        if re > rs and ce > cs:
            out[rs:re, cs:ce] = d[rs - r0:re - r0, cs - c0:ce - c0]
        return out
    R, Cc = n + 230, m + 170
    try:
        fa, fb = Fm.Field(A.copy(), offset=offA), Fm.Field(B.copy(), offset=offB)
        if c['kind'] == 'mul':
            p = fa * fb
            got = canvas(np.asarray(p.data), tuple(int(x) for x in p.offset), R, Cc)
            want = canvas(A, offA, R, Cc) * canvas(B, offB, R, Cc)
            what = 'product of two large fields'
        elif c['kind'] == 'views':
            w = lentil.Wavefront.empty(wavelength=1e-6, shape=(R, Cc))
            w.data = [fa, fb]
            tot = canvas(A, offA, R, Cc) + canvas(B, offB, R, Cc)
            if not np.array_equal(w.field, tot):
                return {'mismatch': 'Wavefront.field of two large overlapping fields is not the sum of their embeddings'}
            got, want = w.intensity, np.abs(tot) ** 2
            if not np.allclose(got, want, rtol=1e-12, atol=0):
                return {'mismatch': 'Wavefront.intensity of two large overlapping fields is not |sum|^2'}
            return {'mismatch': None}
        else:
            out = g.integers(-3, 4, (R - 7, Cc + 5)).astype(complex)
            want = out + 0.5 * canvas(A, offA, R - 7, Cc + 5)
            got = Fm.insert(fa, out.copy(), weight=0.5)
            what = 'insert of a large field with weight 1/2'
        if not np.array_equal(got, want):
            i = np.argwhere(got != want)[0]
            return {'mismatch': f'{what}: sample {tuple(int(x) for x in i)} is {got[tuple(i)]}, expected {want[tuple(i)]}'}
        if not (np.array_equal(fa.data, A) and np.array_equal(fb.data, B)):
            return {'mismatch': f'{what}: an operand was modified'}
    except Exception as e:
        return {'mismatch': f'large fields ({c["kind"]}): raised {type(e).__name__}: {e}'}
    return {'mismatch': None}


PXS = [None, None, '1', '1/2', ['1', '1'], ['1', '1/2'], '0.001']
FLAGS = {'True': True, 'False': False, 'np.True_': np.True_, 'np.False_': np.False_, '1': 1, '0': 0}


def rnd_api(rng):
    """the public entry points around the kernels: merge(a, b, enforce_overlap), overlap(fields), _merge with
    pixelscales (and the empty collection), array_extent with short shapes / parent_shape, Field attributes"""
    t = rng.random()
    if t < 0.3:
        a, b = rnd_field(rng, offr=3, allow0=rng.random() < 0.2), rnd_field(rng, offr=3, allow0=rng.random() < 0.2)
        pa = rng.choice(PXS)
        pb = pa if rng.random() < 0.7 else rng.choice(PXS)
        return {'op': 'mergepub', 'a': a, 'pa': pa, 'b': b, 'pb': pb, 'enforce': rng.choice(list(FLAGS))}
    if t < 0.55:
        k = rng.choice([0, 1, 2, 2, 3, 3, 4, 5])
        return {'op': 'overlap', 'fs': [rnd_field(rng, maxn=3, offr=4) for _ in range(k)], 'seq': rng.choice(['list', 'tuple'])}
    if t < 0.75:
        k = rng.choice([0, 1, 2, 3])
        p0 = rng.choice(PXS)
        return {'op': 'mergepx', 'fs': [rnd_field(rng, maxn=3, offr=3, allow0=False) for _ in range(k)],
                'px': [p0 if rng.random() < 0.8 else rng.choice(PXS) for _ in range(k)]}
    if t < 0.9:
        k = rng.choice([0, 1, 2, 2, 2, 3])
        return {'op': 'aextp', 'shape': [rng.randint(1, 7) for _ in range(k)], 'shift': [rng.randint(-6, 6), rng.randint(-6, 6)],
                'parent': None if rng.random() < 0.4 else [rng.randint(1, 9), rng.randint(1, 9)]}
    return {'op': 'attrs', 'f': rnd_field(rng, maxn=4, offr=6)}


def _generate(rng, tier):
    for _ in range(200 if tier == 'quick' else 2000):
        yield rnd_api(rng)
    # 0-d x 0-d at equal offsets, the two offsets given in every pair of argument forms
    for fa in ('list', 'tuple', 'ndarray', 'npint', 'none'):
        for fb in ('list', 'tuple', 'ndarray', 'npint_list', 'none'):
            off = [0, 0] if 'none' in (fa, fb) or rng.random() < 0.5 else [rng.randint(-3, 3), rng.randint(-3, 3)]
            yield {'op': 'mul', 'a': {'tag': 0, 'data': rnd_gauss(rng), 'off': off, 'form': fa},
                   'b': {'tag': 0, 'data': rnd_gauss(rng), 'off': list(off), 'form': fb}}
    for _ in range(150 if tier == 'quick' else 1500):
        yield rnd_hist(rng)
    n = 1500 if tier == 'quick' else 12000
    for _ in range(n):
        t = rng.random()
        if t < 0.22:
            a, b = rnd_field(rng), rnd_field(rng)
            if rng.random() < 0.3:
                b['off'] = list(a['off'])
            yield {'op': 'mul', 'a': a, 'b': b}
        elif t < 0.34:
            k = rng.randint(1, 4)
            yield {'op': 'merge', 'fs': [rnd_field(rng, offr=3) for _ in range(k)]}
        elif t < 0.50:
            k = rng.randint(1, 6)
            yield {'op': 'reduce', 'fs': [rnd_field(rng, maxn=3, offr=4) for _ in range(k)]}
        elif t < 0.72:
            f = rnd_field(rng, maxn=5, offr=8, allow0=rng.random() < 0.1)
            R, Cc = rng.randint(1, 6), rng.randint(1, 6)
            if rng.random() < 0.15 and f['tag'] == 2:
                R, Cc = shape_of(f)
                if rng.random() < 0.7:
                    f['off'] = [0, 0]
            out = [[rnd_gauss(rng, -3, 3) for _ in range(Cc)] for _ in range(R)]
            inten = rng.random() < 0.4
            if inten:
                out = [[[v[0], 0] for v in row] for row in out]
            w = rng.choice([1, 1, 2, -1, 3, Fraction(1, 2), Fraction(3, 4)])
            yield {'op': 'insert', 'f': f, 'out': out, 'intensity': inten, 'w': str(w)}
        elif t < 0.84:
            def ext():
                r0, c0 = rng.randint(-5, 5), rng.randint(-5, 5)
                return [r0, r0 + rng.randint(0, 4), c0, c0 + rng.randint(0, 4)]
            c = {'op': 'extq', 'a': ext(), 'b': ext()}
            if rng.random() < 0.45:
                # the extents spelled as small-width numpy integers, placed where every coordinate and every RESULT fits
                # the dtype but sums of two coordinates do not
                dt = rng.choice(['int8', 'int16', 'int32'])
                top = {'int8': 127, 'int16': 32767, 'int32': 2 ** 31 - 1}[dt]
                base = rng.choice([1, -1]) * (top - rng.randint(12, 40 if dt == 'int8' else 400))
                sgn = 1 if base > 0 else -1
                dr, dc = base - sgn * rng.randint(0, 6), base - sgn * rng.randint(0, 6)
                for key in ('a', 'b'):
                    e = c[key]
                    c[key] = [e[0] + dr, e[1] + dr, e[2] + dc, e[3] + dc]
                assert all(abs(v) <= top - 2 for key in ('a', 'b') for v in c[key])
                c['edt'], c['espell'] = dt, rng.choice(['array', 'array', 'scalars', 'list_of_scalars'])
            yield c
        elif t < 0.88:
            c = {'op': 'aext', 'shape': [rng.randint(1, 7), rng.randint(1, 7)],
                 'shift': [rng.randint(-6, 6), rng.randint(-6, 6)]}
            if rng.random() < 0.4:       # shape and shift as small-width numpy integers, the extent still inside the dtype
                dt = rng.choice(['int8', 'int16', 'int32'])
                top = {'int8': 127, 'int16': 32767, 'int32': 2 ** 31 - 1}[dt]
                c['shift'] = [rng.choice([1, -1]) * (top - rng.randint(10, 30)), rng.choice([1, -1]) * (top - rng.randint(10, 30))]
                c['edt'], c['espell'] = dt, rng.choice(['array', 'scalars'])
            yield c
        elif t < 0.92:
            k = rng.randint(1, 4)
            yield {'op': 'boundary', 'fs': [rnd_field(rng, offr=6) for _ in range(k)]}
        else:
            k = rng.randint(1, 4)
            fs = [rnd_field(rng, maxn=4, offr=4, allow0=False) for _ in range(k)]
            yield {'op': rng.choice(['wfield', 'wintensity']), 'fs': fs,
                   'shape': [rng.randint(1, 6), rng.randint(1, 6)]}
    if tier == 'thorough':
        # exhaustive small scope: every placement of small fields into small arrays
        for fr, fc, R, Cc in itertools.product(range(1, 4), range(1, 4), range(1, 5), range(1, 5)):
            for orr in range(-5, 6):
                for oc in range(-5, 6):
                    data = [[[1 + i * fc + j, i - j] for j in range(fc)] for i in range(fr)]
                    out = [[[i + 1, j] for j in range(Cc)] for i in range(R)]
                    yield {'op': 'insert', 'f': {'tag': 2, 'data': data, 'off': [orr, oc]}, 'out': out,
                           'intensity': False, 'w': '1'}
        for ar, ac, br, bc in itertools.product(range(1, 4), repeat=4):
            for orr in range(-4, 5):
                for oc in range(-4, 5):
                    a = {'tag': 2, 'data': [[[1 + i, j] for j in range(ac)] for i in range(ar)], 'off': [1, -1]}
                    b = {'tag': 2, 'data': [[[2 - i, 1 + j] for j in range(bc)] for i in range(br)], 'off': [orr, oc]}
                    yield {'op': 'mul', 'a': a, 'b': b}


def classify(c):
    if c['op'] == 'mergepub':
        return 'mergepub/' + c['enforce']
    if c['op'] == 'big':
        return 'big/' + c['kind']
    if c.get('sc') or c.get('osub') or any(f.get('sub') for f in fields_of(c)):
        return c['op'] + ('/scaled' if c.get('sc') else '') + ('/subclass' if c.get('osub') or any(f.get('sub') for f in fields_of(c)) else '')
    if c.get('far'):
        return c['op'] + '/far'
    if c.get('edt'):
        return c['op'] + '/' + c['edt'] + '-' + c['espell']
    if c['op'] == 'aexth':
        return 'aexth/' + '-'.join('o' if p is None else 'p' for p in c['parents'])
    if c['op'] == 'hist':
        return 'hist/' + '-'.join(x['op'] for x in c['calls'])
    return c['op']


def nontrivial(c):
    op = c['op']
    if op in ('hist', 'big', 'aexth'):
        return True
    if op == 'mul':
        return not (c['a']['off'] == [0, 0] and c['b']['off'] == [0, 0] and shape_of(c['a']) == shape_of(c['b']))
    if op in ('merge', 'reduce', 'boundary', 'wfield', 'wintensity'):
        return len(c['fs']) > 1
    if op == 'insert':
        return c['f']['off'] != [0, 0] or list(shape_of(c['f'])) != [len(c['out']), len(c['out'][0])]
    return True


# ------------------------------------------------------------------ model side
def encode(c):
    op = c['op']
    if op == 'big':
        return None              # beyond the exact model's reach: decided by the numpy oracle
    if op == 'aexth':
        out = [10]
        for sub in aexth_subs(c):
            e = encode(sub)
            out += [len(e)] + e
        return out
    if op == 'hist':
        out = [10]
        for call in c['calls']:
            sub = encode(expand(c, call))
            out += [len(sub)] + sub
        return out
    if op == 'mergepub':
        return ([11] + enc_field(c['a']) + enc_px(c['pa']) + enc_field(c['b']) + enc_px(c['pb'])
                + [1 if FLAGS[c['enforce']] else 0])
    if op == 'overlap':
        return [12, len(c['fs'])] + sum((enc_field(f) for f in c['fs']), [])
    if op == 'mergepx':
        return [13, len(c['fs'])] + sum((enc_field(f) + enc_px(p) for f, p in zip(c['fs'], c['px'])), [])
    if op == 'aextp':
        return ([14, len(c['shape'])] + c['shape'] + c['shift']
                + ([0] if c['parent'] is None else [1] + c['parent']))
    if op == 'attrs':
        return [15] + enc_field(c['f'])
    if op == 'mul':
        return [1] + enc_field(c['a']) + enc_field(c['b'])
    if op == 'merge':
        return [2, len(c['fs'])] + sum((enc_field(f) for f in c['fs']), [])
    if op == 'reduce':
        return [3, len(c['fs'])] + sum((enc_field(f) for f in c['fs']), [])
    if op == 'insert':
        out = c['out']
        e = [4] + enc_field(c['f']) + [len(out), len(out[0])]
        for row in out:
            for v in row:
                e += C.enc_c(tuple(v))
        return e + [1 if c['intensity'] else 0] + C.enc_c((Fraction(c['w']), 0))
    if op == 'extq':
        return [5] + c['a'] + c['b']
    if op == 'aext':
        return [6] + c['shape'] + c['shift']
    if op == 'boundary':
        return [7, len(c['fs'])] + sum((enc_field(f) for f in c['fs']), [])
    if op in ('wfield', 'wintensity'):
        return [8 if op == 'wfield' else 9] + c['shape'] + [len(c['fs'])] + sum((enc_field(f) for f in c['fs']), [])
    raise ValueError(op)


def decode(c, ints):
    if c['op'] == 'aexth':
        assert ints[0] == 0
        pos, res = 1, []
        for sub in aexth_subs(c):
            n = ints[pos]
            res.append(decode(sub, ints[pos + 1:pos + 1 + n]))
            pos += 1 + n
        assert pos == len(ints)
        return {'calls': res}
    if c['op'] == 'hist':
        assert ints[0] == 0
        pos, res = 1, []
        for call in c['calls']:
            n = ints[pos]
            res.append(decode(expand(c, call), ints[pos + 1:pos + 1 + n]))
            pos += 1 + n
        assert pos == len(ints)
        return {'calls': res}
    rd = C.Reader(ints, 1)
    st = rd.z()
    if st == 1:
        return {'err': C.ERRNAMES[rd.z()]}
    op = c['op']
    if op in ('mergepub', 'mergepx'):
        f = read_field(rd)
        return {'field': f, 'px': read_px(rd)}
    if op == 'overlap':
        return {'overlap': bool(rd.z())}
    if op == 'aextp':
        return {'extent': [rd.z() for _ in range(4)]}
    if op == 'attrs':
        return {'shape': rd.opt(lambda: [rd.z(), rd.z()]), 'size': rd.z(), 'extent': [rd.z() for _ in range(4)]}
    if op == 'mul':
        return rd.opt(lambda: read_field(rd)) or {'kind': 'empty'}
    if op == 'merge':
        return read_field(rd)
    if op == 'reduce':
        return {'fields': rd.lst(lambda: read_field(rd))}
    if op in ('insert', 'wfield', 'wintensity'):
        a = rd.arr()
        return {'arr': [[[float(v[0][0]), float(v[0][1])] for v in row] for row in a]}
    if op == 'extq':
        return {'intersect': bool(rd.z()), 'shape': rd.opt(lambda: [rd.z(), rd.z()]),
                'extent': [rd.z() for _ in range(4)], 'slices': [rd.z() for _ in range(8)],
                'shift': [rd.z(), rd.z()], 'center_a': [rd.z(), rd.z()]}
    if op in ('aext', 'boundary'):
        return {'extent': [rd.z() for _ in range(4)]}
    raise ValueError(op)


# ------------------------------------------------------------------ implementation side
def run_hist(c):
    """every call of the history on the SAME Field objects, then the state of the operands"""
    objs = [mk_field(f) for f in c['fs']]
    res = []
    for call in c['calls']:
        sub = dict(call)
        res.append(_run_impl_c06(expand(c, call), lambda fd: objs[[id(x) for x in c["fs"]].index(id(fd))]))
    return {'calls': res, 'operands': [impl_field_canon(o) for o in objs]}


def fields_of(c):
    if c['op'] == 'mul':
        return [c['a'], c['b']]
    if c['op'] == 'insert':
        return [c['f']]
    return c.get('fs', [])


def scale_case(c, e):
    """every field of the case 2^-e times smaller (exact); results are un-scaled before anything is compared"""
    c['sc'] = e
    if c['op'] == 'insert':      # a tiny contribution added to O(1) prior content is lost in float: start from zeros
        c['out'] = [[[0, 0] for _ in row] for row in c['out']]
    for f in fields_of(c):
        f['sc'] = e
        if f.get('dform') in ('int', 'py'):
            f['dform'] = 'real'
    return c


def unscale(c, res):
    e = c.get('sc')
    if not e or not isinstance(res, dict) or 'err' in res:
        return res
    op = c['op']
    p = {'mul': 2, 'merge': 1, 'reduce': 1, 'wfield': 1, 'wintensity': 2, 'insert': 2 if c.get('intensity') else 1}.get(op)
    if p is None:
        return res
    g = 2.0 ** (e * p)

    def fld(d):
        if d.get('kind') != 'field':
            return d
        d = dict(d)
        d['data'] = [d['data'][0] * g, d['data'][1] * g] if d['tag'] == 0 else [[[v[0] * g, v[1] * g] for v in row] for row in d['data']]
        return d
    if op in ('mul', 'merge'):
        return fld(res)
    if op == 'reduce':
        return {'fields': [fld(x) for x in res['fields']]}
    if op in ('wfield', 'wintensity'):
        return {'arr': [[[v[0] * g, v[1] * g] for v in row] for row in res['arr']]}
    out = c['out']                      # insert: only the added part scales
    return {'arr': [[[o[0] + (v[0] - o[0]) * g, (0 if c['intensity'] else o[1]) + (v[1] - (0 if c['intensity'] else o[1])) * g]
                     for v, o in zip(rv, ro)] for rv, ro in zip(res['arr'], out)]}


def run_impl(c, mk=None):
    if c['op'] == 'aexth':
        return {'calls': [run_impl(sub) for sub in aexth_subs(c)]}
    if c['op'] == 'hist':
        return run_hist(c)
    if c['op'] == 'big':
        return run_big(c)
    if mk is None:
        del _KEEP[:]
    res = _run_ops(c, mk)
    if mk is None and isinstance(res, dict):
        m = P7.memory_changed(_KEEP)
        if m:
            res['memory'] = m
    return unscale(c, res)


def _run_ops(c, mk=None):
    lentil = C.import_lentil()
    F = lentil.field
    E = lentil.extent
    op = c['op']
    mk_field = mk or globals()['mk_field']
    try:
        if op == 'mergepub':
            r = F.merge(mk_field(c['a'], c['pa']), mk_field(c['b'], c['pb']), enforce_overlap=FLAGS[c['enforce']])
            return {'field': impl_field_canon(r), 'px': canon_px(r.pixelscale)}
        if op == 'overlap':
            fs = [mk_field(f) for f in c['fs']]
            return {'overlap': bool(F.overlap(tuple(fs) if c['seq'] == 'tuple' else fs))}
        if op == 'mergepx':
            r = F._merge([mk_field(f, p) for f, p in zip(c['fs'], c['px'])])
            return {'field': impl_field_canon(r), 'px': canon_px(r.pixelscale)}
        if op == 'aextp':
            return {'extent': [int(x) for x in E.array_extent(tuple(c['shape']), tuple(c['shift']),
                                                             None if c['parent'] is None else tuple(c['parent']))]}
        if op == 'attrs':
            f = mk_field(c['f'])
            return {'shape': [int(x) for x in f.shape] or None, 'size': int(f.size), 'extent': [int(x) for x in f.extent]}
        if op == 'mul':
            return impl_field_canon(mk_field(c['a']) * mk_field(c['b']))
        if op == 'merge':
            return impl_field_canon(F._merge([mk_field(f) for f in c['fs']]))
        if op == 'reduce':
            return {'fields': [impl_field_canon(f) for f in F.reduce([mk_field(f) for f in c['fs']])]}
        if op == 'insert':
            inten = c['intensity']
            out = np.array([[complex(*v) for v in row] for row in c['out']], dtype=complex)
            if inten:
                out = out.real.copy()
            if c.get('osub'):
                out = P7.subclass_form(out, c['osub'])
            w = float(Fraction(c['w']))
            res = F.insert(mk_field(c['f']), out, intensity=inten, weight=w)
            res = np.asarray(np.ma.getdata(res), dtype=complex)
            return {'arr': [[[v.real, v.imag] for v in row] for row in res.tolist()]}
        if op == 'extq':
            a, b = tuple(c['a']), tuple(c['b'])
            if c.get('edt'):
                dt = getattr(np, c['edt'])
                spell = {'array': lambda e: np.array(e, dtype=dt), 'scalars': lambda e: tuple(dt(v) for v in e),
                         'list_of_scalars': lambda e: [dt(v) for v in e]}[c['espell']]
                a, b = spell(a), spell(b)
            (ar, ac), (br, bc) = E.intersection_slices(a, b)
            sh = E.intersection_shape(a, b)
            return {'intersect': bool(E.intersect(a, b)), 'shape': [int(x) for x in sh] if len(sh) else None,
                    'extent': [int(x) for x in E.intersection_extent(a, b)],
                    'slices': [int(x) for x in (ar.start, ar.stop, ac.start, ac.stop, br.start, br.stop, bc.start, bc.stop)],
                    'shift': [int(x) for x in E.intersection_shift(a, b)],
                    'center_a': [int(x) for x in E.array_center(a)]}
        if op == 'aext':
            sh, sf = tuple(c['shape']), tuple(c['shift'])
            if c.get('edt'):
                dt = getattr(np, c['edt'])
                sh, sf = ((np.array(sh, dtype=dt), np.array(sf, dtype=dt)) if c['espell'] == 'array'
                          else (tuple(dt(v) for v in sh), tuple(dt(v) for v in sf)))
            return {'extent': [int(x) for x in E.array_extent(sh, sf)]}
        if op == 'boundary':
            return {'extent': [int(x) for x in F.boundary([mk_field(f) for f in c['fs']])]}
        if op in ('wfield', 'wintensity'):
            w = lentil.Wavefront.empty(wavelength=1e-6, shape=tuple(c['shape']))
            w.data = [mk_field(f) for f in c['fs']]
            res = np.asarray(w.field if op == 'wfield' else w.intensity, dtype=complex)
            return {'arr': [[[v.real, v.imag] for v in row] for row in res.tolist()]}
    except Exception as e:
        return {'err': type(e).__name__}
    raise ValueError(op)


# ------------------------------------------------------------------ comparison (observe what the property pins)
def compare(c, impl, model):
    op = c['op']
    if op == 'aexth':
        for k, sub in enumerate(aexth_subs(c)):
            m = compare(sub, impl['calls'][k], model['calls'][k])
            if m:
                return f'call {k} ({sub["op"]}) after {k} earlier extent queries about the same shape and shift: {m}'
        return None
    if op == 'hist':
        for k, call in enumerate(c['calls']):
            m = compare(expand(c, call), impl['calls'][k], model['calls'][k])
            if m:
                return f'call {k} ({call["op"]}) on fields already used by {k} earlier call(s): {m}'
        return None
    if ('err' in impl) != ('err' in model):
        return f'implementation {impl if "err" in impl else "returned a value"}, model {model if "err" in model else "returned a value"}'
    if 'err' in impl:
        return None if impl['err'] == model['err'] else f'error kinds differ: impl {impl["err"]} model {model["err"]}'
    if op in ('mergepub', 'mergepx'):
        if impl['px'] != model['px']:
            return f'pixelscale of the result: {impl["px"]}, model {model["px"]}'
        fs = [c['a'], c['b']] if op == 'mergepub' else c['fs']
        box = canvas_box(fs)
        return None if canvases_equal(canon_render(impl['field'], box), canon_render(model['field'], box)) else 'merged embeddings differ'
    if op == 'mul':
        if impl['kind'] != model['kind']:
            return f'impl kind {impl["kind"]} vs model {model["kind"]}'
        if impl['kind'] == 'empty':
            return None
        box = canvas_box([c['a'], c['b']])
        if impl['tag'] != model['tag']:
            return 'dimensionality (0-d / 2-d) of the product differs'
        if impl['tag'] == 0:
            return None if value_of(impl) == value_of(model) else 'constant product differs'
        return None if canvases_equal(canon_render(impl, box), canon_render(model, box)) else 'product embeddings differ'
    if op == 'merge':
        box = canvas_box(c['fs'])
        return None if canvases_equal(canon_render(impl, box), canon_render(model, box)) else 'merged embeddings differ'
    if op == 'reduce':
        box = canvas_box(c['fs'])
        si = sum_canvas(impl['fields'], box)
        sm = sum_canvas(model['fields'], box)
        return None if canvases_equal(si, sm) else 'reduced totals differ'
    if op in ('insert', 'wfield', 'wintensity'):
        a = [[complex(*v) for v in row] for row in impl['arr']]
        b = [[complex(*v) for v in row] for row in model['arr']]
        if len(a) != len(b) or len(a[0]) != len(b[0]):
            return 'shapes differ'
        tol = 1e-12 if (op == 'wintensity' or c.get('intensity')) else 0.0
        return None if canvases_equal(a, b, tol) else f'{op} results differ'
    return None if impl == model else f'{op}: impl {impl} model {model}'


def sum_canvas(cfs, box):
    tot = [[0j] * (box[3] - box[2] + 1) for _ in range(box[1] - box[0] + 1)]
    for cf in cfs:
        cv = canon_render(cf, box)
        for i, row in enumerate(cv):
            for j, v in enumerate(row):
                tot[i][j] += v
    return tot


# ------------------------------------------------------------------ direct property oracle (independent of the model)
def oracle_hist(c, impl):
    for k, call in enumerate(c['calls']):
        sub = expand(c, call)
        m = oracle(sub, impl['calls'][k])
        if m:
            kf = sub['op'] == 'mul' and known_match({'id': 'C06-scalar-scalar-offsets'}, sub, impl['calls'][k])
            ki = sub['op'] == 'insert' and sub['f']['tag'] == 0
            if not kf and not ki:
                return f'call {k} ({call["op"]}) on fields already used by {k} earlier call(s): {m}'
    for i, (fd, got) in enumerate(zip(c['fs'], impl['operands'])):
        if got.get('kind') != 'field' or got['tag'] != fd['tag'] or got['off'] != list(fd['off']):
            return f'operand {i} changed (kind/offset) after the calls'
        want = [float(fd['data'][0]), float(fd['data'][1])] if fd['tag'] == 0 else \
            [[[float(v[0]), float(v[1])] for v in row] for row in fd['data']]
        if got['data'] != want:
            return f'operand {i} was modified by the calls: its data is now {got["data"]}, it was {want}'
    return None


def groups_fixpoint(es):
    """merge any two boxes that meet into their bounding box until none meet (the result does not depend on the order)"""
    es = [list(e) for e in es]
    changed = True
    while changed:
        changed = False
        for i in range(len(es)):
            for j in range(i + 1, len(es)):
                x, y = es[i], es[j]
                if x[0] <= y[1] and x[1] >= y[0] and x[2] <= y[3] and x[3] >= y[2]:
                    es[i] = [min(x[0], y[0]), max(x[1], y[1]), min(x[2], y[2]), max(x[3], y[3])]
                    del es[j]
                    changed = True
                    break
            if changed:
                break
    return es


def oracle_api(c, impl):
    op = c['op']
    if op in ('mergepub', 'mergepx'):
        fs = [c['a'], c['b']] if op == 'mergepub' else c['fs']
        pxs = [c['pa'], c['pb']] if op == 'mergepub' else c['px']
        want_err = None
        if op == 'mergepx' and not fs:
            want_err = 'IndexError'
        elif op == 'mergepub' and FLAGS[c['enforce']]:
            x, y = extent_of(fs[0]), extent_of(fs[1])
            if not (x[0] <= y[1] and x[1] >= y[0] and x[2] <= y[3] and x[3] >= y[2]):
                want_err = 'ValueError'
        if want_err is None and any(canon_px(mk_px(p)) != canon_px(mk_px(pxs[0])) or type(mk_px(p)) != type(mk_px(pxs[0])) for p in pxs):
            want_err = 'ValueError'
        if want_err:
            return None if impl.get('err') == want_err else f'{op}: expected {want_err}, got {impl.get("err", "a result")}'
        if 'err' in impl:
            return f'{op} raised {impl["err"]}'
        if impl['px'] != canon_px(mk_px(pxs[0])):
            return f'{op}: the result has pixelscale {impl["px"]}, the first field has {pxs[0]}'
        box = canvas_box(fs)
        exp = sum_canvas([dict(f, kind='field') for f in fs], box)
        return None if canvases_equal(canon_render(impl['field'], box), exp) else f'{op}: the result is not the sum of the embeddings'
    if op == 'overlap':
        if 'err' in impl:
            return f'overlap raised {impl["err"]}'
        es = [extent_of(f) for f in c['fs']]
        if len(es) == 2:
            x, y = es
            want = x[0] <= y[1] and x[1] >= y[0] and x[2] <= y[3] and x[3] >= y[2]
        else:
            want = len(groups_fixpoint(es)) <= 1
        return None if impl['overlap'] == want else f'overlap is {impl["overlap"]}, the extents say {want}'
    if op == 'aextp':
        if 'err' in impl:
            return f'array_extent raised {impl["err"]}'
        sr, sc = (c['shape'][0], c['shape'][1]) if len(c['shape']) >= 2 else (1, 1)
        pr, pc = (c['parent'][0] // 2, c['parent'][1] // 2) if c['parent'] else (0, 0)
        rmin, cmin = -(sr // 2) + c['shift'][0] + pr, -(sc // 2) + c['shift'][1] + pc
        want = [rmin, rmin + sr - 1, cmin, cmin + sc - 1]
        return None if impl['extent'] == want else f'array_extent gives {impl["extent"]}, expected {want}'
    if op == 'attrs':
        if 'err' in impl:
            return f'Field attributes raised {impl["err"]}'
        f = c['f']
        want = {'shape': None if f['tag'] == 0 else list(shape_of(f)), 'size': size_of(f), 'extent': list(extent_of(f))}
        return None if impl == want else f'Field attributes {impl}, expected {want}'
    return None


def oracle(c, impl):
    op = c['op']
    if op in ('mergepub', 'overlap', 'mergepx', 'aextp', 'attrs'):
        return oracle_api(c, impl)
    if op == 'aexth':
        for k, sub in enumerate(aexth_subs(c)):
            m = oracle(sub, impl['calls'][k])
            if m:
                return (f'call {k} ({sub["op"]}' + (f', parent_shape={sub["parent"]}' if sub['op'] == 'aextp' else '')
                        + f') after {k} earlier extent queries about shape {c["shape"]}, shift {c["shift"]}: {m}')
        return None
    if op == 'hist':
        return oracle_hist(c, impl)
    if op == 'big':
        return impl.get('mismatch')
    if isinstance(impl, dict) and impl.get('memory'):
        return impl['memory'] + ' by ' + op
    if op == 'mul':
        a, b = c['a'], c['b']
        if 'err' in impl:
            return f'product raised {impl["err"]}'
        # only 0-d data is an infinite constant; an array with one element is one sample
        sa, sb = a['tag'] == 0, b['tag'] == 0
        if sa and sb:
            if impl['kind'] == 'empty':
                return 'product of two 0-d fields is empty (should be the constant product)'
            if impl['tag'] != 0 or value_of(impl) != value_of(a) * value_of(b):
                return 'product of two 0-d fields is not the constant product'
            return None
        box = canvas_box([a, b])
        exp = [[(value_of(a) if sa else embed_pt(a, r, cc)) * (value_of(b) if sb else embed_pt(b, r, cc))
                for cc in range(box[2], box[3] + 1)] for r in range(box[0], box[1] + 1)]
        got = canon_render(impl, box)
        return None if canvases_equal(got, exp) else 'product is not the pointwise product of the embeddings'
    if op == 'merge':
        if 'err' in impl:
            return f'merge raised {impl["err"]}'
        box = canvas_box(c['fs'])
        exp = sum_canvas([dict(f, kind='field') for f in c['fs']], box)
        return None if canvases_equal(canon_render(impl, box), exp) else 'merge is not the sum of the embeddings'
    if op == 'reduce':
        if 'err' in impl:
            return f'reduce raised {impl["err"]}'
        box = canvas_box(c['fs'])
        exp = sum_canvas([dict(f, kind='field') for f in c['fs']], box)
        if not canvases_equal(sum_canvas(impl['fields'], box), exp):
            return 'reduce changed the total'
        es = [extent_of(f) for f in impl['fields']]
        for (x, y) in itertools.combinations(es, 2):
            if x[0] <= y[1] and x[1] >= y[0] and x[2] <= y[3] and x[3] >= y[2]:
                return 'reduce returned overlapping fields'
        return None
    if op in ('insert', 'wfield', 'wintensity'):
        if op == 'insert':
            fs, out, inten, w = [c['f']], [[complex(*v) for v in row] for row in c['out']], c['intensity'], float(Fraction(c['w']))
            if c['f']['tag'] == 0:
                return None      # 0-d data: not claimed (recorded as known finding C06-one-element-insert)
        else:
            fs = c['fs']
            out = [[0j] * c['shape'][1] for _ in range(c['shape'][0])]
            inten, w = op == 'wintensity', 1.0
        if 'err' in impl:
            return f'{op} raised {impl["err"]}'
        R, Cc = len(out), len(out[0])
        exp = [[out[i][j] for j in range(Cc)] for i in range(R)]
        for i in range(R):
            for j in range(Cc):
                r, cc = i - R // 2, j - Cc // 2
                if inten and op == 'wintensity':
                    tot = sum(embed_pt(f, r, cc) for f in fs)
                    exp[i][j] += abs(tot) ** 2 * w
                else:
                    for f in fs:
                        v = embed_pt(f, r, cc)
                        exp[i][j] += (abs(v) ** 2 if inten else v) * w
        got = [[complex(*v) for v in row] for row in impl['arr']]
        if len(got) != R or len(got[0]) != Cc:
            return 'result shape differs from the target array'
        return None if canvases_equal(got, exp, 1e-12 if inten else 0.0) else f'{op} is not out + weight*embedding'
    if op == 'extq':
        a, b = c['a'], c['b']
        A = {(r, cc) for r in range(a[0], a[1] + 1) for cc in range(a[2], a[3] + 1)}
        B = {(r, cc) for r in range(b[0], b[1] + 1) for cc in range(b[2], b[3] + 1)}
        I = A & B
        if impl['intersect'] != bool(I):
            return 'intersect disagrees with the coordinate sets'
        if not I:
            return None if impl['shape'] is None else 'intersection_shape of disjoint extents is not ()'
        r0, r1 = min(p[0] for p in I), max(p[0] for p in I)
        c0, c1 = min(p[1] for p in I), max(p[1] for p in I)
        if impl['shape'] != [r1 - r0 + 1, c1 - c0 + 1] or impl['extent'] != [r0, r1, c0, c1]:
            return 'intersection shape/extent disagree with the common coordinate set'
        s = impl['slices']
        sa = {(a[0] + i, a[2] + j) for i in range(s[0], s[1]) for j in range(s[2], s[3])}
        sb = {(b[0] + i, b[2] + j) for i in range(s[4], s[5]) for j in range(s[6], s[7])}
        if sa != I or sb != I:
            return 'intersection_slices do not select the common coordinates'
        if impl['shift'] != [r0 + (r1 - r0 + 1) // 2, c0 + (c1 - c0 + 1) // 2]:
            return 'intersection_shift is not the origin sample of the common box'
        if impl['center_a'] != [a[0] + (a[1] - a[0] + 1) // 2, a[2] + (a[3] - a[2] + 1) // 2]:
            return 'array_center disagrees'
        return None
    if op == 'aext':
        sr, sc = c['shape']
        e = impl['extent']
        if e != [-(sr // 2) + c['shift'][0], -(sr // 2) + c['shift'][0] + sr - 1,
                 -(sc // 2) + c['shift'][1], -(sc // 2) + c['shift'][1] + sc - 1]:
            return 'array_extent is not the box with origin floor(n/2) shifted'
        return None
    if op == 'boundary':
        es = [extent_of(f) for f in c['fs']]
        exp = [min(e[0] for e in es), max(e[1] for e in es), min(e[2] for e in es), max(e[3] for e in es)]
        return None if impl['extent'] == exp else f'boundary {impl["extent"]} is not the bounding box {exp}'
    return None


def known_match(f, c, impl):
    if f['id'] == 'C06-scalar-scalar-offsets':
        return (c['op'] == 'mul' and c['a']['tag'] == 0 and c['b']['tag'] == 0
                and c['a']['off'] != c['b']['off'] and impl.get('kind') == 'empty')
    return False


def replay_known(f):
    if f['id'] == 'C06-one-element-insert':
        lentil = C.import_lentil()
        try:
            lentil.field.insert(lentil.field.Field(2.0, offset=[0, 0]), np.zeros((3, 3), dtype=complex))
        except ValueError:
            return True
        return False
    if f['id'] == 'C06-scalar-scalar-offsets':
        lentil = C.import_lentil()
        r = lentil.field.Field(2.0, offset=[0, 0]) * lentil.field.Field(3.0, offset=[1, 0])
        return r.size == 0
    return False


# ------------------------------------------------------------------ WP-T: translation layer (source -> Gallina)
# An ADDITIONAL tie on top of the correspondence check above: harness/gen_src.py translates the integer
# arithmetic of lentil/extent.py (all of it) and of the index helpers of field.py / helper.py / util.py from the
# CURRENT source text into coq/theories/Gen/ExtentSrc.v; Proofs/ExtentSrcP.v proves every translated term equal to
# the hand-written model for all integers; Properties/C06Src.v states it.  Policy:
#   * a function the translator REFUSES is only reported (coverage.extra.refused) - not a violation;
#   * a function that translates but whose equivalence lemma no longer compiles: the translated term is evaluated
#     against the model's Python mirror on sampled arguments, an exhaustive small box and random points; a FOUND
#     disagreement is a VIOLATION with that witness (replayable: op 'src' runs the real function on it); if none is
#     found the function is reported like a refusal ("equivalence proof did not go through automatically, no
#     disagreement found on N points") - a failed proof script alone is not evidence against the code.
# The build of C06Src is done here (not in COQ_TARGETS) so that it can never break the main C06 targets.
SRC_TARGET = 'theories/Properties/C06Src.vo'
SRC_GEN = 'theories/Gen/ExtentSrc.v'
SRC_PROOFS = 'theories/Proofs/ExtentSrcP.v'


def _src_case(name, w):
    return {'op': 'src', 'function': name, 'args': C.jsonable(w['args']),
            'translated_source_value': C.jsonable(w['source']), 'model_value': C.jsonable(w['model'])}


def _src_lemma_function(lemma, names):
    """the spec name a lemma of Proofs/ExtentSrcP.v is about (longest match of src_<name>)"""
    best = None
    for n in names:
        if lemma and lemma.startswith('src_' + n) and (best is None or len(n) > len(best)):
            best = n
    return best


def extra(tier, rng):
    """(the layer's logic lives in harness/gen_src.py:run_layer, shared with C02/C09/C11/C16/C20; a lemma that no
    longer compiles WITHOUT a found disagreement is reported like a refusal, not as a violation)"""
    from .. import gen_src as G
    return G.run_layer('C06', ID, tier, rng, C)


# replay support for the witnesses of the translation layer: op 'src' runs the REAL function on the witness
# (through the drivers of harness/gen_src.py) and the oracle compares with the model's Python mirror; every
# other op is handled by the functions above, unchanged.
_run_impl_c06, _oracle_c06 = run_impl, oracle


def _detuple(x):
    return tuple(_detuple(v) for v in x) if isinstance(x, (list, tuple)) else x


def _src_args(c):
    from .. import gen_src as G
    args = _detuple(c['args'])
    if c['function'] == 'field_boundary':
        args = (list(args[0]),)
    return G, args


def run_impl(c):
    if c.get('op') != 'src':
        return _run_impl_c06(c)
    G, args = _src_args(c)
    try:
        v = G.DRIVER[c['function']](C.import_lentil(), *args)
    except Exception as e:
        return {'err': type(e).__name__}
    if v is G.SKIP:
        return {'not_reachable': 'these arguments cannot be passed through the running function'}
    return {'value': C.jsonable(v)}


def oracle(c, impl):
    if c.get('op') != 'src':
        return _oracle_c06(c, impl)
    G, args = _src_args(c)
    want = C.jsonable(G.MIRROR[c['function']](*args))
    if 'value' not in impl:
        return (f'{c["function"]}{args}: the running function gives {impl}; the translated source gives '
                f'{c.get("translated_source_value")}, the proved model {want}')
    return None if impl['value'] == want else (f'{c["function"]}{args}: the running code gives {impl["value"]}, '
                                               f'the proved model {want}')
