"""C17 - Resampling a plane changes its sampling, not its optics."""
import math
import warnings
from fractions import Fraction

import numpy as np

from .. import common as C

ID = 'C17'
MODEL = 'c17'
RUNFUN = 'run'
COQ_TARGETS = ['theories/Properties/C17.vo', 'theories/Extract/RunC17.vo']
DESIGN_REF = 'DESIGN.md section 6, C17'
TECHNIQUE = ('Coq proof (exact rationals Qc: ceil/extent bookkeeping, sampling-grid node arithmetic, per-sample '
             'specification of every pinned sample) of a model of Plane.rescale / Plane.resample / util.rescale + '
             'execution of the extracted model against lentil.Plane on generated planes; interpolation accuracy '
             'between nodes is a labelled numeric test, not a theorem')
LEVEL_TEXT = ('Theorems in coq/theories/Properties/C17.v for every plane, every positive rational scale and every sample: '
              'output shape ceil(n s), pixel scale ps/s, extent within one sample, resample = rescale(ps/new) and its two '
              'refusals, identity at s = 1, nodes of the sampling grid for s = k and s = 1/k, value of every pinned sample '
              '(amplitude/s, opd), the complete nearest-neighbour mask (binary, segment count kept, no segment vanishes '
              'silently, disjoint segments stay disjoint). The model is extracted and compared with lentil.Plane on every run '
              '(shapes, pixel scale, every mask sample, all pinned amplitude/opd samples to 1e-9, exceptions).')
LEVEL_NOTE = ('Trusted: Coq kernel, extraction, harness; scipy.ndimage.map_coordinates is an oracle with a stated contract '
              '(interpolating at nodes; order 0 = nearest neighbour, ties up, cval outside [0, n-1]; bilinear post-mask). '
              'Conservation of sum|amplitude|^2 and of the propagated image is NOT proved: numeric tests on smooth planes '
              '(thresholds 1e-3 / 1e-2 as named in the property, measured margin >= 6). "Original untouched" is observed by the '
              'tie (snapshots of arrays, pixel scale, tilt list and Wavefront*plane before the call, after it, and after the '
              'returned plane has been mutated; shares_memory), not proved. Integer/bool arrays behave like their float casts and a '
              'scalar amplitude is divided by the scale (findings C17-integer-mask, C17-scalar-amplitude, fixed in b3500d9, bd5263a).')
TRUSTED = ['Coq 8.16.1 kernel (coqc; coqchk in the thorough tier)',
           'extraction with ExtrOcamlBasic only; ocaml/driver.ml',
           'harness/props/c17.py: case builder, codec, comparator, oracle',
           'scipy.ndimage.map_coordinates contract: order=3 prefilter=True mode=nearest returns the sample at integer nodes '
           'inside the array (observed to 1e-15); order=0 mode=constant returns input[floor(x+1/2)] for 0<=x<=n-1 and 0 outside; '
           'order=1 mode=nearest is bilinear (sample at nodes, 0 when the 4 neighbours are 0, >= 1/4 when the nearest node is 1)',
           'copy.deepcopy (Plane.copy) is observed, not modelled: the original is compared before/after in the tie',
           'lentil.helper.boundary_slice raises IndexError on an empty mask (modelled as such, observed through the tie)',
           'numpy: np.ceil, np.arange, IEEE division (exact regime: the float scale is the rational the model receives and '
           'its products with both sizes are exact)']
ASSUMPTIONS = ['scale > 0; amplitude/opd real, 0-d or 2-d; mask 0-d, 2-d or 3-d with non-empty segments',
               'exact regime of the tie: float scale is a rational whose product with both array sizes is exact in binary64; '
               'mask samples away from nodes are compared only for scales p/2^k (p < 1024, k <= 6) and not at exact ties of the '
               'nearest-neighbour rule (coordinate = k + 1/2), which the property does not pin',
               'accuracy tests: Gaussian x low-order polynomial planes with e-fold radius >= 3.5 samples of the coarser grid '
               'and edge value <= 7e-4 (sizes >= 19/min(s,1), up to 48), monolithic full mask, image window 0.4 of the alias-free field']
RULE = ('corpus (26 edge cases), then a skeleton (every scale of {0.5,0.75,1,1.5,2,3,4} on even, odd and non-square planes, rescale '
        'and resample; 1/k with k dividing / not dividing the sizes; both refusals of resample) and random planes: sizes 16..48, '
        'smooth Gaussian x polynomial or hard-edged amplitude and OPD, scalar/integer variants, masks none/full/disk/segment cube '
        '(2-4)/integer/bool/scalar, random p/2^k and non-dyadic float scales, uniform/non-uniform/missing pixel scale; an equal '
        'number of tiny (2..6 sample) planes for the vm_compute cross-check; dtypes float64/float32/int/bool/uint8, scale and '
        'pixel-scale argument forms float/np.float64/np.float32/0-d array/int and scalar/tuple/list/array; HISTORIES: 2-5 '
        'rescale/resample calls on ONE plane to the same and to different targets with setter updates, in-place edits of opd / '
        'amplitude / mask / tilt list and Plane.copy() in between, every call compared with the model applied to the CURRENT '
        'attributes and with the same call on a fresh equal plane; SEQUENCES of different planes sharing only the scale or the '
        'output shape; after every call the returned plane is mutated and the original re-inspected; '
        'FLOAT REGIME: non-terminating ratios (1/3, 2/3, 10/13, 10/7, ... as decimal pixel scales / scales, and sizes whose IEEE '
        'product n*s lies within 1e-9 of an integer) decided without the model: pixel scale == ps/s to 1e-15 with s the IEEE '
        'quotient, == the requested pixel scale to 1e-12, shape == ceil of the IEEE product, resample(t) bit-identical to '
        'rescale(ps/t) on a fresh equal plane (twin, now for every single call), and the resampled plane multiplies into a '
        'wavefront with a plane already on the requested grid (whenever ps/(ps/t) == t in binary64); '
        'ROUND 6: fit_tilt THEN rescale/resample (the angle a plane gives a wavefront and the propagated image must not move), '
        'single-precision OPD maps in metres and magnitudes over 1e-13..1e9 (linearity), ndarray subclasses as inputs (masked, '
        'matrix, tagged, memmap), scales within 1e-6 of 1, 2, 1/2, 3, and planes with more than 2**20 samples (oracle only); '
        'ROUND 7: every plane kind (Plane, Pupil, Image, explicit ptype=, Tilt carrying arrays, positional constructor '
        'arguments, keyword call spelling) gives the same arrays and keeps its class / ptype / focal length; small-width '
        'integer scale scalars; numpy error state and warnings filters unchanged by the call; in histories every other '
        'result is held untouched and re-inspected at the end; one-lit-sample masks; '
        'non-trivial = array amplitude, scale != 1, no refusal')

TOL = 1e-9
POWER_TOL = 1e-3       # named in the property; measured worst 1.6e-4 on the accuracy-test planes (factor 6)
IMAGE_TOL = 1e-2       # named in the property; measured worst 1.2e-3 (peak-relative), 1.6e-4 (total)
FIXED_SCALES = ['1/2', '3/4', '1', '3/2', '2', '3', '4']


# ------------------------------------------------------------------ case -> arrays
def grid(n, m):
    y, x = np.mgrid[0:n, 0:m].astype(float)
    u = (x - (m - 1) / 2) / (m / 2)
    v = (y - (n - 1) / 2) / (n / 2)
    return u, v


def smooth_fields(n, m, g):
    """Gaussian x low-order polynomial amplitude (positive) and OPD, no hard edge"""
    u, v = grid(n, m)
    w = g['wf']
    gs = np.exp(-(u * u + v * v) / (w * w))
    a1, a2, a3 = g['coef']
    t1, t2, t3 = g['tilt']
    amp = gs * (1 + a1 * u + a2 * v + a3 * u * v)
    opd = 1e-7 * gs * (t1 * u + t2 * v + t3 * (2 * (u * u + v * v) - 1) + 0.2)
    return amp, opd


def amp_of(n, m, g, kind):
    amp, _ = smooth_fields(n, m, g)
    if kind == 'scalar':
        return 1.0
    if kind == 'int':
        return np.ones((n, m), dtype=int)
    if kind == 'aperture':       # smooth amplitude with a hard edge: exact zeros outside the disk
        u, v = grid(n, m)
        return amp * (np.hypot(u, v) <= 0.8).astype(float)
    if kind == 'float32':
        return amp.astype(np.float32)
    return amp


def build(c):
    """arrays of the plane a case describes.  Optional keys (used by the states of a history): g_opd (the OPD has its
    own parameters), mask_from ({g, amp}: the mask Plane() derived from an EARLIER amplitude), mask_cut (rows zeroed in place)"""
    n, m = c['n'], c['m']
    _, opd = smooth_fields(n, m, c.get('g_opd', c['g']))
    u, v = grid(n, m)
    r = np.hypot(u, v)
    disk = (r <= 0.8).astype(float)
    mk = c['mask']
    if mk == 'none':
        mask = None
        if c.get('mask_from'):
            mask = np.array(amp_of(n, m, c['mask_from']['g'], c['mask_from']['amp']))
            mask[mask != 0] = 1
    elif mk == 'full':
        mask = np.ones((n, m))
    elif mk == 'disk':
        mask = disk
    elif mk == 'intdisk':
        mask = disk.astype(int)
    elif mk == 'booldisk':
        mask = disk.astype(bool)
    elif mk == 'u8disk':
        mask = disk.astype(np.uint8)
    elif mk == 'scalar':
        mask = 1.0
    elif mk == 'dot':
        mask = np.zeros((n, m))
        mask[n // 2, m // 2] = 1
    else:   # 'seg<k>': k angular sectors of the disk, separated by gaps
        k = int(mk[3:])
        th = np.arctan2(v, u + 1e-3)
        segs = []
        for q in range(k):
            lo = -math.pi + 2 * math.pi * q / k
            hi = -math.pi + 2 * math.pi * (q + 1) / k
            segs.append(((th >= lo + 0.15) & (th < hi - 0.15) & (r <= 0.85) & (r >= 0.12)).astype(float))
        mask = np.array(segs)
    amp = amp_of(n, m, c['g'], c['amp'])
    if c.get('amp_mul') and np.ndim(amp) == 2 and np.asarray(amp).dtype.kind == 'f':
        amp = (np.asarray(amp, dtype=float) * float(c['amp_mul'])).astype(np.asarray(amp).dtype)
    if c.get('opd_mul'):
        opd = opd * float(c['opd_mul'])
    if c.get('mask_cut'):
        if mask is None:
            mask = np.array(amp)
            mask[mask != 0] = 1
        mask = np.array(mask)
        mask[..., :n // 4, :] = 0
    if c['opd'] == 'scalar':
        opd = 0.0
    elif c['opd'] == 'aperture':
        opd = opd * disk
    elif c['opd'] == 'float32':
        opd = opd.astype(np.float32)
    return amp, opd, mask


# ------------------------------------------------------------------ histories: several calls on ONE plane
CALLS = ('rescale', 'resample')
MULTI = ('history', 'sequence')


def walk(c):
    """states of a history case: yields (k, step, v) with v the single-call case describing the plane's CURRENT attributes
    (after the step for an update, at the call for a call).  The bookkeeping is the harness's own, not the plane's."""
    v = {k: x for k, x in c.items() if k != 'steps'}
    v['tilt'] = list(c.get('tilt', []))
    for k, st in enumerate(c['steps']):
        do = st['do']
        if do in CALLS:
            vv = dict(v)
            vv['op'] = do
            if do == 'rescale':
                vv['scale'] = st['scale']
            else:
                vv['new_ps'] = st['new_ps']
            vv['arg_form'] = st.get('arg_form', 'float')
            yield k, st, vv
            continue
        v = dict(v)
        if do in ('set_opd', 'inplace_opd'):
            v['g_opd'] = st['g']
        elif do in ('set_amp', 'inplace_amp'):
            v.setdefault('g_opd', v['g'])
            if v['mask'] == 'none' and not v.get('mask_from'):
                v['mask_from'] = {'g': v['g'], 'amp': v['amp']}
            v['g'] = st['g']
        elif do == 'inplace_mask':
            v['mask_cut'] = 1
        elif do == 'tilt_append':
            v['tilt'] = v['tilt'] + [[st['x'], st['y']]]
        yield k, st, v


def calls_of(c):
    if c['op'] == 'sequence':       # independent planes, one after the other in one process
        return list(c['cases'])
    if c['op'] != 'history':
        return [c]
    return [v for _, st, v in walk(c) if st['do'] in CALLS]


def the_scale(c):
    """the float the implementation receives / computes, as an exact rational (None if not in the exact regime)"""
    if c['op'] == 'rescale':
        return Fraction(c['scale'])
    if c['ps'] is None:
        return None
    if c.get('inexact'):    # float regime: the scale is the IEEE quotient the implementation itself forms (resample)
        return Fraction(float(Fraction(c['ps'][0])) / float(Fraction(c['new_ps'])))
    return Fraction(c['ps'][0]) / Fraction(c['new_ps'])


def out_size(c, n, s):
    """ceil(n*s); in the float regime (non-terminating ratios) the product is the IEEE product, as np.ceil sees it"""
    return math.ceil(n * float(s)) if c.get('inexact') else math.ceil(n * s)


def float_exact(c):
    """float arithmetic of shape and scale is exact for this case"""
    if c.get('inexact'):
        return False
    s = the_scale(c)
    if s is None or s <= 0:
        return True
    try:
        sf = float(s)
    except OverflowError:
        return False
    if Fraction(sf) != s:
        return False
    return all(Fraction(k * sf) == k * s for k in (c['n'], c['m']))


def dyadic_small(s):
    d = s.denominator
    return d & (d - 1) == 0 and d <= 64 and s.numerator < 1024


# ------------------------------------------------------------------ generator
def rnd_g(rng, wf=None):
    return {'wf': wf if wf is not None else round(rng.uniform(0.3, 0.6), 3),
            'coef': [round(rng.uniform(-0.3, 0.3), 3) for _ in range(3)],
            'tilt': [round(rng.uniform(-1, 1), 3) for _ in range(3)]}


def rnd_scale(rng):
    t = rng.random()
    if t < 0.55:
        return rng.choice(FIXED_SCALES)
    if t < 0.9:
        k = rng.choice([2, 4, 8, 16])
        return str(Fraction(rng.randint(k // 2, 4 * k), k))
    return str(Fraction(rng.choice([1 / 3, 2 / 3, 1.2, 1.7, 3.3, 0.6, 2.1])))


def rnd_size(rng, big):
    t = rng.random()
    hi = 48 if big else 30
    if t < 0.3:
        n = rng.randint(16, hi)
        return n, n
    if t < 0.45:
        n = rng.choice([16, 32]) if big else 16
        return n, rng.choice([16, 32]) if big else 16
    return rng.randint(16, hi), rng.randint(16, hi)


def finish_case(rng, c, s):
    """fill in the scale / pixel-scale fields of a case for the scale s (Fraction); None if not in the exact regime"""
    if c['op'] == 'rescale':
        c['scale'] = str(s)
        u = rng.random()
        if u < 0.15:
            c['ps'] = None
        elif u < 0.8:
            p = Fraction(rng.randint(1, 40), rng.choice([64, 128, 1000, 3]))
            c['ps'] = [str(Fraction(float(p)))] * 2
        else:       # non-uniform sampling is fine for rescale
            c['ps'] = [str(Fraction(float(Fraction(rng.randint(1, 40), 256)))),
                       str(Fraction(float(Fraction(rng.randint(1, 40), 100))))]
    else:
        # ps = p*a/2^k, new = q*a/2^k  =>  ps/new = p/q exactly
        a = rng.randint(1, 9)
        k = rng.choice([256, 1024, 4096])
        c['ps'] = [str(Fraction(s.numerator * a, k))] * 2
        c['new_ps'] = str(Fraction(s.denominator * a, k))
        if rng.random() < 0.25:      # decimal pixel scales whose ratio happens to be exact
            new = rng.choice([0.001, 0.0025, 0.005, 0.01, 0.02])
            c['ps'] = [str(Fraction(new * float(s)))] * 2
            c['new_ps'] = str(Fraction(new))
    if not float_exact(c) or not constructible(c):
        return None
    # legal argument forms: python float, numpy scalars, 0-d array, int; pixelscale scalar / tuple / list / array
    forms = ['float', 'float', 'np64', 'array0d']
    if dyadic_small(s):
        forms.append('np32')
    if c['op'] == 'rescale' and s.denominator == 1:
        forms += ['int', 'u8', 'i8', 'u16']
    c['arg_form'] = rng.choice(forms)
    if c['ps'] is not None:
        c['ps_form'] = rng.choice(['tuple', 'tuple', 'list', 'array'] + (['scalar', 'scalar'] if c['ps'][0] == c['ps'][1] else []))
    s_eff = the_scale(c)
    if s_eff != s or s_eff < Fraction(1, 4) or s_eff > 4:
        return None
    return c


def constructible(c):
    """lentil.Plane refuses a mask (segment) without a non-zero sample"""
    amp, _, mask = build(c)
    mask = np.asarray(amp if mask is None else mask)
    if mask.ndim < 2:
        return True
    return all(np.any(a != 0) for a in (mask if mask.ndim == 3 else mask[None]))


def rnd_plane(rng, n, m, special=True):
    c = {'n': n, 'm': m, 'g': rnd_g(rng),
         'amp': rng.choice(['smooth'] * 5 + ['aperture', 'aperture']),
         'opd': rng.choice(['smooth'] * 4 + ['aperture', 'scalar']),
         'mask': rng.choice(['none', 'none', 'full', 'disk', 'disk', 'seg2', 'seg3', 'seg4', 'seg3'])}
    if special:
        t = rng.random()
        if t < 0.05:
            c['mask'] = rng.choice(['intdisk', 'booldisk', 'u8disk'])
        elif t < 0.08:
            c['amp'] = 'int'
        elif t < 0.11:
            c['amp'] = 'float32'
            c['opd'] = rng.choice(['float32', 'smooth'])
        elif t < 0.125:
            c['mask'] = 'seg1'
        elif t < 0.175:
            c['amp'] = 'scalar'
            if c['mask'] == 'none':
                c['mask'] = 'disk'
        elif t < 0.2:
            c['mask'] = 'scalar'
            c['amp'] = rng.choice(['scalar', 'smooth'])
        elif t < 0.27:      # magnitudes over many decades: every operation is linear in amplitude and in opd
            c['amp_mul'] = rng.choice([1e-13, 1e-9, 1e-6, 1e3, 1e9])
            c['opd_mul'] = rng.choice([1e-4, 1e-2, 1, 1e2, 1e6])
        elif t < 0.32:      # ndarray subclasses are legal array_like inputs: same result as the plain ndarray
            c['wrap'] = rng.choice(['masked', 'masked_some', 'matrix', 'tagged', 'memmap'])
        elif t < 0.35:      # one lit sample
            c['mask'] = 'dot'
    # every plane kind goes through the same rescale: identical arrays, kind carried over
    if rng.random() < 0.45:
        c['kind'] = rng.choice(['pupil', 'image', 'image', 'ptype_image', 'ptype_pupil', 'ptype_tilt', 'ptype_transform',
                                'tilt_arrays', 'positional'])
    if rng.random() < 0.2:
        c['call_kw'] = True
    return c


UPDATES = ('inplace_opd', 'inplace_amp', 'inplace_mask', 'tilt_append', 'set_opd', 'set_amp', 'copy')


def rnd_history(rng, quick):
    """2-5 rescale/resample calls on ONE plane, to the same and to different targets, with updates through the property
    setters and in-place edits (opd, amplitude, mask, tilt list, Plane.copy()) in between"""
    hi = 22 if quick else 32
    n, m = rng.randint(16, hi), rng.randint(16, hi)
    if rng.random() < 0.3:
        m = n
    c = {'op': 'history', 'n': n, 'm': m, 'g': rnd_g(rng), 'amp': rng.choice(['smooth', 'smooth', 'aperture']),
         'opd': 'smooth', 'mask': rng.choice(['none', 'none', 'full', 'disk', 'seg2', 'seg3'])}
    a, k = rng.randint(1, 9), rng.choice([256, 1024])
    scales = [Fraction(x) for x in rng.sample(['1/2', '3/4', '1', '3/2', '2', '5/4', '3'], 2)]
    lcm = scales[0].numerator * scales[1].numerator
    c['ps'] = [str(Fraction(lcm * a, k))] * 2
    c['ps_form'] = rng.choice(['tuple', 'scalar', 'list'])

    def call(i, kind=None):
        sc = scales[i]
        kind = kind or ('resample' if rng.random() < 0.75 else 'rescale')
        if kind == 'resample':
            return {'do': 'resample', 'new_ps': str(Fraction(c['ps'][0]) / sc), 'arg_form': rng.choice(['float', 'float', 'np64', 'array0d'])}
        return {'do': 'rescale', 'scale': str(sc)}

    def update():
        do = rng.choice(UPDATES)
        if do == 'tilt_append':
            return [{'do': do, 'x': round(rng.uniform(-2e-6, 2e-6), 9), 'y': round(rng.uniform(-2e-6, 2e-6), 9)}]
        if do == 'copy':        # continue on a copy of the (already resampled) plane, then edit the copy
            return [{'do': 'copy'}] + [u for u in update() if u['do'] != 'copy']
        if do == 'inplace_mask':
            return [{'do': do}]
        return [{'do': do, 'g': rnd_g(rng)}]

    first = call(0)
    t = rng.random()
    if t < 0.5:         # same target again after an update
        steps = [first] + update() + [dict(first)]
    elif t < 0.9:       # two targets, update, both again
        second = call(1)
        steps = [first, second] + update() + [dict(first)] + (update() if rng.random() < 0.5 else []) + [dict(second), dict(first)]
    else:               # no update at all: repeated calls must repeat
        steps = [first, call(1), dict(first)]
    c['steps'] = steps
    for v in calls_of(c):
        if not float_exact(v) or not constructible(v):
            return None
    return c


SEQ_SCALES = ['1/2', '3/4', '1', '3/2', '2', '3', '5/4', '1/4', '4']


def rnd_sequence(rng, quick):
    """3-5 DIFFERENT planes rescaled one after the other in one process with ONE thing in common (same output shape from
    different sizes and scales, or same scale and output shape from different input sizes): a module-level or class-level
    cache keyed on too little (scale only, output shape only) returns the grid / result of an earlier plane"""
    def sizes_for(N):
        return [(n, Fraction(sc)) for sc in SEQ_SCALES for n in range(4, 49) if math.ceil(n * Fraction(sc)) == N]
    N, M = rng.choice([8, 12, 18, 24]), rng.choice([8, 12, 18, 24])
    what = rng.choice(['same-output-shape', 'same-scale-and-output-shape'])
    if what == 'same-scale-and-output-shape':
        sc = Fraction(rng.choice(['1/2', '3/4', '1/4']))
        rows = [(n, sc) for n, q in sizes_for(N) if q == sc]
        cols = [(m, sc) for m, q in sizes_for(M) if q == sc]
        if not rows or not cols:
            return None
        picks = [(rng.choice(rows)[0], rng.choice(cols)[0], sc) for _ in range(rng.randint(3, 4))]
    else:
        rows = sizes_for(N)
        picks = []
        for _ in range(rng.randint(3, 4)):
            n, sc = rng.choice(rows)
            ms = [m for m, q in sizes_for(M) if q == sc]
            if ms:
                picks.append((n, rng.choice(ms), sc))
    if len(picks) < 3:
        return None
    picks.append(picks[0])
    cases = []
    for n, m, sc in picks:
        c = rnd_plane(rng, n, m, special=False)
        c['op'] = 'rescale' if rng.random() < 0.6 else 'resample'
        c = finish_case(rng, c, sc)
        if c is None:
            return None
        cases.append(c)
    cases[-1] = dict(cases[0])
    return {'op': 'sequence', 'what': what, 'cases': cases}


def generate(rng, tier):
    quick = tier == 'quick'
    budget = 12000 if quick else 10 ** 9          # output samples per array
    out = []

    def add(c, s):
        c = finish_case(rng, c, Fraction(s))
        if c is not None and c['n'] * c['m'] * Fraction(s) ** 2 <= budget:
            out.append(c)
            return True
        return False

    # skeleton: every named scale on an even, an odd and a non-square plane, rescale and resample
    for s in FIXED_SCALES:
        for (n, m) in ((16, 16), (17, 17), (20, 27)) if quick else ((16, 16), (17, 17), (20, 27), (33, 24), (48, 48), (47, 31)):
            for op in ('rescale', 'resample'):
                if quick and op == 'resample' and (n, m) != (20, 27):
                    continue
                c = rnd_plane(rng, n, m, special=False)
                c['op'] = op
                for _ in range(20):
                    if add(dict(c), s):
                        break
    # unit fractions whose denominator divides both sizes (every output sample is a node) and those where it does not
    for k, n, m in ((2, 16, 24), (2, 18, 17), (3, 18, 24), (3, 16, 20), (4, 32, 16), (4, 18, 22)):
        c = rnd_plane(rng, n, m, special=False)
        c['op'] = 'rescale'
        add(c, Fraction(1, k))
    # refusals of resample
    for ps in (None, ['1/64', '1/32']):
        c = rnd_plane(rng, 16, 19, special=False)
        c.update({'op': 'resample', 'ps': ps, 'new_ps': '1/128'})
        out.append(c)
    # random fill
    n_cases = 80 if quick else 600
    tries = 0
    while len(out) < n_cases and tries < 100 * n_cases:
        tries += 1
        big = not quick or rng.random() < 0.15
        n, m = rnd_size(rng, big)
        c = rnd_plane(rng, n, m)
        c['op'] = 'rescale' if rng.random() < 0.7 else 'resample'
        add(c, rnd_scale(rng))
    # histories: state carried between calls (caches keyed on too little, stale copies)
    n_hist = 24 if quick else 160
    tries = 0
    while n_hist and tries < 2000:
        tries += 1
        c = rnd_history(rng, quick)
        if c is not None:
            out.append(c)
            n_hist -= 1
    n_seq = 10 if quick else 80
    tries = 0
    while n_seq and tries < 2000:
        tries += 1
        c = rnd_sequence(rng, quick)
        if c is not None:
            out.append(c)
            n_seq -= 1
    # legal argument forms on scales that are NOT exactly representable in float32 (a silent down-cast changes them)
    for sc in (1 / 3, 1.7, 0.6, 2.1):
        for form in ('np64', 'array0d', 'float'):
            c = rnd_plane(rng, rng.choice([16, 32]), rng.choice([16, 32]), special=False)
            c['op'] = 'rescale'
            c = finish_case(rng, c, Fraction(sc))
            if c is not None and c['n'] * c['m'] * sc * sc <= budget:
                c['arg_form'] = form
                if c['ps'] is None:
                    c['ps'] = ['1/64', '1/64']
                    c['ps_form'] = 'scalar'
                out.append(c)
    # float regime: non-terminating ratios (1/3, 2/3, 10/13, 10/7, ...) given as decimal pixel scales / scales; the scale the
    # implementation works with is the IEEE quotient, shapes follow the IEEE product; no model, oracle + twin + interoperability
    pairs = [(1e-3, 3e-3), (2e-3, 3e-3), (1e-3, 1.3e-3), (1e-3, 7e-4), (5e-3, 1.5e-2), (3e-3, 7e-3), (1.5e-3, 1.1e-3),
             (2.5e-3, 9e-4), (7e-3, 3e-3), (1e-3, 6e-4)]
    n_inexact = 12 if quick else 80
    for k in range(n_inexact):
        hi = 30 if quick else 48
        c = rnd_plane(rng, rng.randint(16, hi), rng.randint(16, hi), special=False)
        if k % 4 == 3:
            c['op'] = 'rescale'
            c['scale'] = str(Fraction(rng.choice([1 / 3, 2 / 3, 0.7, 1.3, 10 / 13, 2.7, 10 / 7, 0.3 + 0.1 * rng.randint(1, 30)])))
            c['ps'] = [str(Fraction(rng.choice([1e-3, 2e-3, 0.015625])))] * 2
        else:
            c['op'] = 'resample'
            if k < len(pairs):
                a, b = pairs[k]
            else:
                a = rng.randint(3, 60) * 1e-4
                b = rng.randint(3, 60) * 1e-4
                if not 0.3 <= a / b <= 3.5:
                    continue
            c['ps'] = [str(Fraction(a))] * 2
            c['new_ps'] = str(Fraction(b))
        c['inexact'] = True
        c['arg_form'] = rng.choice(['float', 'float', 'np64', 'array0d'])
        c['ps_form'] = rng.choice(['tuple', 'scalar', 'list', 'array'])
        if constructible(c):
            out.append(c)
    # lentil.rescale called directly: shape None / scalar / pair (tuple, list, array), explicit masks, unitary, both configurations
    n_util = 40 if quick else 300
    tries = 0
    while n_util and tries < 5000:
        tries += 1
        n, m = rng.randint(4, 14), rng.randint(4, 14)
        sc = Fraction(rng.choice(['1/2', '1/2', '3/4', '1', '1', '3/2', '2', '3', '1/4', '5/4']))
        c = {'op': 'util', 'n': n, 'm': m, 'g': rnd_g(rng), 'img': rng.choice(['amp', 'amp', 'opd', 'aperture', 'disk', 'int', 'signed']),
             'order': rng.choice([3, 3, 0]), 'scale': str(sc),
             'shape': rng.choice([None, None, None, rng.randint(3, 16), [rng.randint(3, 16), rng.randint(3, 16)]]),
             'shape_form': rng.choice(['tuple', 'list', 'array']),
             'umask': rng.choice([None, None, None, 'ones', 'disk', 'smooth', 'small', 'f32', 'bigger', 'intones', 'bool']),
             'unitary': rng.random() < 0.35}
        if c['unitary'] and rng.random() < 0.7:      # make every output sample a node so that the factor is pinned
            k = rng.choice([1, 2, 2, 4])
            c.update({'scale': str(Fraction(1, k)), 'n': k * rng.randint(2, 6), 'm': k * rng.randint(2, 6), 'shape': None})
            sc = Fraction(1, k)
        bn, bm = util_base(c)
        if all(Fraction(x * float(sc)) == x * sc for x in (bn, bm, c['n'], c['m'])):
            out.append(c)
            n_util -= 1
    # fit_tilt, THEN rescale/resample: the fitted tilt (an angle) is optics and must survive unchanged
    for k in range(10 if quick else 60):
        sc = rng.choice(['1/2', '3/4', '1', '5/4', '3/2', '2', '3', '5/2'])
        lo = math.ceil(19 / min(float(Fraction(sc)), 1.0))
        n = rng.randint(lo, 40 if quick else 48)
        c = {'op': 'tiltchain', 'n': n, 'm': n if rng.random() < 0.4 else rng.randint(lo, 40 if quick else 48),
             'g': rnd_g(rng, wf=round(1 / 2.7, 4)), 'scale': sc, 'via': rng.choice(['rescale', 'rescale', 'resample']),
             'inplace': rng.random() < 0.5, 'mask': rng.choice(['none', 'none', 'seg2', 'seg3']),
             'tiltA': round(rng.choice([-1, 1]) * rng.uniform(4e-7, 1.5e-6), 9), 'tiltB': round(rng.uniform(-1.5e-6, 1.5e-6), 9)}
        out.append(c)
    # single-precision OPD maps in metres (values far below the float32 machine epsilon 1.2e-7) and magnitudes over decades
    for k, (om, am) in enumerate([(1, None), (1e-1, None), (1e-2, 1e-9), (1e-3, 1e-13), (1, 1e-11), (10, 1e6)]):
        c = rnd_plane(rng, rng.randint(16, 24), rng.randint(16, 24), special=False)
        c.update({'op': 'rescale', 'amp': 'float32' if k % 2 == 0 else 'smooth', 'opd': 'float32' if k < 4 else 'smooth',
                  'opd_mul': om})
        if am:
            c['amp_mul'] = am
        add(c, rng.choice(['1', '1/2', '3/2', '2']))
    # near-ties: scales within 1e-6 relative of a special value but not equal to it (float regime)
    for sc in (1 + 1e-7, 1 - 1e-7, 2 + 1e-9, 0.5 - 1e-8, 0.5 + 1e-8, 3 - 1e-7, 1.5 + 1e-6, 0.75 - 1e-6)[:4 if quick else 8]:
        c = rnd_plane(rng, rng.randint(16, 28), rng.randint(16, 28), special=False)
        c.update({'op': 'rescale', 'scale': str(Fraction(sc)), 'ps': ['1/64', '1/64'], 'inexact': True,
                  'arg_form': 'float', 'ps_form': 'scalar'})
        if constructible(c):
            out.append(c)
    # large planes (more than 2**20 samples, sizes not divisible by small block counts): oracle only
    for n, m, sc in ([(1031, 1019, '1/2')] if quick else [(1031, 1019, '1/2'), (1100, 1027, '1'), (700, 523, '3/2')]):
        c = {'n': n, 'm': m, 'g': rnd_g(rng), 'amp': 'smooth', 'opd': 'smooth', 'mask': 'disk', 'op': 'rescale',
             'scale': sc, 'ps': ['1/1024', '1/1024'], 'nomodel': True, 'arg_form': 'float', 'ps_form': 'scalar'}
        out.append(c)
    # float noise next to an integer: sizes for which the IEEE product n*s is within 1e-9 of an integer without being one
    # (0.005/0.015 = 0.33333333333333337, 48*s = 16.000000000000004 -> 17 samples): ceil() must see the product as it is
    noisy = []
    for a, b in pairs + [(None, x) for x in (1 / 3 + 1e-16, 2 / 3, 0.7, 1.3, 10 / 13, 1.1, 2.2, 0.6)]:
        sf = b if a is None else a / b
        for n in range(16, 49):
            pr = n * sf
            if pr != round(pr) and abs(pr - round(pr)) < 1e-9:
                noisy.append((a, b, n))
    rng.shuffle(noisy)
    for a, b, n in noisy[:6 if quick else 40]:
        c = rnd_plane(rng, n, rng.choice([n, n, rng.randint(16, 30)]), special=False)
        if a is None:
            c.update({'op': 'rescale', 'scale': str(Fraction(b)), 'ps': ['1/64', '1/64']})
        else:
            c.update({'op': 'resample', 'ps': [str(Fraction(a))] * 2, 'new_ps': str(Fraction(b))})
        c['inexact'] = True
        c['arg_form'] = 'float'
        c['ps_form'] = 'scalar'
        if constructible(c):
            out.append(c)
    # tiny planes (2..6 samples), randomly interleaved: they exercise the same code paths and are small enough for the
    # runner's vm_compute cross-check of the extracted binary
    tiny = []
    while len(tiny) < len(out):
        c = rnd_plane(rng, rng.randint(2, 6), rng.randint(2, 6))
        c['op'] = 'rescale' if rng.random() < 0.7 else 'resample'
        st = Fraction(rnd_scale(rng))
        c = finish_case(rng, c, st) if dyadic_small(st) else None
        if c is not None:
            tiny.append(c)
    mixed = []
    while out or tiny:
        src = out if (out and (not tiny or rng.random() < 0.5)) else tiny
        mixed.append(src.pop(0))
    for c in mixed:
        yield c


def classify(c):
    if c['op'] == 'util':
        return (f"util/order{c['order']}/shape={'none' if c['shape'] is None else ('scalar' if isinstance(c['shape'], int) else 'pair')}"
                f"/mask={c['umask']}{'/unitary' if c['unitary'] else ''}")
    if c['op'] == 'tiltchain':
        return f"tiltchain/{c['via']}/{'segmented' if c['mask'].startswith('seg') else 'monolithic'}"
    if c['op'] == 'sequence':
        return 'sequence/' + c.get('what', '')
    if c['op'] == 'history':
        ups = sorted({st['do'] for st in c['steps'] if st['do'] not in CALLS})
        return 'history/' + '+'.join(ups)
    s = the_scale(c)
    if c.get('inexact'):
        return f"{c['op']}/float-regime (non-terminating ratio)"
    if s is None:
        sc = 'no-ps'
    elif s == 1:
        sc = 's=1'
    elif s.denominator == 1:
        sc = 's=int'
    elif s.numerator == 1:
        sc = 's=1/k'
    elif dyadic_small(s):
        sc = 's<1 dyadic' if s < 1 else 's>1 dyadic'
    else:
        sc = 's non-dyadic'
    mk = c['mask'] if not c['mask'].startswith('seg') else 'segments'
    return f"{c['op']}/{sc}/{mk}"


def expect_refusal(c):
    """refusals the property itself demands (resample) or that lie outside its quantifier (scalar mask)"""
    if c['op'] == 'resample':
        if c['ps'] is None:
            return 'ValueError'
        if c['ps'][0] != c['ps'][1]:
            return 'NotImplementedError'
    return None


def scalar_mask(c):
    return c['mask'] == 'scalar' or (c['mask'] == 'none' and c['amp'] == 'scalar')


def nontrivial(c):
    if c['op'] == 'util':
        return Fraction(c['scale']) != 1 or c['shape'] is not None or c['umask'] is not None or c['unitary']
    if c['op'] == 'tiltchain':
        return Fraction(c['scale']) != 1
    if c['op'] == 'sequence':
        return len(c['cases']) >= 2
    if c['op'] == 'history':
        return len(calls_of(c)) >= 2 and any(st['do'] not in CALLS for st in c['steps'])
    s = the_scale(c)
    return (expect_refusal(c) is None and s is not None and s != 1 and c['amp'] in ('smooth', 'aperture')
            and not scalar_mask(c))


# ------------------------------------------------------------------ model side
def enc_arr(a):
    a = np.asarray(a)
    isint = 0 if a.dtype.kind == 'f' else 1
    out = [isint, a.shape[0], a.shape[1]]
    for v in a.ravel().tolist():
        out += C.enc_q(float(v) if not isint else int(v))
    return out


def enc_fld(x):
    x = np.asarray(x)
    if x.ndim == 0:
        return [0] + C.enc_q(float(x))
    return [1] + enc_arr(x)


def encode(c):
    if c['op'] == 'util':
        return encode_util(c)
    if c['op'] == 'tiltchain' or c.get('nomodel'):
        return None     # decided by the oracle (fit_tilt is not modelled here / plane too large for exact rationals)
    if c['op'] in MULTI:
        vs = calls_of(c)
        out = [3, len(vs)]
        for v in vs:
            e = encode(v)
            if e is None:
                return None
            out += e
        return out
    if c.get('inexact'):
        return None     # float regime (non-terminating ratio): decided by the oracle and the rescale(ps/t) twin only
    q = Fraction(c['scale']) if c['op'] == 'rescale' else Fraction(c['new_ps'])
    if q <= 0:
        return None
    amp, opd, mask = build(c)
    out = [1 if c['op'] == 'rescale' else 2] + C.enc_q(q) + enc_fld(amp) + enc_fld(opd)
    if mask is None:                      # Plane(): mask = copy of the amplitude (same dtype), binarised
        mask = np.asarray(amp).copy()
        mask[mask != 0] = 1
    mask = np.asarray(mask)
    if mask.ndim == 0:
        out += [0] + C.enc_q(float(mask))
    elif mask.ndim == 2:
        out += [1] + enc_arr(mask)
    else:
        out += [2, mask.shape[0]]
        for mm in mask:
            out += enc_arr(mm)
    if c['ps'] is None:
        out += [0]
    else:
        out += [1] + C.enc_q(Fraction(c['ps'][0])) + C.enc_q(Fraction(c['ps'][1]))
    tl = want_tilt(c)
    out += [len(tl)]
    for x, y in tl:
        out += C.enc_q(x) + C.enc_q(y)
    return out


def want_tilt(c):
    """(x, y) attribute values of the Tilt objects the case puts on the plane"""
    lentil = C.import_lentil()
    return [[float(t.x), float(t.y)] for t in (lentil.Tilt(x=x, y=y) for x, y in c.get('tilt', []))]


UNKNOWN = None


def decode(c, ints):
    if c['op'] == 'util':
        if ints[0] == 1:
            return {'err': C.ERRNAMES.get(ints[1], '?')}
        r = C.Reader(ints[1:])
        n, m = r.z(), r.z()

        def samp():
            t = r.z()
            return r.q() if t == 0 else ('nonzero' if t == 1 else UNKNOWN)
        out = [[samp() for _ in range(m)] for _ in range(n)]
        assert r.done()
        return out
    if c['op'] in MULTI:
        r = C.Reader(ints[1:])
        out = [decode_one(r) for _ in calls_of(c)]
        assert r.done()
        return out
    r = C.Reader(ints)
    out = decode_one(r)
    assert r.done()
    return out


def decode_one(r):
    if r.z() == 1:
        return {'err': C.ERRNAMES.get(r.z(), '?')}

    def samp():
        t = r.z()
        if t == 0:
            return r.q()
        if t == 1:
            return 'nonzero'
        return UNKNOWN

    def oarr():
        n, m = r.z(), r.z()
        return [[samp() for _ in range(m)] for _ in range(n)]

    def ofld():
        return ('scalar', r.q()) if r.z() == 0 else ('array', oarr())

    amp = ofld()
    opd = ofld()
    t = r.z()
    mask = ('mono', oarr()) if t == 1 else ('cube', r.lst(oarr))
    ps = r.opt(lambda: (r.q(), r.q()))
    tilt = r.lst(lambda: [r.q(), r.q()])
    slices = r.lst(lambda: [r.z(), r.z(), r.z(), r.z()])
    return {'amp': amp, 'opd': opd, 'mask': mask, 'ps': ps, 'tilt': tilt, 'slice': slices}


# ------------------------------------------------------------------ implementation side
class Arr(str):
    """numpy array carried in a result (.a); as a str it is a short summary, so results stay JSON-able and replay files small"""

    def __new__(cls, a):
        a = np.array(a)
        obj = str.__new__(cls, f'ndarray shape={a.shape} dtype={a.dtype} min={a.min() if a.size else None} '
                               f'max={a.max() if a.size else None}')
        obj.a = a
        return obj


class TaggedArray(np.ndarray):
    """an ndarray subclass carrying metadata"""

    def __new__(cls, a, tag='meta'):
        obj = np.asarray(a).view(cls)
        obj.tag = tag
        return obj

    def __array_finalize__(self, obj):
        self.tag = getattr(obj, 'tag', None)


def wrap_array(a, kind):
    """the same data as a legal array_like of another class: the result must be that of the plain ndarray"""
    if np.ndim(a) != 2:
        return a
    a = np.asarray(a)
    if kind == 'masked':
        return np.ma.MaskedArray(a.copy())
    if kind == 'masked_some':      # a few masked entries: np.asarray() of it is the underlying data
        mk = np.zeros(a.shape, dtype=bool)
        mk[::5, ::3] = True
        return np.ma.MaskedArray(a.copy(), mask=mk)
    if kind == 'matrix':
        return np.matrix(a.copy())
    if kind == 'tagged':
        return TaggedArray(a.copy())
    if kind == 'memmap':
        import tempfile
        f = tempfile.NamedTemporaryFile(prefix='lv-c17-', suffix='.dat')
        mm = np.memmap(f, dtype=a.dtype, mode='w+', shape=a.shape)
        mm[...] = a
        mm._lv_file = f
        return mm
    return a


def mk_plane(c):
    lentil = C.import_lentil()
    amp, opd, mask = build(c)
    if c['ps'] is None:
        ps = None
    else:
        ps = (float(Fraction(c['ps'][0])), float(Fraction(c['ps'][1])))
        form = c.get('ps_form', 'tuple')
        if form == 'scalar' and ps[0] == ps[1]:
            ps = ps[0]
        elif form == 'list':
            ps = list(ps)
        elif form == 'array':
            ps = np.array(ps)
    w = c.get('wrap')
    if w:
        amp, opd = wrap_array(amp, w), wrap_array(opd, w)
        if mask is not None and np.ndim(mask) == 2:
            mask = wrap_array(mask, w)
    kind = c.get('kind', 'plane')
    kw = dict(amplitude=amp, opd=opd, mask=mask, pixelscale=ps)
    if kind == 'pupil':
        p = lentil.Pupil(focal_length=12.5, **kw)
    elif kind == 'image':
        p = lentil.Image(**kw)
    elif kind == 'positional':          # positional spelling of the documented constructor arguments
        p = lentil.Plane(amp, opd, mask, ps)
    elif kind.startswith('ptype_'):     # explicit ptype= on the base class
        p = lentil.Plane(ptype=getattr(lentil, kind[6:]), **kw)
    elif kind == 'tilt_arrays':         # a Tilt plane that also carries arrays
        p = lentil.Tilt(x=1.5e-6, y=-2.5e-6, **kw)
    else:
        p = lentil.Plane(**kw)
    for x, y in c.get('tilt', []):
        p.tilt.append(lentil.Tilt(x=x, y=y))
    return p


def arg_of(c):
    """the scale / pixel scale in the legal argument form the case asks for"""
    x = float(Fraction(c['scale'] if c['op'] == 'rescale' else c['new_ps']))
    form = c.get('arg_form', 'float')
    if form == 'np64':
        return np.float64(x)
    if form == 'np32' and float(np.float32(x)) == x:
        return np.float32(x)
    if form == 'array0d':
        return np.array(x)
    if form == 'int' and x == int(x):
        return int(x)
    if form in ('u8', 'i8', 'u16') and x == int(x) and 0 < x < 100:     # small-width integer scalars must not wrap
        return {'u8': np.uint8, 'i8': np.int8, 'u16': np.uint16}[form](int(x))
    return x


def tol_of(a):
    return 1e-6 if np.asarray(a).dtype == np.float32 else TOL


def fields_of(p):
    """what the plane does to a wavefront (Wavefront * plane): data, offset and tilt bookkeeping of every field"""
    lentil = C.import_lentil()
    try:
        w = lentil.Wavefront(650e-9) * p
        return [(np.array(f.data), tuple(int(o) for o in f.offset), len(f.tilt)) for f in w.data]
    except Exception as e:      # noqa: BLE001
        return type(e).__name__


def snapshot(p):
    return (np.array(p.amplitude, copy=True), np.array(p.opd, copy=True), np.array(p.mask, copy=True),
            None if p.pixelscale is None else tuple(float(x) for x in p.pixelscale),
            [id(t) for t in p.tilt], fields_of(p))


def snapshot_diff(a, b):
    """None if the two snapshots agree, else the name of the first attribute that differs"""
    for name, x, y in zip(('amplitude', 'opd', 'mask'), a[:3], b[:3]):
        if not (np.array_equal(x, y) and x.dtype == y.dtype):
            return name
    if a[3] != b[3]:
        return 'pixelscale'
    if a[4] != b[4]:
        return f'tilt list ({len(a[4])} -> {len(b[4])} entries)'
    fa, fb = a[5], b[5]
    if isinstance(fa, str) or isinstance(fb, str):
        return None if fa == fb else 'Wavefront * plane'
    if len(fa) != len(fb) or any(not np.array_equal(x[0], y[0]) or x[1:] != y[1:] for x, y in zip(fa, fb)):
        return 'Wavefront * plane (field data / offset / tilt)'
    return None


def same_snapshot(a, b):
    return snapshot_diff(a, b) is None


def use_result(q):
    """what a caller may legitimately do with the plane it got back; none of it may reach the original"""
    lentil = C.import_lentil()
    try:
        q.fit_tilt(inplace=True)            # moves the fitted tilt of the OPD into q.tilt, rewrites q.opd
    except Exception:                       # noqa: BLE001 - planes without enough information are left alone
        pass
    q.tilt.append(lentil.Tilt(x=1e-6, y=-2e-6))
    for a in (q.amplitude, q.opd, q.mask):
        try:
            np.asarray(a)[...] = 3          # in-place write (works on 0-d arrays too)
        except (ValueError, TypeError):
            pass


def call_plane(p, c):
    if c.get('call_kw'):        # keyword spelling of the documented argument
        return p.rescale(scale=arg_of(c)) if c['op'] == 'rescale' else p.resample(pixelscale=arg_of(c))
    return p.rescale(arg_of(c)) if c['op'] == 'rescale' else p.resample(arg_of(c))


def kind_diff(p, q):
    """the rescaled plane is a plane of the same kind: class, ptype and the kind's own attributes are carried over"""
    if type(q) is not type(p):
        return f'class {type(p).__name__} became {type(q).__name__}'
    if q.ptype != p.ptype:
        return f'ptype {p.ptype} became {q.ptype}'
    for a in ('focal_length', 'x', 'y'):
        if hasattr(p, a) and getattr(p, a, None) is not None:
            if not hasattr(q, a) or getattr(q, a) != getattr(p, a):
                return f'{a} {getattr(p, a)!r} became {getattr(q, a, None)!r}'
    return None


def slice_values(p):
    """plane._slice (what multiply cuts out of amplitude / opd / mask): [r0, r1, c0, c1] per mask / segment"""
    out = []
    for sl in getattr(p, '_slice', []):
        try:
            out.append([int(sl[0].start), int(sl[0].stop), int(sl[1].start), int(sl[1].stop)])
        except (TypeError, AttributeError, IndexError):
            out.append(None)
    return out


def tilt_values(p):
    return [[float(t.x), float(t.y)] for t in p.tilt]


def run_one(p, c, fresh=False, mutate=True, hold=None):
    """one rescale/resample call on the plane p, whose current attributes the single-call case c describes"""
    before = snapshot(p)
    with warnings.catch_warnings():
        warnings.simplefilter('ignore')
        err0, nfilt0 = np.geterr(), len(warnings.filters)
        try:
            q = call_plane(p, c)
        except Exception as e:      # noqa: BLE001 - the exception class is the observable
            after = snapshot(p)
            return {'err': type(e).__name__, 'untouched': same_snapshot(before, after)}
        after = snapshot(p)
        shares = any(np.shares_memory(np.asarray(x), np.asarray(y))
                     for x in (q.amplitude, q.opd, q.mask) for y in (p.amplitude, p.opd, p.mask)
                     if np.asarray(x).ndim and np.asarray(y).ndim)
        res = {'amp': Arr(q.amplitude), 'opd': Arr(q.opd), 'mask': Arr(q.mask),
               'mask_dtype': str(np.asarray(q.mask).dtype),
               'ps': None if q.pixelscale is None else [float(q.pixelscale[0]), float(q.pixelscale[1])],
               'tilt': tilt_values(q), 'slice': slice_values(q),
               'untouched': same_snapshot(before, after), 'shares_memory': bool(shares),
               'in_amp': Arr(before[0]), 'in_opd': Arr(before[1]), 'in_mask': Arr(before[2]),
               'kind_diff': kind_diff(p, q),
               'env_diff': None if (np.geterr() == err0 and len(warnings.filters) == nfilt0) else
               f'numpy error state / warnings filters changed by the call: {err0} -> {np.geterr()}'}
        if fresh:       # the same call on a fresh plane with equal attributes: no history
            res['fresh_diff'] = fresh_diff(c, res)
        if c['op'] == 'resample' and c.get('kind', 'plane') in ('plane', 'pupil', 'positional'):
            res['interop'] = interop(c, q)
        # second step: use the returned plane, then look at the original again
        if mutate:
            use_result(q)
        elif hold is not None:
            hold.append((q, res))
        leak = snapshot_diff(before, snapshot(p))
    res['untouched_after_use'] = leak is None
    res['leak'] = leak or ''
    return res


def interop(c, q):
    """a plane resampled to t and a plane that already lives on the grid t are applied to one wavefront"""
    lentil = C.import_lentil()
    t = float(Fraction(c['new_ps']))
    try:
        shape = q.mask.shape[-2:]
        other = lentil.Plane(amplitude=np.ones(shape), pixelscale=t)
        w = lentil.Wavefront(650e-9) * other
        w = w * q
        return None
    except Exception as e:      # noqa: BLE001
        return f'{type(e).__name__}: {str(e)[:120]}'


def fresh_diff(c, res):
    """difference between the result and the result of rescale(ps/new) (resp. the same rescale) on a FRESH equal plane"""
    f = mk_plane(c)
    try:
        if c['op'] == 'resample':
            q = f.rescale(f.pixelscale[0] / arg_of(c))
        else:
            q = f.rescale(arg_of(c))
    except Exception as e:      # noqa: BLE001
        return f'a fresh equal plane raises {type(e).__name__}'
    for name, a in (('amp', q.amplitude), ('opd', q.opd), ('mask', q.mask)):
        if not np.array_equal(np.asarray(a), res[name].a):
            d = np.asarray(a, dtype=float) - res[name].a if np.shape(a) == res[name].a.shape else None
            return (f'{name} differs from the same call on a fresh equal plane'
                    + (f' (max |difference| {np.abs(d).max():.3e})' if d is not None else ' (shape)'))
    ps = None if q.pixelscale is None else [float(q.pixelscale[0]), float(q.pixelscale[1])]
    if ps != res['ps']:
        return f'pixelscale {res["ps"]} differs from {ps} on a fresh equal plane'
    if tilt_values(q) != res['tilt']:
        return f'tilt {res["tilt"]} differs from {tilt_values(q)} on a fresh equal plane'
    return None


def run_history(c):
    lentil = C.import_lentil()
    base = {k: x for k, x in c.items() if k != 'steps'}
    p = mk_plane(base)
    out = []
    held = []
    for k, st, v in walk(c):
        do = st['do']
        if do in CALLS:
            # every other result is kept untouched and re-inspected at the end: a result must not be a view of memory that
            # a later call overwrites; the others are edited in place, which later calls must not notice
            out.append(run_one(p, v, fresh=True, mutate=len(out) % 2 == 1, hold=held))
            continue
        amp, opd, mask = build(v)
        if do == 'set_opd':
            p.opd = np.array(opd)
        elif do == 'inplace_opd':
            p.opd[...] = opd
        elif do == 'set_amp':
            p.amplitude = np.array(amp)
        elif do == 'inplace_amp':
            p.amplitude[...] = amp
        elif do == 'inplace_mask':
            p.mask[...] = mask
        elif do == 'tilt_append':
            p.tilt.append(lentil.Tilt(x=st['x'], y=st['y']))
        elif do == 'copy':
            p = p.copy()
    for q, res in held:
        for name, a in (('amp', q.amplitude), ('opd', q.opd), ('mask', q.mask)):
            if not np.array_equal(np.asarray(a), res[name].a):
                res['held_changed'] = f'{name} of a result held by the caller changed during later calls'
        if tilt_values(q) != res['tilt']:
            res['held_changed'] = 'tilt of a result held by the caller changed during later calls'
    return {'steps': out}


def tilt_plane(c):
    """smooth pupil whose OPD carries a strong plain tilt (several waves) on top of the smooth figure"""
    lentil = C.import_lentil()
    n, m = c['n'], c['m']
    amp, opd = smooth_fields(n, m, c['g'])
    u, v = grid(n, m)
    opd = opd + c['tiltA'] * u + c['tiltB'] * v
    mask = None
    if c['mask'].startswith('seg'):
        amp0, opd0, mask = build(dict(c, amp='smooth', opd='smooth'))
    dx = 1.0 / max(n, m)
    return lentil.Pupil(amplitude=amp, opd=opd, mask=mask, pixelscale=dx, focal_length=10.0), dx


def field_tilts(lentil, p):
    w = lentil.Wavefront(650e-9) * p
    return [[[float(t.x), float(t.y)] for t in f.tilt] for f in w.data]


def run_tiltchain(c):
    """fit_tilt (book-keeps the tilt of the OPD in plane.tilt), THEN rescale/resample, THEN use the plane"""
    lentil = C.import_lentil()
    lam, fl, npix = 650e-9, 10.0, 24
    p, dx = tilt_plane(c)
    s = float(Fraction(c['scale']))
    with warnings.catch_warnings():
        warnings.simplefilter('ignore')
        if c['inplace']:
            p.fit_tilt(inplace=True)
            pf = p
        else:
            pf = p.fit_tilt(inplace=False)
        opd0, tilt0 = np.array(pf.opd), tilt_values(pf)
        q = pf.resample(dx / s) if c['via'] == 'resample' else pf.rescale(s)
        res = {'tilt_fit': tilt0, 'tilt_q': tilt_values(q), 'ftilt_fit': field_tilts(lentil, pf), 'ftilt_q': field_tilts(lentil, q),
               'orig_kept': bool(np.array_equal(pf.opd, opd0) and tilt_values(pf) == tilt0),
               'ps': [float(x) for x in q.pixelscale], 'shape': list(q.mask.shape[-2:])}
        if not c['mask'].startswith('seg'):
            ips = 0.4 * lam * fl * min(s, 1.0) / (dx * npix)
            i0 = image_of(lentil, pf, npix, ips)
            i1 = image_of(lentil, q, npix, ips)
            rr, cc = np.indices(i0.shape)
            cen = lambda im: np.array([np.sum(rr * im), np.sum(cc * im)]) / np.sum(im)
            res['image_peak_rel'] = float(np.abs(i1 - i0).max() / i0.max())
            res['centroid_shift'] = float(np.abs(cen(i1) - cen(i0)).max())
    return res


def tiltchain_verdict(c, r):
    s = Fraction(c['scale'])
    n, m = c['n'], c['m']
    if not r['orig_kept']:
        return 'rescaling the tilt-fitted plane changed its opd / tilt list'
    if r['shape'] != [math.ceil(n * s), math.ceil(m * s)]:
        return f"shape {r['shape']} is not ceil(n*s)"
    if not r['tilt_fit'] or not any(abs(x) > 1e-9 for t in r['tilt_fit'] for x in t):
        return 'harness: the fitted tilt is negligible, the case does not test anything'
    if r['ftilt_q'] != r['ftilt_fit']:
        return (f"fit_tilt then {c['via']}({float(s)}): the tilt (an angle) the plane gives to a wavefront changed from "
                f"{r['ftilt_fit'][0][:1]} to {r['ftilt_q'][0][:1]}: rescaling changed the optics, not only the sampling")
    if 'image_peak_rel' in r and not r['image_peak_rel'] <= IMAGE_TOL:
        return (f"TEST (numeric): fit_tilt then {c['via']}({float(s)}): the propagated image changed by {r['image_peak_rel']:.3e} of its "
                f"peak > {IMAGE_TOL} (centroid moved {r['centroid_shift']:.3f} px)")
    return None


# ------------------------------------------------------------------ lentil.rescale called directly (all its arguments)
EPS64 = Fraction(1, 2 ** 52)
EPS32 = Fraction(1, 2 ** 23)


def util_arrays(c):
    """img and explicit mask of a direct lentil.rescale call"""
    n, m = c['n'], c['m']
    amp, opd = smooth_fields(n, m, c['g'])
    u, v = grid(n, m)
    disk = (np.hypot(u, v) <= 0.8).astype(float)
    img = {'amp': amp, 'opd': opd, 'aperture': amp * disk, 'disk': disk, 'int': (disk * 3).astype(int),
           'signed': amp * (u + 0.3)}[c['img']]
    um = c['umask']
    if um is None:
        mk = None
    elif um == 'ones':
        mk = np.ones((n, m))
    elif um == 'disk':
        mk = disk.copy()
    elif um == 'smooth':
        mk = 0.5 + 0.5 * amp / amp.max()
    elif um == 'small':          # values around the threshold finfo.eps = 2.2e-16 and a negative one
        mk = np.ones((n, m))
        mk[::3, ::2] = 1e-16
        mk[1::3, ::2] = 3e-16
        mk[2::3, 1::2] = -0.5
        mk[0, 0] = 2.0 ** -52
    elif um == 'f32':
        mk = disk.astype(np.float32)
    elif um == 'intones':
        mk = np.ones((n, m), dtype=int)
    elif um == 'bool':
        mk = disk.astype(bool)
    elif um == 'bigger':         # a mask array of another shape is sampled at the image's coordinates
        mk = np.ones((n + 2, m + 1))
        mk[:, 0] = 0
    return img, mk


def util_shape_arg(c):
    sh = c['shape']
    if sh is None or isinstance(sh, int):
        return sh
    form = c.get('shape_form', 'tuple')
    return tuple(sh) if form == 'tuple' else (list(sh) if form == 'list' else np.array(sh))


def util_base(c):
    sh = c['shape']
    return (c['n'], c['m']) if sh is None else ((sh, sh) if isinstance(sh, int) else tuple(sh))


def run_util(c):
    lentil = C.import_lentil()
    img, mk = util_arrays(c)
    img0, mk0 = img.copy(), None if mk is None else mk.copy()
    kw = dict(order=3, mode='nearest') if c['order'] == 3 else dict(order=0, mode='constant')
    with warnings.catch_warnings():
        warnings.simplefilter('ignore')
        try:
            out = lentil.rescale(img, float(Fraction(c['scale'])), shape=util_shape_arg(c), mask=mk, unitary=c['unitary'], **kw)
        except Exception as e:      # noqa: BLE001
            return {'err': type(e).__name__, 'untouched': bool(np.array_equal(img, img0) and (mk is None or np.array_equal(mk, mk0)))}
    return {'out': Arr(out), 'shares': bool(np.shares_memory(out, img) or (mk is not None and np.shares_memory(out, mk))),
            'untouched': bool(np.array_equal(img, img0) and img.dtype == img0.dtype and (mk is None or (np.array_equal(mk, mk0) and mk.dtype == mk0.dtype)))}


def encode_util(c):
    img, mk = util_arrays(c)
    out = [4, 0 if c['order'] == 3 else 1] + C.enc_q(Fraction(c['scale'])) + enc_arr(img)
    sh = c['shape']
    out += [0] if sh is None else ([1, sh] if isinstance(sh, int) else [2, sh[0], sh[1]])
    if mk is None:
        out += [0]
    else:       # an integer / bool mask is cast to float64 by the code: the model ignores the dtype flag
        out += [1] + enc_arr(mk) + C.enc_q(EPS32 if mk.dtype == np.float32 else EPS64)
    return out + [1 if c['unitary'] else 0]


def util_expected_nodes(c):
    """plain-Python expectation at the nodes of the sampling grid: (rows, cols, expected values or None)"""
    img, mk = util_arrays(c)
    s = Fraction(c['scale'])
    n, m = c['n'], c['m']
    bn, bm = util_base(c)
    N, M = math.ceil(bn * s), math.ceil(bm * s)
    rows = [(i, node_index(n, N, s, i)) for i in range(N)]
    cols = [(j, node_index(m, M, s, j)) for j in range(M)]
    all_nodes = all(y is not None for _, y in rows) and all(x is not None for _, x in cols)
    rows = [(i, y) for i, y in rows if y is not None]
    cols = [(j, x) for j, x in cols if x is not None]
    if mk is not None and mk.shape != img.shape:
        return N, M, rows, cols, None      # nodes of the mask array are a different set: left to the model
    if not rows or not cols:
        return N, M, rows, cols, None
    yy = np.array([y for _, y in rows])[:, None]
    xx = np.array([x for _, x in cols])[None, :]
    pre = np.asarray(img, dtype=float)[yy, xx]
    if mk is None:
        post = (pre != 0).astype(float)
    else:
        post = np.asarray(mk, dtype=float)[yy, xx].copy()
        post[post < (float(EPS32) if mk.dtype == np.float32 else float(EPS64))] = 0
    if c['unitary']:
        if not all_nodes or pre.sum() == 0:
            return N, M, rows, cols, None
        pre = pre * (np.asarray(img, dtype=float).sum() / pre.sum())
    return N, M, rows, cols, pre * post


def oracle_util(c, impl):
    img, mk = util_arrays(c)
    if not impl['untouched']:
        return 'lentil.rescale modified an array of the caller (img or mask)'
    if 'err' in impl:
        return f"lentil.rescale raised {impl['err']} on valid arguments"
    if impl['shares']:
        return 'the result shares memory with an argument'
    out = impl['out'].a
    N, M, rows, cols, exp = util_expected_nodes(c)
    if out.shape != (N, M):
        return f'output shape {out.shape}, expected ceil(base*scale) = {(N, M)} for base {util_base(c)}'
    if exp is not None:
        ii = np.array([i for i, _ in rows])[:, None]
        jj = np.array([j for j, _ in cols])[None, :]
        got = out[ii, jj]
        tol = TOL * max(float(np.abs(exp).max()), float(np.abs(np.asarray(img, dtype=float)).max()), 1e-300)
        bad = np.abs(got - exp) > tol
        if bad.any():
            k = np.argwhere(bad)[0]
            return (f'out[{rows[k[0]][0]},{cols[k[1]][0]}] = {got[tuple(k)]!r}, expected {exp[tuple(k)]!r} = img[{rows[k[0]][1]},{cols[k[1]][1]}] '
                    f"* thresholded mask{' * sum(img)/sum(out)' if c['unitary'] else ''} (node of the sampling grid)")
    return None


def compare_util(c, impl, model):
    if 'err' in model or 'err' in impl:
        if impl.get('err') != model.get('err'):
            return f"implementation {impl.get('err', 'returned an array')}, model {model.get('err', 'returns an array')}"
        return None
    img, _ = util_arrays(c)
    known = [abs(float(e)) for row in model for e in row if isinstance(e, Fraction)]
    sc = max(known + [float(np.abs(np.asarray(img, dtype=float)).max())])
    return cmp_arr('out', impl['out'].a, model, sc)


def run_impl(c):
    if c.get('test') == 'accuracy':
        return run_accuracy(c)
    if c['op'] == 'util':
        return run_util(c)
    if c['op'] == 'tiltchain':
        return run_tiltchain(c)
    if c['op'] == 'history':
        return run_history(c)
    if c['op'] == 'sequence':
        return {'steps': [run_one(mk_plane(v), v, fresh=False) for v in c['cases']]}
    return run_one(mk_plane(c), c, fresh=True)


# ------------------------------------------------------------------ comparison with the model
def close_ps(impl_v, exact):
    f = Fraction(impl_v)
    return f == exact or abs(f - exact) <= Fraction(1, 10 ** 15) * abs(exact)


def cmp_arr(name, impl_a, model_a, scale, mask_mode=None):
    """impl_a ndarray (2-d), model_a list of rows of Fraction | 'nonzero' | None"""
    n, m = len(model_a), (len(model_a[0]) if model_a else 0)
    if tuple(impl_a.shape) != (n, m):
        return f'{name}: shape {tuple(impl_a.shape)} but the model gives {(n, m)}'
    tol = TOL * max(scale, 1e-300)
    for i in range(n):
        row = model_a[i]
        for j in range(m):
            e = row[j]
            if e is UNKNOWN:
                continue
            v = float(impl_a[i, j])
            if e == 'nonzero':
                if v == 0:
                    return f'{name}[{i},{j}] = 0 but the model pins it non-zero'
            elif not abs(v - float(e)) <= tol:
                return f'{name}[{i},{j}] = {v!r} but the model pins it to {float(e)!r} ({e})'
    return None


def history_label(c, k):
    if c['op'] == 'sequence':
        return (f'call {k} of a sequence of independent planes [' +
                '; '.join(f"{v['n']}x{v['m']} {v['op']}({v.get('scale', v.get('new_ps'))})" for v in c['cases'][:k + 1]) + ']: ')
    seq = []
    n = -1
    for _, st, _ in walk(c):
        if st['do'] in CALLS:
            n += 1
            seq.append(f"{st['do']}({st.get('scale', st.get('new_ps'))})" + ('  <-- this call' if n == k else ''))
            if n == k:
                break
        else:
            seq.append(st['do'])
    return f'history call {k} [' + '; '.join(seq) + ']: '


def compare(c, impl, model):
    if c['op'] == 'util':
        return compare_util(c, impl, model)
    if c['op'] in MULTI:
        for k, (v, r, mres) in enumerate(zip(calls_of(c), impl['steps'], model)):
            msg = compare(v, r, mres)
            if msg:
                return history_label(c, k) + msg
        return None
    if 'err' in model or 'err' in impl:
        if scalar_mask(c) and model.get('err') == 'TypeError' and 'err' not in impl:
            return None     # a plane without a mask array is outside the property: not refusing it is no disagreement
        if impl.get('err') != model.get('err'):
            return f"implementation {impl.get('err', 'returned a plane')}, model {model.get('err', 'returns a plane')}"
        return None
    s = the_scale(c)
    amp, opd, mask = build(c)
    # pixel scale
    if (impl['ps'] is None) != (model['ps'] is None):
        return f"pixelscale {impl['ps']} but the model gives {model['ps']}"
    if impl['ps'] is not None:
        for k in range(2):
            if not close_ps(impl['ps'][k], model['ps'][k]):
                return f"pixelscale[{k}] = {impl['ps'][k]!r} but the model gives {model['ps'][k]} = {float(model['ps'][k])!r}"
    # amplitude / opd
    for name, inp in (('amp', amp), ('opd', opd)):
        kind, val = model[name]
        a = impl[name].a
        if kind == 'scalar':
            if a.ndim != 0 or not close_ps(float(a), val):      # amplitude: v/s, opd: v
                return f'{name}: {a!r} but the model gives the scalar {val} = {float(val)!r}'
        else:
            if a.ndim != 2:
                return f'{name}: ndim {a.ndim}, model 2'
            sc = float(np.max(np.abs(inp))) / (float(s) if name == 'amp' else 1.0)
            msg = cmp_arr(name, a, val, sc * tol_of(inp) / TOL)
            if msg:
                return msg
    if [[Fraction(x), Fraction(y)] for x, y in impl['tilt']] != model['tilt']:
        return f"tilt {impl['tilt']} but the model carries {[[float(x), float(y)] for x, y in model['tilt']]} over"
    s_ = the_scale(c)
    if s_ is not None and dyadic_small(s_) and not mask_has_ties(c, s_) and impl['slice'] != model['slice']:
        return f"plane._slice = {impl['slice']} but the model gives the bounding boxes {model['slice']}"
    # mask
    kind, val = model['mask']
    a = impl['mask'].a
    full = s is not None and dyadic_small(s)
    if kind == 'mono':
        if a.ndim != 2:
            return f'mask: ndim {a.ndim}, model 2'
        segs_i, segs_m = [a], [val]
    else:
        if a.ndim != 3 or a.shape[0] != len(val):
            return f'mask: shape {a.shape}, model has {len(val)} segments'
        segs_i, segs_m = list(a), val
    tr, tc = (tie_flags(c['n'], len(segs_m[0]), s), tie_flags(c['m'], len(segs_m[0][0]) if segs_m[0] else 0, s)) \
        if full and segs_m else ([], [])
    for k, (ai, am) in enumerate(zip(segs_i, segs_m)):
        if not full:      # non-dyadic float scale: the nearest-neighbour choice may differ by rounding; shapes only
            am = [[UNKNOWN] * len(row) for row in am]
        else:             # exact ties of the nearest-neighbour rule are not pinned by the property: skipped
            am = [[UNKNOWN if (tr[i] or tc[j]) else e for j, e in enumerate(row)] for i, row in enumerate(am)]
        msg = cmp_arr(f'mask[{k}]' if kind == 'cube' else 'mask', ai, am, 1.0)
        if msg:
            return msg
        if not np.isin(ai, (0, 1)).all():
            return f'mask[{k}] is not binary'
    return None


# ------------------------------------------------------------------ direct oracle (no model)
def coord_of(n, N, s, j):
    return (Fraction(j) - Fraction(N, 2)) / s + Fraction(n, 2)


def tie_flags(n, N, s):
    """output samples whose coordinate is exactly half-way between two input samples"""
    return [coord_of(n, N, s, j).denominator == 2 for j in range(N)]


def nearest_index(n, N, s, j):
    """nearest input sample of output sample j (None: outside [0, n-1], the mask is 0 there)"""
    x = coord_of(n, N, s, j)
    if x < 0 or x > n - 1:
        return None
    return math.floor(x + Fraction(1, 2))


def nn_masks(c, s):
    """nearest-neighbour resampling of the mask segments in plain Python (ties up, 0 outside [0, n-1])"""
    n, m = c['n'], c['m']
    N, M = out_size(c, n, s), out_size(c, m, s)
    amp, _, mask = build(c)
    if mask is None:
        mask = np.asarray(amp)
    mask = np.asarray(mask)
    segs = mask if mask.ndim == 3 else mask[None]
    ri = [nearest_index(n, N, s, i) for i in range(N)]
    ci = [nearest_index(m, M, s, j) for j in range(M)]
    inside = np.outer([r is not None for r in ri], [q is not None for q in ci])
    yy = np.array([r if r is not None else 0 for r in ri], dtype=int)[:, None]
    xx = np.array([q if q is not None else 0 for q in ci], dtype=int)[None, :]
    return [((a[yy, xx] != 0) & inside).astype(int) for a in segs], ri, ci


def vanishing_segment(c, s):
    segs, _, _ = nn_masks(c, s)
    return any(not a.any() for a in segs)


def mask_has_ties(c, s):
    """some output coordinate lies exactly half-way between two input samples (the nearest-neighbour choice is not pinned)"""
    return (any(tie_flags(c['n'], out_size(c, c['n'], s), s)) or any(tie_flags(c['m'], out_size(c, c['m'], s), s)))


def node_index(n, N, s, j):
    """integer node inside the array hit by output sample j, else None: x_j = (j - N/2)/s + n/2"""
    x = (Fraction(j) - Fraction(N, 2)) / s + Fraction(n, 2)
    if x.denominator == 1 and 0 <= x < n:
        return int(x)
    return None


def oracle(c, impl):
    if c.get('test') == 'accuracy':
        return accuracy_verdict(impl)
    if c['op'] == 'tiltchain':
        return tiltchain_verdict(c, impl)
    if c['op'] == 'util':
        return oracle_util(c, impl)
    if c['op'] in MULTI:
        for k, (v, r) in enumerate(zip(calls_of(c), impl['steps'])):
            msg = oracle(v, {k_: x for k_, x in r.items() if k_ != 'fresh_diff'})
            if not msg and r.get('fresh_diff'):
                msg = 'the result depends on the history of the plane: ' + r['fresh_diff']
            if msg:
                return history_label(c, k) + msg
        return None
    ref = expect_refusal(c)
    if ref is not None:
        if impl.get('err') != ref:
            return f"resample must refuse with {ref}, got {impl.get('err', 'a plane')}"
        return None if impl['untouched'] else 'the refused call modified the plane'
    if scalar_mask(c):
        return None            # a plane without a mask array is outside the quantifier; behaviour tied to the model only
    s = the_scale(c)
    n, m = c['n'], c['m']
    amp, opd, mask = build(c)
    if 'err' in impl:
        if impl['err'] == 'IndexError' and vanishing_segment(c, s):
            return None if impl['untouched'] else 'the refused call modified the plane'
        return f"{c['op']} raised {impl['err']} on a valid plane"
    if not impl['untouched']:
        return 'the original plane was modified'
    if not impl['untouched_after_use']:
        return ('the original plane changed when the RETURNED plane was used (fit_tilt(inplace=True), tilt.append, in-place '
                'array writes): the result shares mutable state (tilt list / 0-d arrays) with the original: ' + impl['leak'])
    if impl['shares_memory']:
        return 'the returned plane shares memory with the original'
    if impl.get('kind_diff'):
        return 'the rescaled plane is not a plane of the same kind: ' + impl['kind_diff']
    if impl.get('env_diff'):
        return impl['env_diff']
    if impl.get('held_changed'):
        return impl['held_changed']
    lentil = C.import_lentil()
    want = [[float(t.x), float(t.y)] for t in (lentil.Tilt(x=x, y=y) for x, y in c.get('tilt', []))]
    if impl['tilt'] != want:
        return f"tilt bookkeeping of the result {impl['tilt']} is not the plane's current {want}"
    N, M = out_size(c, n, s), out_size(c, m, s)
    arrays = [('mask', impl['mask'].a)]
    if np.ndim(amp) == 2:
        arrays.append(('amplitude', impl['amp'].a))
    elif impl['amp'].a.ndim != 0:
        return 'scalar amplitude became an array'
    else:
        exp = float(amp) / float(s)
        if abs(float(impl['amp'].a) - exp) > 1e-12 * abs(exp):
            return (f"scalar amplitude {float(amp)!r} over an array mask became {float(impl['amp'].a)!r}, expected amplitude/s = {exp!r}: "
                    f'the transmitted power sum|amplitude*mask|^2 is multiplied by s^2')
    if np.ndim(opd) == 2:
        arrays.append(('opd', impl['opd'].a))
    for name, a in arrays:
        if tuple(a.shape[-2:]) != (N, M):
            return f'{name} has shape {tuple(a.shape)}; ceil(n*s) = {(N, M)} for n = {(n, m)}, s = {s}'
    # pixel scale divided by exactly s; extent within one sample
    if c['ps'] is None:
        if impl['ps'] is not None:
            return 'pixelscale appeared from nowhere'
    else:
        for k, (nn, NN) in enumerate(((n, N), (m, M))):
            ps = Fraction(c['ps'][k])
            if not close_ps(impl['ps'][k], ps / s):
                return f"pixelscale[{k}] = {impl['ps'][k]!r}, expected {c['ps'][k]} / {s} = {float(ps / s)!r}"
            new = Fraction(impl['ps'][k])
            if not abs(NN * new - nn * ps) < new * (1 + Fraction(1, 10 ** 12)):
                return f'physical extent changed by more than one sample on axis {k}'
        if c['op'] == 'resample':
            t = Fraction(c['new_ps'])
            for k in range(2):
                if abs(Fraction(impl['ps'][k]) - t) > t / 10 ** 12:
                    return (f"resample({float(t)!r}) returned pixelscale[{k}] = {impl['ps'][k]!r}: not the requested pixel scale "
                            f"(relative error {float(abs(Fraction(impl['ps'][k]) - t) / t):.2e})")
            tf, pf = float(t), float(Fraction(c['ps'][0]))
            if impl.get('interop') and pf / (pf / tf) == tf:
                return ('the resampled plane cannot be applied to a wavefront together with a plane that already lives on the '
                        'requested grid: ' + impl['interop'])
    if impl.get('fresh_diff'):
        return ('resample(t) is not rescale(pixelscale/t): ' if c['op'] == 'resample' else 'the call is not repeatable: ') + impl['fresh_diff']
    # glue: plane._slice is the tight bounding box of the returned mask / of every segment
    segs_ = impl['mask'].a if impl['mask'].a.ndim == 3 else impl['mask'].a[None]
    boxes = []
    for a_ in segs_:
        rr, cc = np.where(a_.any(axis=1))[0], np.where(a_.any(axis=0))[0]
        boxes.append([int(rr[0]), int(rr[-1]) + 1, int(cc[0]), int(cc[-1]) + 1] if rr.size else None)
    if impl['slice'] != boxes:
        return f"plane._slice = {impl['slice']} is not the bounding box {boxes} of the returned mask"
    # mask: binary integers, same segment structure
    mi = impl['mask'].a
    in_mask = impl['in_mask'].a
    if mi.ndim != in_mask.ndim or (mi.ndim == 3 and mi.shape[0] != in_mask.shape[0]):
        return f'mask structure changed: {in_mask.shape} -> {mi.shape}'
    if not np.isin(mi, (0, 1)).all():
        return f'mask is not binary (dtype {mi.dtype}, values {np.unique(mi)[:5]})'
    # documented nearest-neighbour resampling of the mask (exact regime only; exact ties are not pinned)
    if dyadic_small(s) and mi.shape[-2:] == (N, M):
        expected, ri, ci = nn_masks(c, s)
        tr, tc = tie_flags(n, N, s), tie_flags(m, M, s)
        keep = np.outer([not t for t in tr], [not t for t in tc])
        segs_out = mi if mi.ndim == 3 else mi[None]
        for q, (exp, b) in enumerate(zip(expected, segs_out)):
            bad = (b != exp) & keep
            if bad.any():
                k = np.argwhere(bad)[0]
                return (f'mask segment {q} sample [{k[0]},{k[1]}] = {b[tuple(k)]} but its nearest input sample '
                        f'[{ri[k[0]]},{ci[k[1]]}] gives {exp[tuple(k)]}')
    # samples at nodes of the sampling grid (includes the identity for s = 1)
    rows = [(i, node_index(n, N, s, i)) for i in range(N)]
    cols = [(j, node_index(m, M, s, j)) for j in range(M)]
    rows = [(i, y) for i, y in rows if y is not None]
    cols = [(j, x) for j, x in cols if x is not None]
    if s == 1 and (len(rows), len(cols)) != (n, m):
        return 'oracle self-check failed'
    if rows and cols:
        ii = np.array([i for i, _ in rows])[:, None]
        jj = np.array([j for j, _ in cols])[None, :]
        yy = np.array([y for _, y in rows])[:, None]
        xx = np.array([x for _, x in cols])[None, :]
        sf = float(s)
        if np.ndim(amp) == 2:
            exp = np.asarray(amp, dtype=float)[yy, xx] / sf
            got = impl['amp'].a[ii, jj]
            bad = np.abs(got - exp) > tol_of(amp) * np.max(np.abs(amp)) / sf
            if bad.any():
                k = np.argwhere(bad)[0]
                return (f'amplitude[{rows[k[0]][0]},{cols[k[1]][0]}] = {got[tuple(k)]!r}, expected amplitude'
                        f'[{rows[k[0]][1]},{cols[k[1]][1]}]/s = {exp[tuple(k)]!r} (node of the sampling grid)')
        if np.ndim(opd) == 2:
            exp = np.asarray(opd, dtype=float)[yy, xx]
            got = impl['opd'].a[ii, jj]
            bad = np.abs(got - exp) > tol_of(opd) * max(np.max(np.abs(opd)), 1e-300)
            if bad.any():
                k = np.argwhere(bad)[0]
                return (f'opd[{rows[k[0]][0]},{cols[k[1]][0]}] = {got[tuple(k)]!r}, expected opd'
                        f'[{rows[k[0]][1]},{cols[k[1]][1]}] = {exp[tuple(k)]!r} (node of the sampling grid)')
        segs_in = in_mask if in_mask.ndim == 3 else in_mask[None]
        segs_out = mi if mi.ndim == 3 else mi[None]
        for q, (a, b) in enumerate(zip(segs_in, segs_out)):
            exp = (a[yy, xx] != 0).astype(int)
            if not np.array_equal(b[ii, jj], exp):
                return f'mask segment {q} differs from the input mask at nodes of the sampling grid'
    if s == 1:
        if np.ndim(amp) == 2 and not np.allclose(impl['amp'].a, amp, rtol=0, atol=tol_of(amp) * np.max(np.abs(amp))):
            return 'rescale(1) is not the identity on the amplitude'
    return None


# ------------------------------------------------------------------ numeric tests (labelled as tests)
def image_of(lentil, p, npix, ips):
    w = lentil.Wavefront(650e-9)
    w = w * p
    w = lentil.propagate_dft(w, shape=(npix, npix), pixelscale=ips, oversample=1)
    return w.intensity


def accuracy_case(rng, s):
    lo = math.ceil(19 / min(s, 1.0))
    n = rng.randint(lo, 48)
    m = n if rng.random() < 0.35 else rng.randint(lo, 48)
    return {'test': 'accuracy', 'n': n, 'm': m, 'scale': s, 'g': rnd_g(rng, wf=round(1 / 2.7, 4))}


def run_accuracy(c):
    lentil = C.import_lentil()
    lam, fl, npix = 650e-9, 10.0, 24
    n, m, s = c['n'], c['m'], c['scale']
    amp, opd = smooth_fields(n, m, c['g'])
    dx = 1.0 / max(n, m)
    p = lentil.Pupil(amplitude=amp, opd=opd, pixelscale=dx, focal_length=fl)
    with warnings.catch_warnings():
        warnings.simplefilter('ignore')
        q = p.resample(dx / s) if c.get('via') == 'resample' else p.rescale(s)
        # image window = 0.4 of the alias-free field of the coarser of the two samplings
        ips = 0.4 * lam * fl * min(s, 1.0) / (dx * npix)
        i0 = image_of(lentil, p, npix, ips)
        i1 = image_of(lentil, q, npix, ips)
    p0 = float(np.sum(np.abs(p.amplitude) ** 2))
    p1 = float(np.sum(np.abs(q.amplitude) ** 2))
    return {'power_rel': abs(p1 / p0 - 1), 'image_peak_rel': float(np.abs(i1 - i0).max() / i0.max()),
            'image_sum_rel': abs(float(i1.sum() / i0.sum()) - 1)}


def accuracy_verdict(r):
    msgs = []
    if not r['power_rel'] <= POWER_TOL:
        msgs.append(f"sum|amplitude|^2 changed by {r['power_rel']:.3e} > {POWER_TOL}")
    if not r['image_peak_rel'] <= IMAGE_TOL:
        msgs.append(f"propagated image differs by {r['image_peak_rel']:.3e} of its peak > {IMAGE_TOL}")
    if not r['image_sum_rel'] <= IMAGE_TOL:
        msgs.append(f"image total changed by {r['image_sum_rel']:.3e} > {IMAGE_TOL}")
    if msgs:
        return 'TEST accuracy (smooth plane, numeric, not a theorem): ' + '; '.join(msgs)
    return None


def extra(tier, rng):
    reps = 2 if tier == 'quick' else 12
    worst = {'power_rel': 0.0, 'image_peak_rel': 0.0, 'image_sum_rel': 0.0}
    viol = []
    n_tests = 0
    for s in [0.5, 0.625, 0.75, 2 / 3, 0.9, 1.0, 1.25, 1.5, 1.7, 2.0, 2.5, 3.0, 3.3, 4.0]:
        for rep in range(reps):
            c = accuracy_case(rng, s)
            if rep % 2:
                c['via'] = 'resample'
            try:
                r = run_accuracy(c)
            except Exception as e:      # noqa: BLE001
                viol.append({'case': c, 'impl': {'err': type(e).__name__, 'msg': str(e)[:300]},
                             'what': f'TEST accuracy: {type(e).__name__} while rescaling/propagating a smooth plane'})
                continue
            n_tests += 1
            for k in worst:
                worst[k] = max(worst[k], r[k])
            msg = accuracy_verdict(r)
            if msg:
                viol.append({'case': c, 'impl': r, 'what': msg})
    return {'report': {'kind': 'numeric tests, not theorems', 'accuracy_tests': n_tests, 'worst': worst,
                       'thresholds': {'power_rel': POWER_TOL, 'image_peak_rel': IMAGE_TOL, 'image_sum_rel': IMAGE_TOL}},
            'violations': viol}



# ------------------------------------------------------------------ WP-T3: translation layer (source -> Gallina)
# An ADDITIONAL tie (DESIGN 10.3): harness/gen_src.py (suite 'C17') translates the output-shape formula and the interpolation coordinates of lentil/util.py:rescale (scale an exact rational)
# from the CURRENT source text into coq/theories/Gen/RescaleSrc.v; Proofs/RescaleSrcP.v proves every translated term equal to the model for
# all integers; Properties/C17Src.v states it.  Policy: a function the translator refuses is only reported; a
# translated function whose equivalence lemma no longer compiles is compared with the model mirror on sampled points,
# an exhaustive small box and random points - a found disagreement is a VIOLATION with that witness (replayable: op
# 'src'), none found is reported as unproved.  The build of C17Src happens here, never in COQ_TARGETS.
_extra_before_src_layer = extra


def extra(tier, rng):
    from .. import gen_src as G
    try:
        base = _extra_before_src_layer(tier, rng)
    except Exception as e:          # keep the translation layer's verdict when the other checks cannot even run
        import traceback
        base = {'report': {'error': traceback.format_exc()[-800:]},
                'violations': [{'case': None, 'impl': None,
                                'what': f'extra: the checks preceding the translation layer raised {type(e).__name__}: {e}'}]}
    layer = G.run_layer('C17', ID, tier, rng, C)
    report = dict(base.get('report', {}))
    report['source_translation'] = layer['report']
    return {'report': report, 'violations': list(base.get('violations', [])) + layer['violations']}


def _wrap_src_replay():
    from .. import gen_src as G
    return G.wrap_replay(run_impl, oracle, C)


run_impl, oracle = _wrap_src_replay()
