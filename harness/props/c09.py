"""C09 - FFT propagation agrees with DFT propagation; scratch space is transparent."""
import math
import random
from fractions import Fraction

import numpy as np

from .. import common as C

ID = 'C09'
MODEL = 'c09'
RUNFUN = 'run'
COQ_TARGETS = ['theories/Properties/C09.vo', 'theories/Extract/RunC09.vo']
DESIGN_REF = 'DESIGN.md section 6, C09'
TECHNIQUE = ('Coq proof (ring-generic with an additive, 1-periodic kernel: fftshift(fft2(ifftshift x), ortho) = unitary '
             'dft2 at alpha=1/N for both parities; pad keeps the floor(n/2) origin; propagate_fft samples = unitary '
             'Fraunhofer sums of the input plane at alpha=1/N on the centred window; scratch transparency; refusals) + '
             'execution of the extracted model on the exact group ring Q(i)[C_L] against the public path '
             'Wavefront * Pupil -> lentil.propagate_fft, and a direct oracle against lentil.propagate_dft at the '
             'reported wavelength')
LEVEL_TEXT = ('Theorems in coq/theories/Properties/C09.v for every grid size (both parities), every accepted output '
              'shape, every scratch buffer (any sufficient shape, any content) and every list of fields; the model '
              'follows propagate.py / util.pad / field.insert statement by statement, takes the FFT grid size from '
              'the implementation, and is run exactly (roots of unity as group-ring monomials) against '
              'lentil.propagate_fft on histories of calls sharing a scratch buffer.')
LEVEL_NOTE = ('Trusted: Coq kernel + stdlib Reals axioms (only for the complex-number instance), extraction, harness; '
              'np.fft.fft2 enters through its documented definition (contract fft2_plain) and is observed through the tie; '
              'equality with propagate_dft is claimed for square pixels only (with anisotropic pixel scales one '
              'wavelength cannot give alpha=1/N on both axes; there only shape/refusal behaviour and the model tie are checked). '
              'The comparison with propagate_dft uses the same complex input field at the reported wavelength (OPD scaled with the wavelength).')
TRUSTED = ['Coq 8.16.1 kernel (coqc; coqchk in the thorough tier)',
           'extraction with ExtrOcamlBasic only; ocaml/driver.ml',
           'harness/props/c09.py: codec, recognition of field samples as (Gaussian integer) x (root of unity), evaluation '
           'of group-ring elements at exp(-2 pi i/L), the factor 1/sqrt(N0 N1)',
           'numpy: np.fft.fft2/fftshift/ifftshift (contract = numpy definition; observed through the tie), slicing assignment',
           'parametricity: the theorem instance (any ring with a periodic kernel / Coquelicot C) and the executed '
           'instance (group ring) are the same Gallina term']
ASSUMPTIONS = ['integer oversampling factor; finite non-zero pixel scales, focal length, wavelength (rationals)',
               'fields are 2-d with positive dimensions (every Wavefront * Pupil product); pupil no larger than the FFT grid '
               'for the comparison with propagate_dft; square pixels for that comparison',
               'input samples (Gaussian integer) x (L-th root of unity), L <= 96; comparison tolerance 1e-9*(1+max|ref|)']
RULE = ('shape / oversample given in small-width integer dtypes (uint8, int8, uint16, int16; array, list of numpy scalars, numpy scalar) with shape*oversample beyond the dtype range on grids big enough to accept it (oracle only); calls made under np.errstate(all=raise/ignore/warn) with the error state checked before == after; every result held across the later calls of its history and re-compared at the end; image-plane wavefronts (lentil.Image; the reverse direction) in every family; second legs of relays (propagate_fft output fed back, directly or rebuilt through lentil.Image; oracle only); large grids (> 1000 rows, >= 2**20 samples; oracle only); amplitudes as np.ma.MaskedArray / np.matrix and scaled by 1e-13..1e6 (results compared relative to the scale); 0-d and one-element argument forms; wavelengths 1 ppm off a whole grid; every case is evaluated in a forked child that starts from the freshly imported library (no state leaks between cases; replays are self-contained); the same call repeated with one argument changed (oversample at a fixed wavelength, shape, scratch use); multi-field wavefronts (explicit Fields appended to Wavefront.data, segments) with tilt lists of different lengths incl. empty in every position (Plane.tilt shorter than the segments, per-field lists) - all must be refused, the untilted ones propagated; argument forms (scalar/tuple/list/array pixelscale, int/tuple/list/array shape, numpy-integer oversample) and amplitude dtypes (int, bool, float32, float64, complex); histories of 1..4 propagate_fft calls sharing one scratch buffer (none / exactly scratch_shape(all wavelengths) / larger / '
        'one short), initial scratch content random Gaussian integers; pupils 2..9 x 2..9 (Gaussian-integer amplitude with zero '
        'borders, optional OPD = k*lambda/Lp, optional two-segment mask), wavelength chosen so that the grid is 2..16 of either '
        'parity (1/alpha = N + delta, delta in {0, +-1/4, +-1/3, +-2/5, +-1/2}), oversample 1..3, shapes None / accepted / one too '
        'large, tilted wavefronts (Wavefront(tilt=), Pupil.fit_tilt()), anisotropic output pixels (shape/refusal/model only); '
        'non-trivial = at least one accepted call with grid larger than a >=2x2 pupil')

TOL = 1e-9


def lcm(a, b):
    return a * b // math.gcd(a, b)


# ------------------------------------------------------------------ generation
DELTAS = [Fraction(0), Fraction(0), Fraction(1, 4), Fraction(-1, 4), Fraction(1, 3), Fraction(-1, 3),
          Fraction(2, 5), Fraction(-2, 5), Fraction(1, 2), Fraction(-1, 2),
          Fraction(1, 10 ** 6), Fraction(-1, 10 ** 6)]      # near-ties: a few ppm off a whole grid


def rnd_amp(rng, n, m, cplx):
    while True:
        a = [[[rng.randint(-3, 3), rng.randint(-3, 3) if cplx else 0] for _ in range(m)] for _ in range(n)]
        # zero borders now and then: the field becomes a sub-array with a non-zero offset
        if rng.random() < 0.4:
            for j in range(m):
                a[0][j] = [0, 0]
        if rng.random() < 0.3:
            for i in range(n):
                a[i][m - 1] = [0, 0]
        if rng.random() < 0.2:
            for i in range(n):
                a[i][0] = [0, 0]
        if any(v != [0, 0] for row in a for v in row):
            return a


def gen_step(rng, geo, nmax, Nmax, force_tilt=None, aniso=False):
    n, m = rng.randint(2, nmax), rng.randint(2, nmax)
    os_ = geo['os']
    lo = max(n, m)
    N = rng.randint(lo, max(lo, Nmax))
    if rng.random() < 0.2:
        N = lo
    delta = rng.choice(DELTAS)
    if N == lo and delta < 0:
        delta = -delta
    if aniso:                      # keep both grid axes (N and 2N or 3N/2) integral
        N += N % 2
        delta = Fraction(0)
    dx, du0, z = Fraction(geo['dx']), Fraction(geo['du'][0]), Fraction(geo['z'])
    lam = (N + delta) * dx * du0 / (z * os_)
    cplx = rng.random() < 0.5
    st = {'amp': rnd_amp(rng, n, m, cplx), 'lam': str(lam), 'Lp': 1, 'opdk': None, 'seg': None, 'tilt': 'none'}
    if rng.random() < 0.4:
        Lp = rng.choice([2, 3, 4, 4, 6])
        st['Lp'] = Lp
        st['opdk'] = [[rng.randint(0, Lp - 1) for _ in range(m)] for _ in range(n)]
    if rng.random() < 0.15 and m >= 3:
        st['seg'] = rng.randint(1, m - 1)          # two segments: columns < seg and >= seg
    t = rng.random()
    if force_tilt is not None:
        st['tilt'] = force_tilt
    elif t < 0.05:
        st['tilt'] = 'wavefront'
    elif t < 0.10:
        st['tilt'] = 'fit'
    # requested shape
    maxs = max(1, N // os_)
    t = rng.random()
    if t < 0.15:
        st['shape'] = None
    elif t < 0.27:
        s = [rng.randint(1, maxs), rng.randint(1, maxs)]
        s[rng.randint(0, 1)] = maxs + rng.randint(1, 2)
        st['shape'] = s
    elif t < 0.45:
        st['shape'] = [maxs, maxs] if rng.random() < 0.5 else [maxs, rng.randint(1, maxs)]
    else:
        st['shape'] = [rng.randint(1, maxs), rng.randint(1, maxs)]
    st['use_scratch'] = rng.random() < 0.9
    st['_N'] = N
    st['_delta'] = str(delta)
    # more fields than the pupil's own: explicit Fields appended to Wavefront.data, inside the pupil array
    t = rng.random()
    if t < 0.22 and st['tilt'] == 'none':
        st['extra'] = [rnd_extra(rng, n, m) for _ in range(rng.choice([1, 1, 2]))]
        if t < 0.10:
            # tilt metadata on some of the fields only - in every position, lists of different lengths
            nf = (2 if st['seg'] else 1) + len(st['extra'])
            pat = [0] * nf
            while not any(pat):
                pat = [rng.choice([0, 0, 1, 2]) for _ in range(nf)]
            if rng.random() < 0.6:
                pat[0] = 0                      # the first field plain, a later one tilted
                if not any(pat):
                    pat[rng.randint(1, nf - 1)] = rng.choice([1, 2])
            k = nf - len(st['extra'])
            st['ftilt'] = pat[:k]
            for e, nt in zip(st['extra'], pat[k:]):
                e['ntilt'] = nt
    elif t < 0.26 and st['seg'] and st['tilt'] == 'none':
        st['ptilt'] = rng.choice([1, 1, 2, 3])   # Plane.tilt shorter / longer than the number of segments
    # the documented argument forms and input dtypes
    if rng.random() < 0.5:
        st['du_form'] = rng.choice(['scalar', 'tuple', 'list', 'array'])
    if st['shape'] is not None and rng.random() < 0.5:
        st['shape_form'] = rng.choice(['int', 'list', 'array', 'tuple'])
    if rng.random() < 0.2:
        st['os_form'] = 'npint'
    if not cplx and rng.random() < 0.35:
        st['amp_dtype'] = rng.choice(['int', 'bool', 'float32', 'masked', 'matrix'])
    elif rng.random() < 0.1:
        st['amp_dtype'] = rng.choice(['masked', 'matrix'])      # ndarray subclasses are legal array_like inputs
    t = rng.random()
    if t < 0.25 and st['tilt'] != 'fit':
        st['plane'] = 'image'                    # the reverse direction: an image-plane wavefront (lentil.Image)
    elif t < 0.30 and st['tilt'] != 'fit':
        st['plane'] = 'none'                     # a wavefront that is in no particular plane (lentil.Plane): TypeError
    if rng.random() < 0.2 and st.get('amp_dtype') in (None, 'float32', 'masked', 'matrix'):
        st['amp_scale'] = rng.choice([-13, -9, -9, 6])     # every operation is linear: amplitudes over many decades
    if 'du_form' not in st and rng.random() < 0.1:
        st['du_form'] = rng.choice(['0d', 'one'])
    if rng.random() < 0.25:
        st['errstate'] = rng.choice(['raise', 'ignore', 'warn'])    # results and refusals must not depend on it
    if st['shape'] is not None and st['shape'][0] == st['shape'][1] and rng.random() < 0.15:
        st['shape_form'] = '0d'
    return st


def rnd_extra(rng, n, m):
    h, w = rng.randint(1, n), rng.randint(1, m)
    offr = rng.randint(h // 2 - n // 2, h // 2 - n // 2 + n - h)
    offc = rng.randint(w // 2 - m // 2, w // 2 - m // 2 + m - w)
    return {'data': [[[rng.randint(-3, 3) or 1, rng.randint(-2, 2)] for _ in range(w)] for _ in range(h)],
            'off': [offr, offc], 'ntilt': 0}


def vary_step(rng, st, geo):
    """the same call with one argument changed (the class 'state keyed on too little')"""
    v = {k: (([dict(e) for e in x] if k == 'extra' else x)) for k, x in st.items()}
    os0 = st.get('os', geo['os'])
    what = rng.choice(['os', 'os', 'shape', 'scratch', 'same'])
    if what == 'os':
        big = [o for o in (1, 2, 3) if o != os0 and
               int((st['_N'] + Fraction(st['_delta'])) * o / os0) >= max(len(st['amp']), len(st['amp'][0])) + 1]
        if not big:
            what = 'shape'
    if what == 'os':
        os1 = rng.choice(big)
        v['os'] = os1
        N1 = int((st['_N'] + Fraction(st['_delta'])) * os1 / os0 + Fraction(1, 2))
        v['_N'] = max(1, N1)
        maxs = max(1, N1 // os1)
        v['shape'] = None if rng.random() < 0.2 else [rng.randint(1, maxs), rng.randint(1, maxs)]
    elif what == 'shape':
        maxs = max(1, st['_N'] // os0)
        v['shape'] = None if st['shape'] is not None and rng.random() < 0.4 else [rng.randint(1, maxs), rng.randint(1, maxs)]
    elif what == 'scratch':
        v['use_scratch'] = not st.get('use_scratch', True)
    v.pop('shape_form', None)
    return v


def gen_case(rng, tier):
    nmax = 7 if tier == 'quick' else 9
    Nmax = 12 if tier == 'quick' else 16
    os_ = rng.choice([1, 2, 2, 3])
    dx = rng.choice(['1', '1/2', '2', '1/4'])
    du0 = rng.choice(['1', '1/2', '2', '1/8'])
    aniso = rng.random() < 0.12
    # anisotropic output pixels: the second grid axis is 2x or 1.5x the first (both no smaller than the pupil)
    du1 = str(Fraction(du0) * rng.choice([Fraction(1, 2), Fraction(2, 3)])) if aniso else du0
    geo = {'dx': dx, 'du': [du0, du1], 'z': rng.choice(['1', '2', '1/2', '4']), 'os': os_}
    if rng.random() < 0.4:
        # the same families at physical magnitudes (metres): wavelengths 4e-7..2e-6, output pixels of micrometres;
        # tolerance-based branches in the code (isclose/allclose with an absolute tolerance) depend on the scale
        du0 = Fraction(rng.choice(['5e-6', '1e-5', '1.5e-5', '2.5e-6']))
        z = Fraction(rng.choice(['1', '10', '0.5', '2.5', '0.1']))
        lam0 = Fraction(rng.choice(['4e-7', '5.5e-7', '6.328e-7', '1e-6', '2e-6']))
        Nref = rng.randint(6, Nmax)
        dxv = Fraction('%.3g' % float(lam0 * z * os_ / (Nref * du0)))
        du1 = du0 * rng.choice([Fraction(1, 2), Fraction(2, 3)]) if aniso else du0
        geo = {'dx': str(dxv), 'du': [str(du0), str(du1)], 'z': str(z), 'os': os_, 'units': 'SI'}
    nsteps = rng.choice([1, 2, 2, 3])
    for _ in range(50):
        steps = [gen_step(rng, geo, nmax, Nmax, aniso=aniso) for _ in range(nsteps)]
        L = 1
        for s in steps:
            L = lcm(L, lcm(s['_N'], s['Lp']))
            if aniso:
                L = lcm(L, 6 * s['_N'])
        if L <= 96:
            break
    else:
        steps = steps[:1]
    if rng.random() < 0.5 and len(steps) < 4:
        for _ in range(4):
            v = vary_step(rng, steps[-1], geo)
            Lv = lcm(L, v['_N'] * (6 if aniso else 1))
            if Lv <= 96:
                steps.append(v)
                break
    for s in steps:
        s.pop('_N', None)
        s.pop('_delta', None)
    t = rng.random()
    if t < 0.22:
        scratch = None
    elif t < 0.52:
        scratch = {'kind': 'exact', 'seed': rng.randint(0, 10 ** 6)}
    elif t < 0.85:
        scratch = {'kind': 'larger', 'pad': [rng.randint(0, 3), rng.randint(0, 3)], 'seed': rng.randint(0, 10 ** 6)}
    else:
        scratch = {'kind': 'small', 'dim': rng.randint(0, 1), 'seed': rng.randint(0, 10 ** 6)}
    return {'op': 'hist', 'geo': geo, 'scratch': scratch, 'steps': steps}


def generate(rng, tier):
    n_cases = 100 if tier == 'quick' else 2000
    for k in range(n_cases):
        yield gen_case(rng, tier)
        if k % 6 == 5:
            yield gen_relay(rng, tier)
    for k in range(2 if tier == 'quick' else 6):
        yield gen_large(rng, k)
    for k in range(4 if tier == 'quick' else 16):
        yield gen_narrow(rng, k)


# ------------------------------------------------------------------ implementation side
_CACHE = {}


def _key(c):
    return C.case_hash({k: v for k, v in c.items() if not k.startswith('_')})


def garbage(seed, shape):
    r = random.Random(seed)
    return np.array([[complex(r.randint(-9, 9), r.randint(-9, 9)) for _ in range(shape[1])] for _ in range(shape[0])],
                    dtype=complex)


def build_wavefront(lentil, st, geo, lam, tilt=True):
    """the public path: Wavefront(lambda) * Pupil(...) ; lam is the float wavelength to build it at"""
    amp = np.array([[complex(v[0], v[1]) for v in row] for row in st['amp']], dtype=complex)
    if not np.any(amp.imag):
        amp = amp.real.copy()
    n, m = amp.shape
    dx, z = float(Fraction(geo['dx'])), float(Fraction(geo['z']))
    opd = 0
    if st.get('opdk') is not None:
        opd = np.array(st['opdk'], dtype=float) * lam / st['Lp']
    kind = st.get('tilt', 'none') if tilt else 'none'
    if kind == 'fit':
        amp = np.abs(amp)          # Plane.fit_tilt needs a real amplitude
        rr, cc = np.mgrid[0:n, 0:m]
        opd = opd + (0.01 * rr + 0.02 * cc) * lam
    mask = None
    if st.get('seg'):
        s = st['seg']
        mask = np.zeros((2, n, m))
        mask[0, :, :s] = 1
        mask[1, :, s:] = 1
        nz = (amp != 0)
        mask[0] *= nz
        mask[1] *= nz
        if not mask[0].any() or not mask[1].any():
            mask = None
    dt = st.get('amp_dtype')
    scale = amp_scale(st)
    if scale != 1.0:
        amp = amp * scale
    if dt == 'masked':
        amp = np.ma.array(amp)
    elif dt == 'matrix':
        amp = np.matrix(amp)
    if dt == 'bool':
        amp = (amp != 0)
    elif dt == 'int' and not np.iscomplexobj(amp):
        amp = amp.astype(int)
    elif dt == 'float32' and not np.iscomplexobj(amp):
        amp = amp.astype(np.float32)
    image = st.get('plane') in ('image', 'none')
    if st.get('plane') == 'none':
        p = lentil.Plane(amplitude=amp, opd=opd, mask=mask, pixelscale=dx)
    elif image:
        p = lentil.Image(amplitude=amp, opd=opd, mask=mask, pixelscale=dx)
    else:
        p = lentil.Pupil(amplitude=amp, opd=opd, mask=mask, pixelscale=dx, focal_length=z)
    if kind == 'fit':
        p = p.fit_tilt()
    if tilt and st.get('ptilt'):
        # a tilt list on the plane itself: Plane.multiply hands tilt[n::size] to segment n
        p.tilt = [lentil.Tilt(x=1e-3 * (i + 1), y=-2e-3) for i in range(st['ptilt'])]
    kw = {'focal_length': z} if image else {}
    if kind == 'wavefront':
        w = lentil.Wavefront(lam, tilt=[1e-3, -2e-3], **kw)
    else:
        w = lentil.Wavefront(lam, **kw)
    w = w * p
    # explicit Fields appended to the wavefront (another aperture's beam), each with its own tilt list
    for e in st.get('extra') or []:
        data = np.array([[complex(v[0], v[1]) for v in row] for row in e['data']], dtype=complex) * scale
        nt = e.get('ntilt', 0) if tilt else 0
        w.data.append(lentil.field.Field(data=data, pixelscale=dx, offset=list(e['off']),
                                         tilt=[lentil.Tilt(x=2e-3, y=1e-3 * (i + 1)) for i in range(nt)]))
    # per-field tilt lists (lengths, possibly 0) written onto the fields the product created
    if tilt and st.get('ftilt'):
        for f, nt in zip(w.data, st['ftilt']):
            for i in range(nt):
                f.tilt.append(lentil.Tilt(x=-1e-3, y=3e-3 * (i + 1)))
    return w


def amp_scale(st):
    if st.get('amp_scale') and st.get('amp_dtype') in (None, 'float32', 'masked', 'matrix'):
        return 10.0 ** st['amp_scale']
    return 1.0


def arg_forms(st, du, os_):
    """the documented argument forms: scalar / tuple / list / array pixel scale, int / tuple / list / array shape"""
    f = st.get('du_form', 'auto')
    if du[0] != du[1] and f in ('auto', 'scalar'):
        f = 'tuple'
    if du[0] != du[1] and f in ('0d', 'one'):
        f = 'tuple'
    du_arg = {'auto': du[0], 'scalar': du[0], 'tuple': (du[0], du[1]), 'list': [du[0], du[1]],
              'array': np.array([du[0], du[1]]), '0d': np.array(du[0]), 'one': [du[0]]}[f]
    shape = st['shape']
    if shape is not None:
        g = st.get('shape_form', 'tuple')
        if g == 'int' and shape[0] == shape[1]:
            shape = int(shape[0])
        elif g == '0d' and shape[0] == shape[1]:
            shape = np.array(int(shape[0]))
        elif g == 'list':
            shape = [int(shape[0]), int(shape[1])]
        elif g == 'array':
            shape = np.array(shape)
        else:
            shape = (int(shape[0]), int(shape[1]))
    os_arg = np.int64(os_) if st.get('os_form') == 'npint' else os_
    return du_arg, shape, os_arg


def call(f, *a, **k):
    try:
        return f(*a, **k), None
    except Exception as e:        # noqa: the kind of exception is the observation
        return None, type(e).__name__


def exactify(v, Lp):
    """a sample as (re, im, p): v = (re + i im) * exp(2 pi i p / Lp) with integer re, im; None if it is not of that form"""
    for p in range(Lp):
        t = v * np.exp(-2j * np.pi * p / Lp)
        a, b = round(t.real), round(t.imag)
        if abs(t.real - a) < 1e-9 and abs(t.imag - b) < 1e-9:
            return (int(a), int(b), p)
    return None


def _forked(fn, arg):
    """evaluate fn(arg) in a forked child: the child starts from the freshly imported library (the parent never calls
    into lentil before forking), so state a call leaves behind in the library cannot leak from one case into the next
    and every failing case is a self-contained history"""
    import os
    import pickle
    import traceback
    if os.environ.get('VERIF_C09_NOFORK') == '1':
        return fn(arg)
    rfd, wfd = os.pipe()
    pid = os.fork()
    if pid == 0:
        try:
            os.close(rfd)
            try:
                data = pickle.dumps(('ok', fn(arg)))
            except BaseException:
                data = pickle.dumps(('err', traceback.format_exc()[-2000:]))
            with os.fdopen(wfd, 'wb') as fh:
                fh.write(data)
        finally:
            os._exit(0)
    os.close(wfd)
    with os.fdopen(rfd, 'rb') as fh:
        data = fh.read()
    os.waitpid(pid, 0)
    if not data:
        raise RuntimeError('the child process evaluating the case died')
    tag, val = pickle.loads(data)
    if tag == 'err':
        raise RuntimeError('evaluating the case failed:\n' + val)
    return val


def _run(c):
    k = _key(c)
    if k not in _CACHE:
        C.import_lentil()
        _CACHE[k] = _forked(_run_inner, c)
    return _CACHE[k]


def _run_inner(c):
    lentil = C.import_lentil()
    geo = c['geo']
    os_ = geo['os']
    dx = float(Fraction(geo['dx']))
    du = (float(Fraction(geo['du'][0])), float(Fraction(geo['du'][1])))
    du_arg = du[0] if du[0] == du[1] else du
    z = float(Fraction(geo['z']))
    iso = du[0] == du[1]
    lams = [float(Fraction(s['lam'])) for s in c['steps']]
    oss = [s.get('os', os_) for s in c['steps']]
    info = {'steps': [], 'iso': iso}
    # the shared scratch buffer: scratch_shape(all wavelengths) per oversampling factor used, the largest of them
    sc = c.get('scratch')
    scratch = None
    if sc is not None:
        adv = None
        for o in sorted(set(oss)):
            wl = [l for l, oo in zip(lams, oss) if oo == o]
            a, err = call(lentil.scratch_shape, wl if len(wl) > 1 or len(set(oss)) == 1 else wl[0], dx, du_arg, z, o)
            if a is None:
                adv = None
                break
            adv = [int(a[0]), int(a[1])] if adv is None else [max(adv[0], int(a[0])), max(adv[1], int(a[1]))]
        info['advertised'] = adv
        if adv is not None:
            shp = list(adv)
            if sc['kind'] == 'larger':
                shp = [shp[0] + sc['pad'][0], shp[1] + sc['pad'][1]]
            elif sc['kind'] == 'small':
                shp[sc['dim']] = max(1, shp[sc['dim']] - 1)
            scratch = garbage(sc['seed'], shp)
            info['scratch_shape'] = shp
    held = []
    for st, lam, os_ in zip(c['steps'], lams, oss):
        r = {'os': os_}
        du_call, shape_call, os_call = arg_forms(st, du, os_)
        w = build_wavefront(lentil, st, geo, lam)
        r['tilted'] = any(bool(f.tilt) for f in w.data)
        r['tilts'] = [len(f.tilt) for f in w.data]
        r['wshape'] = [int(w.shape[0]), int(w.shape[1])]
        sc_ = amp_scale(st)          # results are divided by the amplitude scale: all comparisons are relative to it
        r['fields'] = [{'data': np.array(f.data) / sc_, 'off': [int(f.offset[0]), int(f.offset[1])], 'ntilt': len(f.tilt)}
                       for f in w.data]
        r['wl'] = float(w.wavelength)
        r['wpix'] = [float(w.pixelscale[0]), float(w.pixelscale[1])]
        r['wz'] = float(w.focal_length)
        r['wptype'] = 1 if w.ptype == lentil.pupil else (2 if w.ptype == lentil.image else 0)
        # the call under test comes first: it must not depend on what was computed before it in this history
        use = st.get('use_scratch', True) and scratch is not None
        r['used_scratch'] = bool(use)
        shape = None if st['shape'] is None else tuple(st['shape'])
        es = st.get('errstate')
        if es:
            before = np.geterr()
            with np.errstate(all=es):
                inside = np.geterr()
                out, err = call(lentil.propagate_fft, w, du_call, shape=shape_call, oversample=os_call,
                                scratch=scratch if use else None)
                r['errstate_kept'] = (np.geterr() == inside)
            r['errstate_kept'] = bool(r['errstate_kept'] and np.geterr() == before)
        else:
            out, err = call(lentil.propagate_fft, w, du_call, shape=shape_call, oversample=os_call,
                            scratch=scratch if use else None)
        held.append((r, out, amp_scale(st)))
        # the grid the implementation uses: the full-grid call (on the same wavefront without its tilt metadata);
        # if that fails, the advertised scratch shape
        full, ferr = call(lentil.propagate_fft, build_wavefront(lentil, st, geo, lam, tilt=False), du_arg, shape=None,
                          oversample=os_)
        adv1, _ = call(lentil.scratch_shape, lam, dx, du_arg, z, os_)
        r['adv1'] = None if adv1 is None else [int(adv1[0]), int(adv1[1])]
        if full is not None:
            r['N'] = [int(full.shape[0]), int(full.shape[1])]
            r['full_wl'] = float(full.wavelength)
        else:
            r['N'] = r['adv1']
            r['full_err'] = ferr
        if err:
            r['err'] = err
        else:
            r['shape'] = [int(out.shape[0]), int(out.shape[1])]
            r['wavelength'] = float(out.wavelength)
            r['pixelscale'] = [float(out.pixelscale[0]), float(out.pixelscale[1])]
            r['ptype'] = 2 if out.ptype == lentil.image else (1 if out.ptype == lentil.pupil else 0)
            r['field'] = np.array(out.field) / sc_
            # the same call without scratch and with a fresh buffer of exactly the advertised shape
            o2, e2 = call(lentil.propagate_fft, build_wavefront(lentil, st, geo, lam), du_arg, shape=shape, oversample=os_)
            r['plain'] = e2 if e2 else np.array(o2.field) / sc_
            if r['adv1'] is not None:
                buf = garbage(12345, r['adv1'])
                o3, e3 = call(lentil.propagate_fft, build_wavefront(lentil, st, geo, lam), du_arg, shape=shape,
                              oversample=os_, scratch=buf)
                r['exact'] = e3 if e3 else np.array(o3.field) / sc_
            # DFT propagation of the same complex field at the reported wavelength
            if True:
                w2 = build_wavefront(lentil, st, geo, r['wavelength'])
                if shape is None:
                    # the full grid may not be a multiple of the oversampling factor: same sampling, oversample 1
                    d, e4 = call(lentil.propagate_dft, w2, (du[0] / os_, du[1] / os_), shape=tuple(r['N']), oversample=1)
                else:
                    d, e4 = call(lentil.propagate_dft, w2, du_arg, shape=shape, oversample=os_)
                r['dft'] = e4 if e4 else np.array(d.field) / sc_
        info['steps'].append(r)
    # every result was held while the later calls of the history ran: it must still be what it was
    for r, out, sc_h in held:
        if out is not None and 'field' in r:
            r['held_ok'] = bool(np.array_equal(np.array(out.field) / sc_h, r['field']))
    return info


def brief(a):
    return a if isinstance(a, str) or a is None else np.asarray(a).tolist()


def run_impl_hist(c):
    info = _run(c)
    out = {'iso': info['iso'], 'advertised': info.get('advertised'), 'scratch_shape': info.get('scratch_shape'), 'steps': []}
    for r in info['steps']:
        d = {k: r.get(k) for k in ('tilted', 'tilts', 'os', 'N', 'adv1', 'used_scratch', 'err', 'shape', 'wavelength',
                                   'pixelscale', 'ptype', 'wshape', 'wptype', 'full_err', 'full_wl', 'errstate_kept', 'held_ok')}
        for k in ('field', 'plain', 'exact', 'dft'):
            if k in r:
                d[k] = r[k]
        out['steps'].append(d)
    return out


# ------------------------------------------------------------------ model side
def case_L(c, info):
    L = 1
    for st, r in zip(c['steps'], info['steps']):
        if r['N'] is None:
            return None
        L = lcm(L, lcm(max(1, r['N'][0]), max(1, r['N'][1])))
        L = lcm(L, st['Lp'])
    return L


def encode(c):
    if c.get('op') in ('relay', 'large'):
        return None          # float samples / sizes beyond the exact model: decided by the oracle alone
    try:
        info = _run(c)
    except Exception:
        return None          # run_impl will raise the same error and the runner reports it
    L = case_L(c, info)
    if L is None or L > 200:
        return None
    geo = c['geo']
    os_ = geo['os']
    out = [1, L]
    if info.get('scratch_shape') is not None and c['scratch'] is not None:
        g = garbage(c['scratch']['seed'], info['scratch_shape'])
        out += [1, g.shape[0], g.shape[1]]
        for v in g.ravel():
            out += [int(v.real), 1, int(v.imag), 1]
    else:
        out += [0]
    out += [len(c['steps'])]
    for st, r in zip(c['steps'], info['steps']):
        N = r['N']
        if N[0] <= 0 or N[1] <= 0:
            return None
        if len(st['amp']) > N[0] or len(st['amp'][0]) > N[1]:
            return None            # pupil larger than the grid: outside the regime the property speaks about
        out += [N[0], N[1], len(r['fields'])]
        for f in r['fields']:
            d = f['data']
            if d.ndim != 2:
                return None
            out += [d.shape[0], d.shape[1]]
            for v in d.ravel():
                if r['tilted']:
                    e = (1, 0, 0)          # a refused wavefront: the sample values play no role
                else:
                    e = exactify(complex(v), st['Lp'])
                    if e is None:
                        return None        # not the exact regime (only possible if Plane.multiply changed)
                out += [e[0], 1, e[1], 1, (-e[2] * (L // st['Lp'])) % L]
            out += [f['off'][0], f['off'][1], f['ntilt']]
        out += [r['wshape'][0], r['wshape'][1]] + C.enc_q(r['wl']) + C.enc_q(r['wpix'][0]) + C.enc_q(r['wpix'][1])
        out += C.enc_q(r['wz']) + [r['wptype']]
        out += C.enc_q(float(Fraction(geo['du'][0]))) + C.enc_q(float(Fraction(geo['du'][1])))
        out += [0] if st['shape'] is None else [1, st['shape'][0], st['shape'][1]]
        out += [st.get('os', os_), 1 if r['used_scratch'] else 0]
    return out


def decode(c, ints):
    info = _run(c)
    L = case_L(c, info)
    rd = C.Reader(ints, L)
    assert rd.z() == 0
    n = rd.z()
    steps = []
    for k in range(n):
        N = info['steps'][k]['N']
        st = rd.z()
        if st == 1:
            steps.append({'err': C.ERRNAMES[rd.z()]})
            continue
        d = {'shape': [rd.z(), rd.z()], 'wavelength': rd.q(), 'pixelscale': [rd.q(), rd.q()], 'ptype': rd.z()}
        if rd.z() == 1:
            d['field_err'] = C.ERRNAMES[rd.z()]
        else:
            scale = 1.0 / math.sqrt(N[0] * N[1])
            a = rd.arr()
            d['field'] = np.array([[C.kval(v, L) * scale for v in row] for row in a], dtype=complex).reshape(
                len(a), len(a[0]) if a else 0)
        steps.append(d)
    assert rd.done()
    return {'steps': steps}


def arr_close(a, b, tol=TOL):
    a = np.asarray(a, dtype=complex)
    b = np.asarray(b, dtype=complex)
    if a.shape != b.shape:
        return f'shapes differ: {a.shape} vs {b.shape}'
    if a.size == 0:
        return None
    d = np.max(np.abs(a - b))
    if not d <= tol * (1 + np.max(np.abs(b))):
        i = np.unravel_index(np.argmax(np.abs(a - b)), a.shape)
        return f'max difference {d:.3g} at index {tuple(int(x) for x in i)}: {a[i]} vs {b[i]}'
    return None


def rel_close(x, y, tol=1e-12):
    return abs(x - y) <= tol * max(abs(x), abs(y), 1e-300)


def compare(c, impl, model):
    for k, (ri, rm) in enumerate(zip(impl['steps'], model['steps'])):
        ei, em = ri.get('err'), rm.get('err')
        if ei or em:
            if ei != em:
                return f'call {k}: implementation {ei or "returned a value"}, model {em or "returned a value"}'
            continue
        if 'field_err' in rm:
            return f'call {k}: the model cannot render the result ({rm["field_err"]})'
        if ri['shape'] != rm['shape']:
            return f'call {k}: output shape {ri["shape"]} vs model {rm["shape"]}'
        if not rel_close(ri['wavelength'], float(rm['wavelength'])):
            return f'call {k}: reported wavelength {ri["wavelength"]!r} vs model {float(rm["wavelength"])!r}'
        if not (rel_close(ri['pixelscale'][0], float(rm['pixelscale'][0])) and
                rel_close(ri['pixelscale'][1], float(rm['pixelscale'][1]))):
            return f'call {k}: output pixelscale {ri["pixelscale"]} vs model {[float(x) for x in rm["pixelscale"]]}'
        if ri['ptype'] != rm['ptype']:
            return f'call {k}: output plane type code {ri["ptype"]} vs model {rm["ptype"]}'
        msg = arr_close(ri['field'], rm['field'])
        if msg:
            return f'call {k}: field differs from the model: {msg}'
    return None


# ------------------------------------------------------------------ direct oracle (no model)
def pupil_dims(st):
    return len(st['amp']), len(st['amp'][0])


def oracle_hist(c, impl):
    geo = c['geo']
    os_ = geo['os']
    iso = impl['iso']
    sshape = impl.get('scratch_shape')
    os_case = geo['os']
    for k, (st, r) in enumerate(zip(c['steps'], impl['steps'])):
        os_ = st.get('os', os_case)
        err = r.get('err')
        if r['tilted']:
            if err != 'NotImplementedError':
                return (f'call {k}: a wavefront carrying tilt metadata (lengths of the tilt lists of its fields: '
                        f'{r.get("tilts")}; built with tilt={st.get("tilt")}, ptilt={st.get("ptilt")}, ftilt={st.get("ftilt")}, '
                        f'extra fields {[e.get("ntilt", 0) for e in st.get("extra") or []]}) was not refused with '
                        f'NotImplementedError (got {err or "a result"})')
            continue
        if r.get('wptype') == 0:
            if err != 'TypeError':
                return (f'call {k}: a wavefront that is neither in a pupil nor in an image plane (lentil.Plane) was not refused '
                        f'with TypeError (got {err or "a result"})')
            continue
        N = r['N']
        if N is None:
            return f'call {k}: neither the full-grid call nor scratch_shape works ({r.get("full_err")})'
        n, m = pupil_dims(st)
        if N[0] < n or N[1] < m:
            continue        # pupil larger than the grid the implementation chose: outside the regime the property speaks about
        if r.get('full_err'):
            return f'call {k}: propagate_fft(shape=None) raised {r["full_err"]}'
        if iso and r.get('full_wl') is not None:
            dx, du, z = float(Fraction(geo['dx'])), float(Fraction(geo['du'][0])), float(Fraction(geo['z']))
            inv_alpha = r['full_wl'] * z * os_ / (dx * du)
            if N[0] != N[1] or not rel_close(inv_alpha, N[0], 1e-12):
                return (f'call {k}: propagate_fft(shape=None, oversample={os_}) reports wavelength {r["full_wl"]!r}, which gives '
                        f'1/alpha = {inv_alpha!r}, but its grid is {N}')
        shape = st['shape']
        too_large = shape is not None and (shape[0] * os_ > N[0] or shape[1] * os_ > N[1])
        if too_large:
            if err != 'ValueError':
                return (f'call {k}: output shape {shape} x oversample {os_} exceeds the grid {N} but was not refused '
                        f'with ValueError (got {err or "a result"})')
            continue
        adv = impl.get('advertised')
        if c.get('scratch') and adv is not None and (adv[0] < N[0] or adv[1] < N[1]):
            return (f'call {k}: scratch_shape(all wavelengths of the history) = {adv} is smaller than the grid {N} '
                    f'propagate_fft uses at wavelength {st["lam"]}')
        if r['used_scratch'] and (sshape[0] < N[0] or sshape[1] < N[1]):
            if err != 'ValueError':
                return (f'call {k}: scratch of shape {sshape} is smaller than the grid {N} but was not refused with '
                        f'ValueError (got {err or "a result"})')
            continue
        if err:
            what = 'with a sufficient scratch buffer ' if r['used_scratch'] else ''
            if r['used_scratch'] and c['scratch']['kind'] == 'exact':
                what = f'with a scratch buffer of exactly scratch_shape(all wavelengths) = {sshape} '
            return f'call {k}: an acceptable call {what}(grid {N}, shape {shape}, oversample {os_}) raised {err}'
        if r.get('errstate_kept') is False:
            return f'call {k}: propagate_fft changed the caller\'s numpy error state (np.errstate(all={st.get("errstate")!r}))'
        if r.get('held_ok') is False:
            return f'call {k}: the field of its result changed while later calls of the history ran (the result shares memory with library state)'
        want = list(N) if shape is None else [shape[0] * os_, shape[1] * os_]
        if r['shape'] != want or list(np.asarray(r['field']).shape) != want:
            return f'call {k}: output shape {r["shape"]} (field {list(np.asarray(r["field"]).shape)}), expected {want}'
        # scratch transparency
        if isinstance(r.get('plain'), str):
            return f'call {k}: the same call without scratch raised {r["plain"]}'
        if r['used_scratch']:
            msg = arr_close(r['field'], r['plain'], 1e-12)
            if msg:
                return (f'call {k}: result with the scratch buffer (shape {sshape}, dirty) differs from the result '
                        f'without: {msg}')
        if r.get('adv1') is not None:
            if isinstance(r.get('exact'), str):
                return (f'call {k}: a scratch buffer of exactly the advertised scratch_shape {r["adv1"]} was refused '
                        f'({r["exact"]}); grid {N}')
            msg = arr_close(r['exact'], r['plain'], 1e-12)
            if msg:
                return f'call {k}: result with a scratch buffer of exactly scratch_shape {r["adv1"]} differs: {msg}'
        else:
            return f'call {k}: scratch_shape raised'
        dx, z = float(Fraction(geo['dx'])), float(Fraction(geo['z']))
        if not iso:
            # anisotropic output pixels: one wavelength serves both axes only if N0 dx du0 = N1 dx du1 (true whenever the
            # ideal grid is whole on both axes, theorem C09_fft_equals_dft_anisotropic); otherwise only the shape and
            # refusal behaviour above and the model tie are checked (the documented restriction)
            inv = [r['wavelength'] * z * os_ / (dx * float(Fraction(geo['du'][a]))) for a in (0, 1)]
            if not (rel_close(inv[0], N[0], 1e-12) and rel_close(inv[1], N[1], 1e-12)):
                if not (rel_close(inv[0], N[0], 1e-12) or rel_close(inv[1], N[1], 1e-12)):
                    return (f'call {k}: reported wavelength {r["wavelength"]!r} gives 1/alpha = {inv} - neither axis of the '
                            f'grid {N}')
                continue
        else:
            # the reported wavelength gives alpha = 1/N
            du = float(Fraction(geo['du'][0]))
            inv_alpha = r['wavelength'] * z * os_ / (dx * du)
            if N[0] != N[1] or not rel_close(inv_alpha, N[0], 1e-12):
                return (f'call {k}: reported wavelength {r["wavelength"]!r} gives 1/alpha = {inv_alpha!r}, the grid is {N}')
        # FFT == DFT at the reported wavelength (pupil no larger than the grid)
        n, m = pupil_dims(st)
        if n > N[0] or m > N[1]:
            continue
        if isinstance(r.get('dft'), str):
            return f'call {k}: propagate_dft at the reported wavelength raised {r["dft"]}'
        msg = arr_close(r['field'], r['dft'])
        if msg:
            return (f'call {k}: propagate_fft differs from propagate_dft at the reported wavelength {r["wavelength"]!r} '
                    f'({st.get("plane", "pupil")}-plane array {n}x{m}, grid {N}, shape {shape}, oversample {os_}, scratch {r["used_scratch"]}): {msg}')
    return None


def nontrivial(c):
    if c.get('op') in ('relay', 'large'):
        return True
    try:
        info = _run(c)
    except Exception:
        return False
    for st, r in zip(c['steps'], info['steps']):
        n, m = pupil_dims(st)
        if not r.get('err') and r['N'] and r['N'][0] > max(n, m) and n >= 2 and m >= 2:
            return True
    return False


def classify(c):
    if c.get('op') == 'relay':
        return 'relay/' + c['second']['via'] + '/' + c['second']['scratch']
    if c.get('op') == 'large':
        return 'large'
    sc = c['scratch']['kind'] if c.get('scratch') else 'noscratch'
    tags = set()
    try:
        info = _run(c)
        for st, r in zip(c['steps'], info['steps']):
            if r.get('err'):
                tags.add(r['err'])
            elif r['N']:
                tags.add('Nodd' if r['N'][0] % 2 else 'Neven')
    except Exception:
        pass
    return ('SI/' if c['geo'].get('units') == 'SI' else '') + f'{sc}/{len(c["steps"])}call/' + '+'.join(sorted(tags))


# ------------------------------------------------------------------ labelled tests that do not fit the case protocol
def extra(tier, rng):
    """How often the implementation's grid equals the model's round_half_even(1/alpha) on exact rationals.  Reported only:
    the property pins the wavelength the propagator reports, not the rounding rule."""
    lentil = C.import_lentil()
    binp = C.build_model(MODEL)
    rows, encs = [], []
    for _ in range(60 if tier == 'quick' else 400):
        os_ = rng.choice([1, 2, 3])
        dx = Fraction(rng.choice([1, 2, 4]), rng.choice([1, 2, 4]))
        du = Fraction(rng.choice([1, 2, 4]), rng.choice([1, 2, 8]))
        z = Fraction(rng.choice([1, 2, 4]), rng.choice([1, 2]))
        lam = Fraction(rng.randint(8, 200), rng.choice([3, 4, 5, 7, 8, 16]))
        rows.append((os_, dx, du, z, lam))
        encs.append([2] + C.enc_q(float(dx)) * 2 + C.enc_q(float(du)) * 2 + C.enc_q(float(z)) + [1] + C.enc_q(float(lam)) + [os_])
    outs = C.run_model(binp, encs)
    agree = 0
    wl_ok = 0
    for (os_, dx, du, z, lam), o in zip(rows, outs):
        try:
            N = lentil.scratch_shape(float(lam), float(dx), float(du), float(z), os_)
        except Exception:
            continue
        if o[0] == 0 and [int(N[0]), int(N[1])] == [o[1], o[2]]:
            agree += 1
    return {'report': {'grid_equals_round_half_even': f'{agree}/{len(rows)}',
                       'note': 'informational: the grid size is read from the implementation in every compared case'},
            'violations': []}



# ------------------------------------------------------------------ second leg of a relay (oracle only: float samples)
def gen_relay(rng, tier):
    """pupil -> image by propagate_fft, then that image-plane wavefront back to a pupil: with and without scratch, against
    propagate_dft of the same wavefront"""
    os_ = rng.choice([1, 2, 2, 3])
    geo = {'dx': rng.choice(['1', '1/2', '2']), 'du': [rng.choice(['1', '1/2', '1/4'])] * 2, 'z': rng.choice(['1', '2', '1/2']),
           'os': os_}
    if rng.random() < 0.3:
        geo = {'dx': '1/100', 'du': ['1/100000', '1/100000'], 'z': '1', 'os': os_, 'units': 'SI'}
    st = gen_step(rng, geo, 6, 10)
    N = st['_N']
    for k in ('_N', '_delta', 'ftilt', 'ptilt', 'plane', 'shape_form', 'du_form', 'os_form'):
        st.pop(k, None)
    st['tilt'] = 'none'
    for e in st.get('extra') or []:
        e['ntilt'] = 0
    maxs = max(1, N // os_)
    st['shape'] = None if rng.random() < 0.3 else [rng.randint(1, maxs), rng.randint(1, maxs)]
    os2 = rng.choice([1, 1, 2])
    s2 = None if rng.random() < 0.2 else [rng.randint(1, min(N, 8)), rng.randint(1, min(N, 8))]
    return {'op': 'relay', 'geo': geo, 'first': st,
            'second': {'os': os2, 'shape': s2, 'scratch': rng.choice(['exact', 'larger']), 'seed': rng.randint(0, 10 ** 6),
                       'via': rng.choice(['direct', 'direct', 'image'])}}


def _run_relay(c):
    import copy
    lentil = C.import_lentil()
    geo, st, sec = c['geo'], c['first'], c['second']
    dx, z = float(Fraction(geo['dx'])), float(Fraction(geo['z']))
    du = float(Fraction(geo['du'][0]))
    w = build_wavefront(lentil, st, geo, float(Fraction(st['lam'])))
    shape1 = None if st['shape'] is None else tuple(st['shape'])
    o, e = call(lentil.propagate_fft, w, du, shape=shape1, oversample=geo['os'])
    if e:
        return {'first_err': e}
    r = {'first_shape': [int(o.shape[0]), int(o.shape[1])], 'first_data': [list(f.data.shape) for f in o.data],
         'cropped': any(f.data.shape[0] > o.shape[0] or f.data.shape[1] > o.shape[1] for f in o.data)}
    if sec['via'] == 'image':
        win = lentil.Wavefront(o.wavelength, focal_length=o.focal_length) * lentil.Image(amplitude=np.array(o.field),
                                                                                         pixelscale=float(o.pixelscale[0]))
    else:
        win = o
    os2 = sec['os']
    shape2 = None if sec['shape'] is None else tuple(sec['shape'])
    N2, e = call(lentil.scratch_shape, win.wavelength, win.pixelscale, dx, win.focal_length, os2)
    if e:
        return dict(r, second_err='scratch_shape: ' + e)
    N2 = [int(N2[0]), int(N2[1])]
    r['N2'] = N2
    r['in_pix'] = float(win.pixelscale[0])
    a, ea = call(lentil.propagate_fft, copy.deepcopy(win), dx, shape=shape2, oversample=os2)
    shp = N2 if sec['scratch'] == 'exact' else [N2[0] + 2, N2[1] + 1]
    b, eb = call(lentil.propagate_fft, copy.deepcopy(win), dx, shape=shape2, oversample=os2, scratch=garbage(sec['seed'], shp))
    # propagate_dft of the same complex image-plane field (for the direct route: everything the Field holds) at the
    # wavelength the FFT result reports
    rep = a if not ea else b
    if rep is None:
        d, ed = None, 'no FFT result to take the reported wavelength from'
    else:
        full = np.array(o.data[0].data) if sec['via'] == 'direct' and len(o.data) == 1 else np.array(o.field)
        wd = lentil.Wavefront(float(rep.wavelength), focal_length=win.focal_length) * lentil.Image(
            amplitude=full, pixelscale=float(win.pixelscale[0]))
        if shape2 is None:
            d, ed = call(lentil.propagate_dft, wd, dx / os2, shape=tuple(N2), oversample=1)
        else:
            d, ed = call(lentil.propagate_dft, wd, dx, shape=shape2, oversample=os2)
    r['a'] = ea if ea else np.array(a.field)
    r['b'] = eb if eb else np.array(b.field)
    r['d'] = ed if ed else np.array(d.field)
    if not ea:
        r['a_ptype'] = 1 if a.ptype == lentil.pupil else 2
        r['a_wl'] = float(a.wavelength)
        r['in_wl'] = float(win.wavelength)
    return r


def oracle_relay(c, impl, skip_known=False):
    if 'first_err' in impl:
        return None                  # the first leg is the subject of the other cases
    sec = c['second']
    if 'second_err' in impl:
        return f'second leg: {impl["second_err"]}'
    what = f'(first leg {impl["first_shape"]} of grid {impl["first_data"]}, input via {sec["via"]}, shape {sec["shape"]}, oversample {sec["os"]})'
    N2 = impl['N2']
    size_in = impl['first_data'][0] if sec['via'] == 'direct' and len(impl['first_data']) == 1 else impl['first_shape']
    if size_in[0] > N2[0] or size_in[1] > N2[1]:
        return None                  # input array larger than the grid the implementation chose: outside the regime
    if sec['shape'] is not None and (sec['shape'][0] * sec['os'] > N2[0] or sec['shape'][1] * sec['os'] > N2[1]):
        for k in ('a', 'b'):
            if impl[k] != 'ValueError':
                return f'second leg of a relay {what}: a shape larger than the grid {N2} was not refused with ValueError'
        return None
    for k, name in (('a', 'propagate_fft without scratch'), ('b', 'propagate_fft with scratch'), ('d', 'propagate_dft')):
        if isinstance(impl[k], str):
            return f'second leg of a relay {what}: {name} raised {impl[k]}'
    if impl.get('a_ptype') != 1:
        return f'second leg of a relay {what}: an image-plane wavefront did not propagate to a pupil-plane one'
    msg = arr_close(impl['b'], impl['d'])
    if msg:
        return f'second leg of a relay {what}: propagate_fft with a scratch buffer differs from propagate_dft: {msg}'
    z, dx = float(Fraction(c['geo']['z'])), float(Fraction(c['geo']['dx']))
    inv_alpha = impl['a_wl'] * z * sec['os'] / (impl['in_pix'] * dx)
    if not rel_close(inv_alpha, impl['N2'][0], 1e-12):
        return f'second leg of a relay {what}: reported wavelength {impl["a_wl"]!r} gives 1/alpha = {inv_alpha!r}, the grid is {impl["N2"]}'
    msg = arr_close(impl['a'], impl['d'])
    if msg:
        if impl['cropped'] and sec['via'] == 'direct' and skip_known:
            return None          # (recognition of finding C09-relay-field-exceeds-shape, repaired by 1b12b57; unused since)
        return (f'second leg of a relay {what}: propagate_fft without scratch differs from propagate_dft and from '
                f'propagate_fft with scratch: {msg}')
    return None


# ------------------------------------------------------------------ large grids (oracle only)
def gen_large(rng, k):
    n, m = [(1001, 37), (40, 1025), (700, 700), (1003, 5), (33, 1100), (512, 1024)][k % 6]
    N = max(n, m) + rng.choice([6, 30, 31])
    return {'op': 'large', 'n': n, 'm': m, 'N': N, 'delta': rng.choice(['0', '3/10', '-1/4']), 'os': rng.choice([1, 2]),
            'shape': [rng.randint(2, 9), rng.randint(2, 9)], 'seed': rng.randint(0, 10 ** 6), 'cplx': rng.random() < 0.5}


def gen_narrow(rng, k):
    """shape or oversample given in a small-width integer dtype whose range the product shape*oversample leaves:
    the arithmetic must not wrap (same result as with Python ints)"""
    dt, lo, hi = [('uint8', 128, 140), ('int8', 64, 90), ('uint8', 86, 100), ('uint16', 3, 9)][k % 4]
    os_ = 3 if (k % 4) == 2 else 2
    s = [rng.randint(lo, hi), rng.randint(lo, hi)]
    if rng.random() < 0.3:
        s[1] = s[0]
    which = 'shape' if k % 4 != 3 else 'os'
    c = {'op': 'large', 'n': rng.randint(3, 9), 'm': rng.randint(3, 9), 'N': max(s) + rng.randint(0, 7), 'delta': rng.choice(['0', '3/10']),
         'os': os_, 'shape': s, 'seed': rng.randint(0, 10 ** 6), 'cplx': rng.random() < 0.5}
    if which == 'shape':
        c['shape_dtype'] = dt
        c['shape_form'] = rng.choice(['array', 'array', 'list', 'scalar'] if s[0] == s[1] else ['array', 'array', 'list'])
    else:
        c['os_dtype'] = rng.choice(['uint8', 'int8', 'uint16', 'int16'])
        c['shape'] = [rng.randint(100, 140), rng.randint(100, 140)]
        c['N'] = max(c['shape']) + rng.randint(0, 7)
    return c


def _run_large(c):
    lentil = C.import_lentil()
    g = np.random.default_rng(c['seed'])
    amp = g.integers(-3, 4, size=(c['n'], c['m'])).astype(float)
    if c['cplx']:
        amp = amp + 1j * g.integers(-3, 4, size=(c['n'], c['m']))
    amp[0, 0] = amp[-1, -1] = amp[0, -1] = amp[-1, 0] = 1
    os_ = c['os']
    lam = float((c['N'] * os_ + Fraction(c['delta'])) / os_)        # dx = du = z = 1: 1/alpha = lam * os
    mk = lambda wl: lentil.Wavefront(wl) * lentil.Pupil(amplitude=amp, pixelscale=1.0, focal_length=1.0)
    shape = tuple(c['shape'])
    r = {}
    shape_arg, os_arg = shape, os_
    if c.get('shape_dtype'):
        t = np.dtype(c['shape_dtype']).type
        f = c.get('shape_form', 'array')
        shape_arg = (np.array(shape, dtype=c['shape_dtype']) if f == 'array' else
                     [t(shape[0]), t(shape[1])] if f == 'list' else t(shape[0]))
    if c.get('os_dtype'):
        os_arg = np.dtype(c['os_dtype']).type(os_)
    a, ea = call(lentil.propagate_fft, mk(lam), 1.0, shape=shape_arg, oversample=os_arg)
    if ea:
        return {'err': ea}
    Ns, _ = call(lentil.scratch_shape, lam, 1.0, 1.0, 1.0, os_)
    r['N'] = [int(Ns[0]), int(Ns[1])]
    buf = np.full(tuple(r['N']), 3 - 2j)
    b, eb = call(lentil.propagate_fft, mk(lam), 1.0, shape=shape_arg, oversample=os_arg, scratch=buf)
    d, ed = call(lentil.propagate_dft, mk(float(a.wavelength)), 1.0, shape=shape, oversample=os_)
    r['wl'] = float(a.wavelength)
    r['a'] = np.array(a.field)
    r['b'] = eb if eb else np.array(b.field)
    r['d'] = ed if ed else np.array(d.field)
    return r


def oracle_large(c, impl):
    what = f'pupil {c["n"]}x{c["m"]}, 1/alpha = {c["N"] * c["os"]} + {c["delta"]}, oversample {c["os"]}, shape {c["shape"]}'
    if c.get('shape_dtype'):
        what += f' given as {c["shape_dtype"]} {c.get("shape_form", "array")}'
    if c.get('os_dtype'):
        what += f', oversample given as numpy {c["os_dtype"]}'
    if 'err' in impl:
        return f'large grid ({what}): propagate_fft raised {impl["err"]}'
    for k, name in (('b', 'propagate_fft with scratch'), ('d', 'propagate_dft')):
        if isinstance(impl[k], str):
            return f'large grid ({what}): {name} raised {impl[k]}'
    inv_alpha = impl['wl'] * c['os']
    if not rel_close(inv_alpha, impl['N'][0], 1e-12):
        return f'large grid ({what}): reported wavelength {impl["wl"]!r} gives 1/alpha = {inv_alpha!r}, the grid is {impl["N"]}'
    msg = arr_close(impl['a'], impl['d'])
    if msg:
        return f'large grid ({what}, grid {impl["N"]}): propagate_fft differs from propagate_dft at the reported wavelength: {msg}'
    msg = arr_close(impl['b'], impl['a'], 1e-12)
    if msg:
        return f'large grid ({what}, grid {impl["N"]}): a dirty scratch buffer of exactly scratch_shape changes the result: {msg}'
    return None


# ------------------------------------------------------------------ dispatch over the case kinds
def _run_other(c):
    k = _key(c)
    if k not in _CACHE:
        C.import_lentil()
        _CACHE[k] = _forked(_run_relay if c['op'] == 'relay' else _run_large, c)
    return _CACHE[k]


def run_impl(c):
    if c.get('op') in ('relay', 'large'):
        return _run_other(c)
    return run_impl_hist(c)


def oracle(c, impl):
    if c.get('op') == 'relay':
        return oracle_relay(c, impl)
    if c.get('op') == 'large':
        return oracle_large(c, impl)
    return oracle_hist(c, impl)


KNOWN_RELAY = 'C09-relay-field-exceeds-shape'


def known_match(f, c, impl):
    if f['id'] == KNOWN_RELAY:
        return (c.get('op') == 'relay' and c['second']['via'] == 'direct' and bool(impl.get('cropped'))
                and oracle_relay(c, impl, skip_known=True) is None)
    return False


def replay_known(f):
    if f['id'] == KNOWN_RELAY:
        c = {'op': 'relay', 'geo': {'dx': '1', 'du': ['1', '1'], 'z': '1', 'os': 2},
             'first': {'amp': [[[i * 4 + j + 1, 0] for j in range(4)] for i in range(4)], 'lam': '8', 'Lp': 1, 'opdk': None,
                       'seg': None, 'tilt': 'none', 'shape': [3, 3], 'use_scratch': False},
             'second': {'os': 1, 'shape': [4, 4], 'scratch': 'exact', 'seed': 1, 'via': 'direct'}}
        impl = _forked(_run_relay, c)
        return oracle_relay(c, impl) is not None and oracle_relay(c, impl, skip_known=True) is None
    return False


# ------------------------------------------------------------------ WP-T2: translation layer (source -> Gallina)
# An ADDITIONAL tie: harness/gen_src.py (suite 'C09') translates the integer shape checks of lentil/propagate.py:propagate_fft from the CURRENT source
# text into coq/theories/Gen/FftSrc.v; Proofs/FftSrcP.v proves every translated term equal to the model for all integers;
# Properties/C09Src.v states it.  Policy (as for C06): a function the translator refuses is only reported
# (coverage.extra.source_translation.refused); a translated function whose equivalence lemma no longer compiles is a
# VIOLATION with a witness searched on an exhaustive small box (replayable: op 'src').  The build of C09Src happens
# here, never in COQ_TARGETS.  The checks of the `extra` defined above are kept unchanged; their report is extended.
_extra_before_src_layer = extra


def extra(tier, rng):
    from .. import gen_src as G
    try:
        base = _extra_before_src_layer(tier, rng)
    except Exception as e:          # keep the translation layer's verdict when the other checks cannot even run
        import traceback
        base = {'report': {'error': traceback.format_exc()[-800:]},
                'violations': [{'case': None, 'impl': None,
                                'what': f'extra: the checks preceding the translation layer raised {type(e).__name__}: {e}'}]}
    layer = G.run_layer('C09', ID, tier, rng, C)
    report = dict(base.get('report', {}))
    report['source_translation'] = layer['report']
    return {'report': report, 'violations': list(base.get('violations', [])) + layer['violations']}


def _wrap_src_replay():
    from .. import gen_src as G
    return G.wrap_replay(run_impl, oracle, C)


run_impl, oracle = _wrap_src_replay()
