"""C13 - Spectrum arithmetic is pointwise, commutative and unit-agnostic."""
import math
import operator
from fractions import Fraction

import numpy as np

from .. import common as C

ID = 'C13'
MODEL = 'c13'
RUNFUN = 'run'
COQ_TARGETS = ['theories/Properties/C13.vo', 'theories/Extract/RunC13.vo', 'theories/Properties/ChainRadiometry.vo']
EXTRA_PROPERTIES = ['ChainRadiometry']   # cross-package composition theorems of the radiometry chain (C13 o C15, C13 o C15 o C14)
DESIGN_REF = 'DESIGN.md section 6, C13'
TECHNIQUE = ('Coq proof on exact rationals (common grid, pointwise values against a separately stated piecewise-linear '
             'interpolant, commutativity, unit rescaling) about an executable model of Spectrum._ufunc/_interp_common/'
             'sample/to + execution of the extracted model against lentil.radiometry.Spectrum (equality of rationals in '
             'the exact-float regime) + brute-force Fraction oracle on the implementation')
LEVEL_TEXT = ('Theorems in coq/theories/Properties/C13.v for all well-formed spectra (any lengths, uniform or not), the five '
              'operators, the four sampling modes, scalar and pair fill values and all 16 wave-unit pairs, for LINEAR '
              'interpolation: the result grid is linspace(min, max, ceil(range/dwave)+1) with dwave the finer/left/right/'
              'requested sampling and step <= dwave; every value is op(S1(l_i), S2(l_i)) with S the piecewise-linear '
              'interpolant (stated separately, shown total and unique, and equal to the model\'s interp1d) and the fill value '
              'outside; a+b = b+a and a*b = b*a (also across units); scalar/vector operands act element-wise on the unchanged '
              'grid; re-expressing both operands in other wavelength units rescales the grid by the unit factor and leaves the '
              'values unchanged (valueunit None), resp. divides them by it (density +- density, density */ unitless with fill 0). '
              'The model is extracted and compared with lentil on every run.')
LEVEL_NOTE = ('Quadratic/cubic interpolation are scipy splines: not modelled, compared against scipy directly (labelled test). '
              'Decimal unit factors (1e-3 ...) are exact rationals in the model; where one enters, floats are compared to '
              '1e-12 relative (scaled by the conditioning of the operator) and grid points within 1e-9 of an operand range end '
              'are not compared (the specification is discontinuous there); numpy.power is a vectorised approximation and is '
              'compared to 1e-13. Known finding: in floating point a unit conversion can add one sample when range/sampling is an integer '
              '(C13-float-sample-count). Products/powers of two density-valued spectra are not unit-covariant and not claimed. '
              'Operand immutability and "new object" are checked on the implementation only (trivial in a pure model); '
              'reflected forms other than __rmul__ do not exist (TypeError), which the property does not pin.')
TRUSTED = ['Coq 8.16.1 kernel (coqc; coqchk in the thorough tier)',
           'extraction with ExtrOcamlBasic only; ocaml/driver.ml',
           'harness/props/c13.py: case codec, float-exactness analysis, Fraction interpolation oracle',
           'numpy linspace/diff/ceil/ufuncs and scipy interp1d(kind=linear) are modelled, observed through the tie',
           'scipy splines (quadratic/cubic) are used as their own reference (test, not proof)']
ASSUMPTIONS = ['spectra are well formed (strictly increasing positive wavelengths, equal lengths); numeric sampling > 0',
               'wavelength units m/um/nm/angstrom (waveunit None is outside the domain); fill_value a number or a 2-tuple (a 2-element list/array is refused by scipy interp1d)',
               'scalar/vector operands on integer-stored spectra follow numpy integer semantics (uint8 wrap-around, bool, int ** negative int raise): not generated',
               'exact regime: dyadic wavelengths with power-of-two spacings and small integer/dyadic values, so that every '
               'float operation is exact and results are compared for equality of rationals',
               'unit-agnosticism is stated for valueunit None (a density value unit is rescaled by Spectrum.to by design)']
RULE = ('corpus first; random pairs of spectra with identical / nested / overlapping / touching / disjoint ranges, uniform and '
        'non-uniform grids (1..8 samples), 5 operators, sampling min/left/right/numeric, fill scalar/pair, dunder and method '
        'calls, all 16 unit pairs, value units; storage family: the same numbers as int64/int32/int16/uint8/bool/float32 arrays, '
        'Python lists/tuples, long/upper-case unit spellings, int / numpy-scalar / 0-d-array fill and sampling arguments, each '
        'compared with its float64 twin; same-numbers family: wave arrays numerically equal (or all but one point, one longer/'
        'shorter) in different units, both orders; histories: 2-4 calls on live objects (both operand orders, self-combination, '
        'sample(), user .to()), each call compared with the same call on freshly built objects; plus scalar, vector (equal, '
        'length-1, unequal), unsupported operands, reflected forms, sample() with a foreign unit, constructor refusals; '
        'ndarray subclasses as storage and as vector operands (masked arrays with nothing / something masked, a metadata subclass, '
        'np.memmap; the callers\' containers are snapshotted too) with operations leaving the finite range (x/0, 0/0, 0**-n); '
        'magnitudes over many decades (wavelengths times 2^-30..2^12, values times 2^-40..2^30, exact); near-ties (grids shifted / '
        'stretched by 2^-20 relative, samplings d(1 +- 2^-20)); 0-d array operands; in-place edits of a value array between the '
        'calls of a history; spectra of 1031..2**20+3 samples (all four operand kinds, checked on ~350 sampled indices); '
        'non-trivial = the operand grids differ; distinct by hash')

UNITS = ['m', 'um', 'nm', 'angstrom']
VUNITS = [None, 'photlam', 'flam', 'wlam']
SCALE = {'m': Fraction(1), 'um': Fraction(1, 10 ** 6), 'nm': Fraction(1, 10 ** 9), 'angstrom': Fraction(1, 10 ** 10)}
OPS = ['add', 'sub', 'mul', 'div', 'pow']
METH = {'add': 'add', 'sub': 'subtract', 'mul': 'multiply', 'div': 'divide', 'pow': 'power'}
PYOP = {'add': operator.add, 'sub': operator.sub, 'mul': operator.mul, 'div': operator.truediv, 'pow': operator.pow}
F = Fraction
TOL = 1e-12
EDGE = 1e-9


def fac(a, b):
    """exact factor: wavelength in unit a -> unit b"""
    return SCALE[a] / SCALE[b]


def rep(x):
    """is the rational exactly a double?"""
    try:
        return F(float(x)) == x
    except OverflowError:
        return False


def fl(x):
    return float(F(x))


# ------------------------------------------------------------------ implementation side
INT_DTYPES = ('int64', 'int32', 'int16', 'uint8', 'bool')


class MetaArray(np.ndarray):
    """a metadata-carrying ndarray subclass (the minimal example of the numpy documentation)"""
    def __new__(cls, a, info=None):
        obj = np.asarray(a).view(cls)
        obj.info = info
        return obj

    def __array_finalize__(self, obj):
        self.info = getattr(obj, 'info', None)


SUBCLASS_KINDS = ('masked', 'masked1', 'meta', 'memmap')
_TMPDIR = []
# A np.ma.MaskedArray given as the VECTOR OPERAND of Spectrum (op) vector used to run the ufunc with np.ma semantics
# (4/0 -> data 1.0 instead of inf); repaired by fix dcabfe2 (known_findings C13-masked-operand): masked operands are
# generated and must act element-wise like the plain array with the same data.
MASKED_OPERAND_IS_VIOLATION = True


def subclass_of(a, kind):
    """the float64 data a handed over as an ndarray subclass: a masked array with nothing masked (what
    np.ma.masked_invalid returns on clean data), one with some entries masked (data intact), a metadata-carrying
    subclass, a np.memmap"""
    a = np.array(a, dtype=float)
    if kind == 'masked':
        return np.ma.masked_invalid(a)
    if kind == 'masked1':
        m = np.zeros(a.shape, dtype=bool)
        m[::2] = True
        return np.ma.masked_array(a, mask=m)
    if kind == 'meta':
        return MetaArray(a, info='counts')
    if not _TMPDIR:
        import atexit
        import shutil
        import tempfile
        _TMPDIR.append(tempfile.mkdtemp(prefix='lv-c13-memmap-'))
        atexit.register(shutil.rmtree, _TMPDIR[0], True)
    import os
    fn = os.path.join(_TMPDIR[0], f'{len(os.listdir(_TMPDIR[0]))}.dat')
    mm = np.memmap(fn, dtype=float, mode='w+', shape=a.shape if a.size else (1,))
    if a.size:
        mm[:] = a
    return mm if a.size else mm[:0]


def cast(xs, dt):
    """the numbers xs (Fraction strings) stored the way the case asks for: a float64 array (default), an array of
    another dtype, a plain Python list / tuple (ints when all numbers are integers), or an ndarray subclass"""
    q = [F(x) for x in xs]
    if dt in SUBCLASS_KINDS:
        return subclass_of([float(x) for x in q], dt)
    if dt in (None, 'float64'):
        return np.array([float(x) for x in q], dtype=float)
    if dt in ('pylist', 'pytuple'):
        seq = [int(x) for x in q] if all(x.denominator == 1 for x in q) else [float(x) for x in q]
        return seq if dt == 'pylist' else tuple(seq)
    if dt in INT_DTYPES:
        return np.array([int(x) for x in q], dtype=dt)
    return np.array([float(x) for x in q], dtype=dt)      # float32


_FN_CLASS = {}
BB_TEMP = 5000.0


def fn_class():
    """a user subclass in the manner of lentil's Blackbody: sample() evaluates a formula at the requested wavelengths and
    knows no fill value (here 1000 + wavelength, as a number in the unit of the request)"""
    lentil = C.import_lentil()
    key = id(lentil)
    if key not in _FN_CLASS:
        class FnSpectrum(lentil.radiometry.Spectrum):
            def sample(self, wave, waveunit='nm', *args, **kwargs):
                return 1000.0 + np.asarray(wave, dtype=float)
        _FN_CLASS.clear()
        _FN_CLASS[key] = FnSpectrum
    return _FN_CLASS[key]


def mk(sd, plain=False):
    """plain=True: the float64 twin (same numbers, default storage, canonical unit spelling)"""
    lentil = C.import_lentil()
    if sd.get('fn') == 'affine':
        w = cast(sd['wave'], None)
        S = fn_class()(w, 1000.0 + w, waveunit=sd['wu'], valueunit=sd['vu'])
        S._verif_inputs = (w,)
        return S
    if sd.get('fn') == 'blackbody':
        w = cast(sd['wave'], None)
        S = lentil.radiometry.Blackbody(w, BB_TEMP, waveunit=sd['wu'], valueunit='photlam')
        S._verif_inputs = (w,)
        return S
    if plain:
        return lentil.radiometry.Spectrum(cast(sd['wave'], None), cast(sd['value'], None), waveunit=sd['wu'], valueunit=sd['vu'])
    w_in, v_in = cast(sd['wave'], sd.get('wdt')), cast(sd['value'], sd.get('vdt'))
    S = lentil.radiometry.Spectrum(w_in, v_in, waveunit=sd.get('spell', sd['wu']), valueunit=sd['vu'])
    S._verif_inputs = (w_in, v_in)       # the caller's own containers: they must stay untouched as well
    return S


def raw(x):
    """content of a caller-owned container, the mask of a masked array included"""
    out = [type(x).__name__, np.asarray(x).tolist()]
    if isinstance(x, np.ma.MaskedArray):
        out.append(np.ma.getmaskarray(x).tolist())
    return out


def is_plain(sd):
    return sd.get('wdt') is None and sd.get('vdt') is None and sd.get('spell') is None


def snap(s):
    return [np.asarray(s.wave).tolist(), np.asarray(s.value).tolist(), s.waveunit, s.valueunit,
            str(np.asarray(s.wave).dtype), str(np.asarray(s.value).dtype)] + [raw(x) for x in getattr(s, '_verif_inputs', ())]


def res(r):
    return {'wave': np.asarray(r.wave, dtype=float).tolist(), 'value': np.asarray(r.value, dtype=float).tolist(),
            'wu': r.waveunit, 'vu': r.valueunit, 'shape_ok': np.asarray(r.wave).shape == np.asarray(r.value).shape}


def num_form(x, form):
    """a number in one of the legal argument forms"""
    x = F(x)
    if form == 'int' and x.denominator == 1:
        return int(x)
    if form == 'npint64' and x.denominator == 1:
        return np.int64(int(x))
    if form == 'npfloat64':
        return np.float64(float(x))
    if form == 'npfloat32' and F(float(np.float32(float(x)))) == x:
        return np.float32(float(x))
    if form == 'arr0':
        return np.array(float(x))
    return float(x)


def samp_arg(s, scale=None, form=None):
    if s in ('min', 'left', 'right'):
        return s
    v = F(s)
    if scale is not None:
        v = v * scale
        return float(v)
    return num_form(v, form if form != 'arr0' else None)


def fill_arg(f, form=None):
    return tuple(num_form(x, form) for x in f) if isinstance(f, list) else num_form(f, form)


def call_op(A, B, c, sampling=None):
    if c.get('call') == 'dunder':
        return PYOP[c['o']](A, B)
    return getattr(A, METH[c['o']])(B, sampling=samp_arg(c['sampling'], form=c.get('sform')) if sampling is None else sampling,
                                    method=c.get('method', 'linear'), fill_value=fill_arg(c['fill'], c.get('fform')))


# The result of Spectrum (op) scalar/vector shares its wave ARRAY with the operand (wave = self.wave).  Every Spectrum method
# rebinds .wave instead of writing into it, so only element writes by the user (r.wave[0] = ..., r.wave *= 2) reach the operand.
# Reported as an open finding (proposed_fixes/c13-scalar-wave-alias.patch); counted, not alarmed on, until it is decided.
# Set to True once the patch is applied: a shared wave array (and an element write through it) then is a VIOLATION.
WAVE_ALIAS_IS_VIOLATION = True
if __import__('os').environ.get('VERIF_C13_WAVE_ALIAS') == '1':      # development-time override used with VERIF_REPO
    WAVE_ALIAS_IS_VIOLATION = True


def alias_probe(r, operands):
    """identity and aliasing of a result with respect to its Spectrum operands; then the result is edited in place through
    the public API (crop, to, value assignment, element write into its value array) and the operands are looked at again"""
    info = {'is_operand': any(r is o for o in operands),
            'value_shared': any(np.shares_memory(np.asarray(r.value), np.asarray(o.value)) for o in operands),
            'wave_shared': any(np.shares_memory(np.asarray(r.wave), np.asarray(o.wave)) for o in operands)}
    # a result is a Spectrum like any other: used as the RIGHT operand of an ndarray / numpy scalar it must give the
    # element-wise product (numpy has to defer to Spectrum.__rmul__), the same as with the operands swapped
    try:
        rv = np.asarray(r.value, dtype=float)
        if rv.ndim == 1 and rv.size and np.all(np.isfinite(rv)) and type(r.value) is np.ndarray:
            vec = 1.0 + (np.arange(rv.size) % 3)
            ref = res(r * vec)
            for lhs in (vec, np.float64(2.0)):
                t = lhs * r
                if not isinstance(t, type(r)):
                    info['chain'] = f'{type(lhs).__name__} * result is a {type(t).__name__}, not a Spectrum'
                    break
                if lhs is vec and not same_result(res(t), ref):
                    info['chain'] = 'ndarray * result differs from result * ndarray'
                    break
    except Exception as e:
        info['chain'] = f'using the result as an operand raised {type(e).__name__}'
    before = [snap(o) for o in operands]
    w = np.asarray(r.wave, dtype=float)
    edits = []
    if w.size >= 3:
        edits.append(lambda: r.crop(float(w[1]), float(w[-2])))
    edits.append(lambda: r.to('um' if r.waveunit != 'um' else 'nm'))
    if WAVE_ALIAS_IS_VIOLATION:
        def write_wave():
            g = r.wave
            if isinstance(g, np.ndarray) and g.size and g.flags.writeable:
                g *= 2
        edits.insert(0, write_wave)

    def write_values():
        v = r.value
        if isinstance(v, np.ndarray) and v.ndim == 1 and v.size and v.flags.writeable:
            v[...] = 7
    edits.append(write_values)
    edits.append(lambda: setattr(r, 'value', np.zeros(np.asarray(r.wave).shape)))
    for e in edits:
        try:
            e()
        except Exception:
            pass
    info['operand_changed_by_edit'] = [snap(o) for o in operands] != before
    return info


def alias_verdict(info):
    if not info:
        return None
    if info.get('chain'):
        return 'the result is not a usable spectrum: ' + info['chain']
    if info['is_operand']:
        return 'the result is the operand itself, not a new spectrum'
    if info['value_shared']:
        return 'the result shares its value array with an operand'
    if info['operand_changed_by_edit']:
        return 'editing the RESULT in place (crop / to / value assignment) changed an operand'
    if info['wave_shared'] and WAVE_ALIAS_IS_VIOLATION:
        return 'the result shares its wave array with an operand'
    if info['wave_shared']:
        STATS['result shares the operand\'s wave ARRAY (scalar/vector operands; harmless through the Spectrum API, see report)'] += 1
    return None


def attempt(fn):
    try:
        return res(fn())
    except Exception as e:
        return {'err': type(e).__name__}


def other_operand(kind):
    return {'str': 'x', 'none': None, 'complex': 1 + 2j, 'dict': {}, 'set': {1.0}}[kind]


def guarded(fn):
    """run implementation code under an address-space cap: a defective implementation that asks numpy for a grid of
    1e10 points must give MemoryError (reported as a failing input), not take the machine down"""
    import resource
    soft, hard = resource.getrlimit(resource.RLIMIT_AS)
    cap = 8 * 2 ** 30
    if hard != resource.RLIM_INFINITY:
        cap = min(cap, hard)
    resource.setrlimit(resource.RLIMIT_AS, (cap, hard))
    try:
        return fn()
    finally:
        resource.setrlimit(resource.RLIMIT_AS, (soft, hard))


def run_impl(c):
    def go():
        import warnings
        old = np.seterr(all='ignore')
        pre, nfilters = np.geterr(), len(warnings.filters)
        try:
            out = run_impl_(c)
        except Exception as e:      # raised outside the guarded calls: the constructor refused a well-formed spectrum
            out = {'err': type(e).__name__, 'stage': 'constructing the operands', 'unchanged': True}
        finally:
            post, nfilters2 = np.geterr(), len(warnings.filters)
            np.seterr(**old)
        if post != pre:        # (the warnings filter list is not compared: first-time imports of scipy add to it)
            out['env_changed'] = f'numpy error state {pre} -> {post}'
        return out
    return guarded(go)


def run_impl_(c):
    op = c['op']
    if True:        # the numpy error state is set (and watched) by run_impl
        if op == 'ctor':
            return attempt(lambda: mk(c['s']))
        if op == 'spec':
            A, B = mk(c['a']), mk(c['b'])
            sa, sb = snap(A), snap(B)
            try:
                r = call_op(A, B, c)
                out = res(r)
                out['new'] = (r is not A) and (r is not B)
            except Exception as e:
                out = {'err': type(e).__name__}
            out['unchanged'] = (snap(A) == sa and snap(B) == sb)
            if 'err' in out:
                return out
            # commuted form on the implementation (numeric sampling is expressed in the left operand's unit)
            if c['o'] in ('add', 'mul') and c['sampling'] not in ('left', 'right'):
                s2 = samp_arg(c['sampling'], fac(c['a']['wu'], c['b']['wu']))
                out['comm'] = attempt(lambda: call_op(B, A, c, sampling=s2))
            # the same operands expressed in other wavelength units (copies converted with .to)
            if c.get('alt'):
                def alt():
                    A2, B2 = A.copy(), B.copy()
                    A2.to(c['alt'][0])
                    B2.to(c['alt'][1])
                    return call_op(A2, B2, c, sampling=samp_arg(c['sampling'], fac(c['a']['wu'], c['alt'][0])))
                out['alt'] = attempt(alt)
                out['unchanged'] = out['unchanged'] and (snap(A) == sa and snap(B) == sb)
            # the float64 twin: same numbers in default storage, canonical unit names, plain float arguments
            if not (is_plain(c['a']) and is_plain(c['b']) and not c.get('sform') and not c.get('fform')):
                cp = {k: v for k, v in c.items() if k not in ('sform', 'fform')}
                out['twin'] = attempt(lambda: call_op(mk(c['a'], plain=True), mk(c['b'], plain=True), cp))
            out['alias'] = alias_probe(r, [A, B])
            return out
        if op == 'hist':
            return run_history(c)
        if op == 'samplecall':
            S = mk(c['s'])
            ss = snap(S)
            fv = c['fill']
            if isinstance(fv, dict):
                fv = {'list2': [1.0, 2.0], 'array2': np.array([1.0, 2.0]), 'tuple3': (1.0, 2.0, 3.0)}[fv['badshape']]
            else:
                fv = fill_arg(fv)
            try:
                v = S.sample(np.array([fl(x) for x in c['at']], dtype=float), method=call_method(c['method']),
                             fill_value=fv, waveunit=c['unit'])
                out = {'value': np.asarray(v, dtype=float).tolist()}
            except Exception as e:
                out = {'err': type(e).__name__}
            out['unchanged'] = snap(S) == ss
            return out
        if op == 'call':
            A, B = mk(c['a']), mk(c['b'])
            sa, sb = snap(A), snap(B)
            try:
                r = getattr(A, METH[c['o']])(B, sampling=call_sampling(c['sampling']), method=call_method(c['method']),
                                             fill_value=fill_arg(c['fill']))
                out = res(r)
                out['new'] = (r is not A) and (r is not B)
            except Exception as e:
                out = {'err': type(e).__name__}
            out['unchanged'] = (snap(A) == sa and snap(B) == sb)
            return out
        if op == 'big':
            try:
                return run_big(c)
            except Exception as e:
                return {'err': type(e).__name__, 'unchanged': True}
        if op == 'sample':
            S = mk(c['s'])
            ss = snap(S)
            try:
                v = S.sample(np.array([fl(x) for x in c['at']], dtype=float), method='linear',
                             fill_value=fill_arg(c['fill'], c.get('fform')), waveunit=c.get('uspell', c['unit']))
                out = {'value': np.asarray(v, dtype=float).tolist()}
            except Exception as e:
                out = {'err': type(e).__name__}
            out['unchanged'] = snap(S) == ss
            return out
        S = mk(c['s'])
        ss = snap(S)
        if op == 'helper':
            rad = C.import_lentil().radiometry
            try:
                k = c['kind']
                if k == 'path1':
                    r = rad.path_transmission([S])
                elif k == 'path_material':
                    r = rad.path_transmission([rad.Material(transmission=S, contam=1)])
                elif k == 'material_t':
                    r = rad.Material(transmission=S, contam=1).transmission
                else:
                    r = rad.Material(emission=S, contam=1.0).emission
                out = res(r)
                out['new'] = r is not S
                out['unchanged'] = snap(S) == ss
                out['alias'] = alias_probe(r, [S])
            except Exception as e:
                out = {'err': type(e).__name__}
            out.setdefault('unchanged', snap(S) == ss)
            return out
        if op == 'scalar':
            x = {'int': lambda: int(F(c['c'])), 'bool': lambda: bool(int(F(c['c']))),
                 'npfloat64': lambda: np.float64(fl(c['c']))}.get(c.get('ctype'), lambda: fl(c['c']))()
        elif op == 'vector':
            x = [fl(v) for v in c['l']]
            vt = c.get('vtype', 'list')
            x = {'list': lambda: x, 'tuple': lambda: tuple(x), 'ndarray': lambda: np.array(x, dtype=float),
                 'arr0': lambda: np.array(x[0]), 'meta': lambda: subclass_of(x, 'meta'), 'memmap': lambda: subclass_of(x, 'memmap'),
                 'masked': lambda: subclass_of(x, 'masked'), 'masked1': lambda: subclass_of(x, 'masked1')}[vt]()
            x_before = raw(x)
        else:
            x = other_operand(c['kind'])
        try:
            if c.get('call') == 'method' and not c['refl'] and c.get('junk'):
                # sampling / method / fill_value are never looked at for a scalar or vector operand
                r = getattr(S, METH[c['o']])(x, sampling='foo', method='bar', fill_value=(1, 2, 3))
            elif c.get('call') == 'method' and not c['refl']:
                r = getattr(S, METH[c['o']])(x)
            else:
                r = PYOP[c['o']](x, S) if c['refl'] else PYOP[c['o']](S, x)
            if isinstance(r, type(S)):
                out = res(r)
                out['new'] = r is not S
                out['unchanged'] = snap(S) == ss
                out['alias'] = alias_probe(r, [S])
            else:
                out = {'err': 'NotASpectrum:' + type(r).__name__}
        except Exception as e:
            out = {'err': type(e).__name__}
        out.setdefault('unchanged', snap(S) == ss)
        if op == 'vector' and raw(x) != x_before:
            out['unchanged'] = False
        return out


# ---- large spectra (sizes behind typical thresholds: > 1000 samples, >= 2**20 elements, not divisible by block counts)
def big_data(c):
    """operands of a 'big' case, given by closed formulas so that the case stays small and self-contained:
    wave_i = w0 + i d, a_i = (7 i mod 13) - 6, b_i = (5 i mod 11) + 1"""
    n, w0, d = c['n'], F(c['w0']), F(c['d'])
    i = np.arange(n)
    wave = float(w0) + i * float(d)
    return wave, ((7 * i) % 13 - 6).astype(float), ((5 * i) % 11 + 1).astype(float)


def big_a(i):
    return F((7 * i) % 13 - 6)


def big_b(i):
    return F((5 * i) % 11 + 1)


def big_indices(c, m):
    import random as _r
    rr = _r.Random(c['n'] * 31 + len(c['kind']))
    idx = {0, 1, 2, m - 1, m - 2, m - 3}
    k = 1
    while k < m:
        idx.update({k - 1, k, k + 1})
        k *= 2
    idx.update(rr.randrange(m) for _ in range(300))
    return sorted(x for x in idx if 0 <= x < m)


def run_big(c):
    S = C.import_lentil().radiometry.Spectrum
    wave, av, bv = big_data(c)
    A = S(wave.copy(), av.copy())
    kind, d = c['kind'], fl(c['d'])
    before = (A.wave.copy(), A.value.copy())
    if kind == 'scalar':
        r = getattr(A, METH[c['o']])(fl(c['c']))
        others = []
    elif kind == 'vector':
        r = getattr(A, METH[c['o']])(bv.copy())
        others = []
    else:
        B = S(wave.copy() + (d / 2 if kind == 'spec_shift' else 0.0), bv.copy())
        bb = (B.wave.copy(), B.value.copy())
        r = getattr(A, METH[c['o']])(B, sampling=d / 2 if kind == 'spec_shift' else 'min', fill_value=fl(c['fill']))
        others = [(B, bb)]
    rw, rv = np.asarray(r.wave, dtype=float), np.asarray(r.value, dtype=float)
    idx = big_indices(c, len(rw))
    ok = np.array_equal(A.wave, before[0]) and np.array_equal(A.value, before[1]) and \
        all(np.array_equal(o.wave, sn[0]) and np.array_equal(o.value, sn[1]) for o, sn in others)
    return {'len': [len(rw), len(rv)], 'idx': idx, 'wave': rw[idx].tolist(), 'value': rv[idx].tolist(),
            'increasing': bool(np.all(np.diff(rw) > 0)), 'new': r is not A, 'unchanged': bool(ok),
            'shared': bool(np.shares_memory(rw, A.wave) or np.shares_memory(rv, A.value))}


def oracle_big(c, impl):
    if 'err' in impl:
        return f'operation on a {c["n"]}-sample spectrum raised {impl["err"]}'
    if not impl['new'] or impl['shared']:
        return 'result is not a new spectrum (object or arrays shared with the operand)'
    n, w0, d, kind, o = c['n'], F(c['w0']), F(c['d']), c['kind'], c['o']
    m = 2 * n if kind == 'spec_shift' else n
    if impl['len'] != [m, m]:
        return f'result has {impl["len"]} samples, expected {m}'
    if not impl['increasing']:
        return 'result grid is not increasing'
    fill = F(c.get('fill', '0'))
    for k, x, y in zip(impl['idx'], impl['wave'], impl['value']):
        if kind == 'spec_shift':
            wx = w0 + k * d / 2
            i, odd = divmod(k, 2)
            ya = big_a(i) if not odd else ((big_a(i) + big_a(i + 1)) / 2 if i + 1 < n else fill)
            yb = big_b(i) if odd else ((big_b(i - 1) + big_b(i)) / 2 if i >= 1 else fill)
        else:
            wx = w0 + k * d
            ya = big_a(k)
            yb = F(c['c']) if kind == 'scalar' else big_b(k)
        if F(x) != wx:
            return f'grid point {k} is {x}, expected {float(wx)}'
        if not check_value(y, apply_exact(o, ya, yb), True, F(0), o):
            return f'value[{k}] = {y} is not {o} of {float(ya)} and {float(yb)} (spectrum of {n} samples)'
    return None


def gen_big(rng, tier):
    n = rng.choice([1031, 1500, 4099, 8192] + ([2 ** 20 + 3] if rng.random() < (0.5 if tier == 'quick' else 0.2) else []))
    kind = rng.choice(['scalar', 'vector', 'spec_same', 'spec_shift'])
    return {'op': 'big', 'kind': kind, 'n': n, 'o': rng.choice(['add', 'sub', 'mul', 'div']), 'w0': str(F(rng.randint(1, 9), 4) + 100),
            'd': str(F(2) ** rng.choice([-3, -2, -1])), 'c': str(rng.choice([0, 1, 2, F(1, 2)])), 'fill': str(rng.choice([0, 1, 3]))}


# ---- the named methods with every argument form (refusal paths, interpolation kinds): op 'call'
def call_sampling(sv):
    if isinstance(sv, dict):
        if 'bad' in sv:
            return sv['bad']
        return {'none': None, 'tuple': (1.0,), 'list': [1.0], 'array': np.array([1.0])}[sv['other']]
    return sv if sv in ('min', 'left', 'right') else fl(sv)


def call_method(m):
    return None if m == 'None' else m


def enc_sarg(sv):
    if isinstance(sv, dict):
        return [4] if 'bad' in sv else [5]
    return enc_sampling(sv)


METHCODE = {'linear': 0, 'quadratic': 1, 'cubic': 2}


def compare_call(c, impl, model):
    if ('err' in impl) != ('err' in model):
        return (f'implementation {"raised " + impl["err"] if "err" in impl else "returned a value"}, '
                f'model {"raised " + model["err"] if "err" in model else "returned a value"}')
    if 'err' in impl:
        return None if impl['err'] == model['err'] else f'error kinds differ: impl {impl["err"]} model {model["err"]}'
    if (impl['wu'], impl['vu']) != (model['wu'], model['vu']):
        return 'units differ'
    if len(impl['wave']) != len(model['wave']) or len(impl['value']) != len(model['value']):
        return f'lengths differ: impl {len(impl["wave"])}/{len(impl["value"])} model {len(model["wave"])}/{len(model["value"])}'
    for i, (x, q) in enumerate(zip(impl['wave'], model['wave'])):
        if not check_wave(x, q, False):
            return f'wave[{i}]: impl {x} model {float(q)}'
    scale = max([abs(F(x)) for sd in (c['a'], c['b']) for x in sd['value']] + [abs(F(x)) for x in (c['fill'] if isinstance(c['fill'], list) else [c['fill']])] + [F(1)])
    for i, (x, mv) in enumerate(zip(impl['value'], model['value'])):
        if mv[0] == 'q' and c['o'] in ('div', 'pow'):
            ok = check_value(x, mv, False, abs(mv[1]), c['o'])
        else:
            ok = check_value(x, mv, False, scale * scale if c['o'] == 'mul' else scale, c['o'])
        if not ok:
            return f'value[{i}]: impl {x} model {mv}'
    return None


def gen_call(rng, tier):
    """argument forms of the named methods: interpolation kinds (with too few samples for the spline order), unknown
    kinds, sampling strings / objects that are not sampling methods, negative and zero numeric sampling, empty and
    one-sample operands - the model decides whether the call returns and which exception it raises"""
    w1, w2, rel = rnd_pair(rng, tier)
    if rng.random() < 0.5:
        w1, w2 = w2, w1
    n1, n2 = rng.choice([len(w1), 1, 2, 3, 4]), rng.choice([len(w2), 1, 2, 3, 4])
    w1, w2 = w1[:n1], w2[:n2]
    kind = rng.choice(['method', 'method', 'badmethod', 'badsampling', 'negative', 'negative', 'empty', 'zero'])
    if kind == 'empty':
        t = rng.randrange(3)
        w1, w2 = ([] if t != 1 else w1), ([] if t != 0 else w2)
    o = rng.choice(['add', 'sub', 'mul', 'div'])
    ua, ub, wb = 'nm', 'nm', w2       # one unit: a decimal unit factor would put range/sampling next to an integer
    a = spec_dict(w1, rnd_values(rng, len(w1), 'pos'), ua)
    b = spec_dict(wb, rnd_values(rng, len(wb), 'pos'), ub)
    c = {'op': 'call', 'o': o, 'a': a, 'b': b, 'sampling': rnd_sampling(rng, w1, w2), 'method': 'linear',
         'fill': rnd_fill(rng), 'kind': kind}
    if kind == 'method':
        c['method'] = rng.choice(['quadratic', 'cubic'])
    elif kind == 'badmethod':
        c['method'] = rng.choice(['foo', 'bar', 'None', 'LINEAR', 'spline'])
        if rng.random() < 0.3:
            c['sampling'] = {'bad': 'foo'} if rng.random() < 0.5 else {'other': 'none'}
    elif kind == 'badsampling':
        c['sampling'] = rng.choice([{'bad': 'MIN'}, {'bad': 'foo'}, {'bad': 'Left'}, {'bad': ''}, {'other': 'none'},
                                    {'other': 'tuple'}, {'other': 'list'}, {'other': 'array'}])
        c['method'] = rng.choice(['linear', 'linear', 'cubic', 'foo'])
    elif kind == 'negative' and w1 and w2:
        rngw = max(w1[-1], w2[-1]) - min(w1[0], w2[0])
        if rngw == 0:
            c['sampling'] = str(rng.choice([-1, -2]))
        else:
            ratio = rng.choice([F(-3, 10), F(-1), F(-3, 2), F(-2), F(-37, 10), F(-1, 64), F(-5)])
            c['sampling'] = str(F(float(rngw / ratio)))
        c['method'] = rng.choice(['linear', 'linear', 'quadratic', 'foo'])
    elif kind == 'zero':
        x = F(rng.randint(2, 9))
        c['a'], c['b'] = spec_dict([x], [F(rng.randint(1, 5))]), spec_dict([x], [F(rng.randint(1, 5))])
        c['sampling'] = rng.choice(['0', '-1', '2', 'min'])
    return c


def do_call(objs, call, hold=None):
    """one step of a history on live objects -> canonical result (hold: keep the returned arrays themselves)"""
    k = call['k']
    if k == 'to':
        objs[call['i']].to(call['unit'])
        return {'done': True}
    if k == 'poke':       # the user edits the value ARRAY in place (no setter involved)
        objs[call['i']].value[call['idx']] = fl(call['val'])
        return {'done': True}
    if k == 'sample':
        v = objs[call['i']].sample(np.array([fl(x) for x in call['at']], dtype=float), method='linear',
                                   fill_value=fill_arg(call['fill']), waveunit=call['unit'])
        if hold is not None:
            hold.append((v, np.array(v, copy=True)))
        return {'value': np.asarray(v, dtype=float).tolist()}
    ro = call_op(objs[call['i']], objs[call['j']], call)
    if hold is not None:
        hold.append((ro.wave, np.array(ro.wave, copy=True)))
        hold.append((ro.value, np.array(ro.value, copy=True)))
    r = res(ro)
    r['new'] = True
    return r


def run_history(c):
    """a sequence of calls on ONE set of live objects; every arithmetic / sample call is repeated on freshly built
    objects (to which only the user's earlier .to() conversions were applied) - the two must agree exactly"""
    def safe(fn):
        try:
            return fn()
        except Exception as e:
            return {'err': type(e).__name__}
    objs = [mk(sd) for sd in c['specs']]
    live, fresh, states, held, held_at = [], [], [], [], []
    for n, call in enumerate(c['calls']):
        before = [snap(o) for o in objs]
        nh = len(held)
        live.append(safe(lambda: do_call(objs, call, held)))
        held_at += [n] * (len(held) - nh)
        after = [snap(o) for o in objs]
        states.append(call['k'] in ('to', 'poke') or before == after)
        if call['k'] in ('to', 'poke'):
            fresh.append(None)
            continue
        fo = [mk(sd) for sd in c['specs']]
        for prev in c['calls'][:n]:
            if prev['k'] in ('to', 'poke'):
                do_call(fo, prev)
        fresh.append(safe(lambda: do_call(fo, call)))
    out = {'live': live, 'fresh': fresh, 'unchanged': all(states)}
    for (arr, copy_), n in zip(held, held_at):      # every array handed out earlier still holds what it held then
        if not np.array_equal(np.asarray(arr), copy_, equal_nan=True):
            out['held_changed'] = n
            break
    return out


# ------------------------------------------------------------------ model side
def enc_spec(sd):
    return ([UNITS.index(sd['wu']), VUNITS.index(sd['vu'])] + C.enc_list([F(x) for x in sd['wave']], C.enc_q)
            + C.enc_list([F(x) for x in sd['value']], C.enc_q))


def enc_sampling(s):
    return [{'min': 0, 'left': 1, 'right': 2}[s]] if s in ('min', 'left', 'right') else [3] + C.enc_q(F(s))


def enc_fill(f):
    return [1] + C.enc_q(F(f[0])) + C.enc_q(F(f[1])) if isinstance(f, list) else [0] + C.enc_q(F(f))


def encode(c):
    op = c['op']
    if op in ('hist', 'big'):
        return None
    if op == 'spec' and (c['a'].get('fn') or c['b'].get('fn')):
        return None
    if op == 'samplecall':
        fe = [2] if isinstance(c['fill'], dict) else enc_fill(c['fill'])
        return ([9, METHCODE.get(c['method'], 3), UNITS.index(c['unit'])] + fe + enc_spec(c['s'])
                + C.enc_list([F(x) for x in c['at']], C.enc_q))
    if op == 'call':
        return ([7, METHCODE.get(c['method'], 3), OPS.index(c['o'])] + enc_sarg(c['sampling']) + enc_fill(c['fill'])
                + enc_spec(c['a']) + enc_spec(c['b']))
    if op == 'spec':
        if c.get('method', 'linear') != 'linear':
            return None
        return ([1, OPS.index(c['o'])] + enc_sampling(c['sampling']) + enc_fill(c['fill'])
                + enc_spec(c['a']) + enc_spec(c['b']))
    if op == 'scalar':
        return [2, int(c['refl']), OPS.index(c['o'])] + enc_spec(c['s']) + C.enc_q(F(c['c']))
    if op == 'vector':
        return [3, int(c['refl']), OPS.index(c['o'])] + enc_spec(c['s']) + C.enc_list([F(x) for x in c['l']], C.enc_q)
    if op == 'other':
        return [4, int(c['refl']), OPS.index(c['o'])] + enc_spec(c['s'])
    if op == 'helper':     # every helper multiplies by 1 (contam / the running product)
        return [2, 1, OPS.index('mul')] + enc_spec(c['s']) + C.enc_q(F(1))
    if op == 'ctor':
        return [5] + enc_spec(c['s'])
    if op == 'sample':
        return ([6, UNITS.index(c['unit'])] + enc_fill(c['fill']) + enc_spec(c['s'])
                + C.enc_list([F(x) for x in c['at']], C.enc_q))
    raise ValueError(op)


def read_xval(rd):
    t = rd.z()
    if t == 0:
        return ('q', rd.q())
    return ('inf',) if t == 1 else ('unk',)


def decode(c, ints):
    rd = C.Reader(ints, 1)
    st = rd.z()
    if st == 1:
        return {'err': C.ERRNAMES[rd.z()]}
    if c['op'] == 'sample':
        return {'value': rd.lst(rd.q)}
    if c['op'] == 'samplecall':
        return {'value': rd.lst(lambda: read_xval(rd))}
    wu, vu = UNITS[rd.z()], VUNITS[rd.z()]
    wave = rd.lst(rd.q)
    if c['op'] == 'ctor':
        return {'wu': wu, 'vu': vu, 'wave': wave, 'value': [('q', x) for x in rd.lst(rd.q)]}
    return {'wu': wu, 'vu': vu, 'wave': wave, 'value': rd.lst(lambda: read_xval(rd))}


# ------------------------------------------------------------------ exact reference computations (Fractions)
def interp_exact(w, v, x):
    """piecewise-linear interpolant of the samples (w, v) at x, None outside [w[0], w[-1]]; also reports whether
    every intermediate of slope*(x - x_lo) + y_lo is a double for each segment containing x"""
    if x < w[0] or x > w[-1]:
        return None, True
    if len(w) == 1:
        return v[0], True
    y, ok = None, True
    for k in range(len(w) - 1):
        if w[k] <= x <= w[k + 1]:
            slope = (v[k + 1] - v[k]) / (w[k + 1] - w[k])
            yy = slope * (x - w[k]) + v[k]
            ok = ok and rep(v[k + 1] - v[k]) and rep(w[k + 1] - w[k]) and rep(slope) and rep(x - w[k]) \
                and rep(slope * (x - w[k])) and rep(yy)
            if y is None:
                y = yy
            elif y != yy:
                raise AssertionError('interpolant not well defined')
    return y, ok


def fill_of(fill, w, x):
    if isinstance(fill, list):
        return F(fill[0]) if x < w[0] else F(fill[1])
    return F(fill)


def apply_exact(o, x, y):
    """-> ('q', Fraction) | ('inf',) | ('float', float)"""
    if o == 'add':
        return ('q', x + y)
    if o == 'sub':
        return ('q', x - y)
    if o == 'mul':
        return ('q', x * y)
    if o == 'div':
        return ('inf',) if y == 0 else ('q', x / y)
    if y.denominator == 1 and abs(y.numerator) <= 1024:
        n = y.numerator
        if n >= 0:
            return ('q', x ** n)
        return ('inf',) if x == 0 else ('q', 1 / x ** (-n))
    # non-integer (or huge) exponent: IEEE pow on the (exactly known) operands
    xf, yf = float(x), float(y)
    if xf < 0 and y.denominator != 1:
        return ('inf',)
    if xf == 0:
        return ('inf',) if yf < 0 else ('q', F(0))
    try:
        return ('float', math.pow(xf, yf))
    except OverflowError:
        return ('inf',)


def physical(sd, unit):
    """operand re-expressed exactly in `unit` (what Spectrum.to denotes); also whether the float conversion is exact"""
    w = [F(x) for x in sd['wave']]
    v = [F(x) for x in sd['value']]
    if sd['wu'] == unit:
        return w, v, True
    f = fac(sd['wu'], unit)
    ok = rep(f) and all(rep(x * f) for x in w)
    w2 = [x * f for x in w]
    if sd['vu'] is not None:
        ok = ok and all(rep(y / f) for y in v)
        v = [y / f for y in v]
    return w2, v, ok


_ANA = {}
STATS = {'sample_count_changed_by_unit_conversion (ratio within 1e-9 of an integer, float artefact)': 0,
         'result shares the operand\'s wave ARRAY (scalar/vector operands; harmless through the Spectrum API, see report)': 0}


def analyse(c):
    """exact description of what the property demands for a spectrum-spectrum case, from the case alone"""
    key = C.case_hash({k: v for k, v in c.items() if not k.startswith('_')})
    if key in _ANA:
        return _ANA[key]
    a, b = c['a'], c['b']
    w1, v1, _ = physical(a, a['wu'])
    w2, v2, exact = physical(b, a['wu'])
    smp = c['sampling']
    need1, need2 = smp in ('min', 'left'), smp in ('min', 'right')
    an = {'w1': w1, 'v1': v1, 'w2': w2, 'v2': v2}
    if (need1 and len(w1) < 2) or (need2 and len(w2) < 2):
        an['undefined'] = True
        _ANA[key] = an
        return an
    d1 = min(y - x for x, y in zip(w1, w1[1:])) if len(w1) > 1 else None
    d2 = min(y - x for x, y in zip(w2, w2[1:])) if len(w2) > 1 else None
    dw = {'min': None, 'left': d1, 'right': d2}.get(smp, None)
    if smp == 'min':
        dw = min(d1, d2)
    elif smp not in ('left', 'right'):
        dw = F(smp)
    mn, mx = min(w1[0], w2[0]), max(w1[-1], w2[-1])
    ratio = (mx - mn) / dw
    num = math.ceil(ratio)
    exact = exact and rep(ratio) and rep(mx - mn) and rep(dw)
    if num > 20000:
        exact = False       # never generated; only rejected candidates of the generators get here
    elif num > 0:
        step = (mx - mn) / num
        exact = exact and rep(step) and all(rep(i * step) and rep(i * step + mn) for i in range(num + 1))
    near = abs(ratio - round(ratio)) <= EDGE * max(1, abs(ratio))
    vs = [abs(x) for x in v1 + v2] + [abs(F(x)) for x in (c['fill'] if isinstance(c['fill'], list) else [c['fill']])]
    an.update({'undefined': False, 'dw': dw, 'mn': mn, 'mx': mx, 'ratio': ratio, 'num': num, 'exact': exact,
               'near': near, 'ends': [w1[0], w1[-1], w2[0], w2[-1]], 'vscale': max(vs + [F(0)])})
    _ANA[key] = an
    return an


def near_end(an, x):
    return any(abs(x - e) <= EDGE * abs(e) for e in an['ends'])


def expected_at(c, an, x):
    """value the property demands at wavelength x (a's unit): xval, operands (y1, y2), exactness of the float route"""
    y1, ok1 = interp_exact(an['w1'], an['v1'], x)
    y2, ok2 = interp_exact(an['w2'], an['v2'], x)
    # operands given by a formula: inside their range the formula at x (no interpolation), the fill value outside
    for k, (sd, y) in enumerate(((c['a'], y1), (c['b'], y2))):
        if sd.get('fn') and y is not None:
            if sd['fn'] == 'affine':
                yy, okk = 1000 + x, True
            else:
                pr = C.import_lentil().radiometry.planck_radiance(np.array([float(x)]), BB_TEMP, sd['wu'], 'photlam')
                yy, okk = F(float(pr[0])), False
            if k == 0:
                y1, ok1 = yy, okk
            else:
                y2, ok2 = yy, okk
    if y1 is None:
        y1 = fill_of(c['fill'], an['w1'], x)
    if y2 is None:
        y2 = fill_of(c['fill'], an['w2'], x)
    return apply_exact(c['o'], y1, y2), y1, y2, ok1 and ok2


TINY, HUGE = F(1, 10 ** 290), F(10 ** 290)


def check_value(got, want, exact, scale, o=None):
    """got: float; want: xval.  numpy's pow is a vectorised approximation (np.power(3.1875, 1.0) is
    3.1874999999999996), so powers are compared to 1e-13 relative even in the exact regime"""
    if want[0] == 'unk':
        return True
    if want[0] == 'inf':
        return not math.isfinite(got)
    if want[0] == 'q' and abs(want[1]) > HUGE:
        return not math.isfinite(got) or abs(F(got) - want[1]) <= F(TOL) * abs(want[1])
    if not math.isfinite(got):
        return False
    if want[0] == 'q' and abs(want[1]) < TINY and want[1] != 0:
        return abs(got) <= float(TINY)
    if want[0] == 'q' and exact and o == 'pow':
        return abs(F(got) - want[1]) <= F(1, 10 ** 13) * abs(want[1])
    if want[0] == 'float':
        return abs(got - want[1]) <= TOL * max(abs(want[1]), 1e-300)
    q = want[1]
    if exact:
        if rep(q):
            return F(got) == q
        return abs(F(got) - q) <= abs(q) * F(1, 2 ** 51)
    return abs(F(got) - q) <= F(TOL) * max(abs(q), scale)


def vtol(c, an, y1, y2):
    """tolerant regime: magnitude against which 1e-12 is taken, following the conditioning of the operator"""
    s_ = max(an['vscale'], abs(y1), abs(y2))
    o = c['o']
    if o in ('add', 'sub'):
        return s_
    if o == 'mul':
        return s_ * max(abs(y1), abs(y2), 1)
    if o == 'div':
        return s_ / abs(y2) * max(1, abs(y1) / abs(y2)) if y2 != 0 else s_
    if y2.denominator == 1 and abs(y2.numerator) <= 1024 and y1 != 0:
        n = y2.numerator
        return abs(y1) ** n * max(1, abs(n)) * max(1, s_ / abs(y1))
    return s_


def check_wave(got, want, exact):
    if exact:
        return F(got) == want
    return abs(F(got) - want) <= F(TOL) * abs(want)


def ambiguous(c, an, x, y1, y2):
    """tolerant regime only: points where an infinitesimal perturbation of the operands changes the answer discontinuously"""
    if near_end(an, x):
        return True
    small = F(1, 10 ** 6) * max(an['vscale'], F(1, 10 ** 6))
    if c['o'] == 'div' and abs(y2) <= small:
        return True
    if c['o'] == 'pow' and (y1 <= small or y2.denominator != 1):
        return True
    return False


def verify_result(c, an, r, what):
    """does the implementation's result r (wave in a's unit) satisfy the property?  -> None | message"""
    w = r['wave']
    if not r.get('shape_ok', True) or len(w) != len(r['value']):
        return f'{what}: wave and value lengths differ'
    exact = an['exact']
    n = len(w) - 1
    if exact or not an['near']:
        if n != an['num']:
            return f'{what}: grid has {n + 1} points, expected ceil(range/dwave)+1 = {an["num"] + 1}'
    elif n not in (round(an['ratio']), round(an['ratio']) + 1):
        return f'{what}: grid has {n + 1} points, expected about {round(an["ratio"]) + 1}'
    if not check_wave(w[0], an['mn'], exact) or not check_wave(w[-1], an['mx'], exact):
        return f'{what}: grid does not start/end at the min/max of the union of the ranges'
    if n > 0:
        step = (an['mx'] - an['mn']) / n
        for i, x in enumerate(w):
            if not check_wave(x, an['mn'] + i * step, exact):
                return f'{what}: grid is not uniform at index {i}'
        if step > an['dw'] * (1 + F(TOL)):
            return f'{what}: step {float(step)} exceeds the sampling {float(an["dw"])}'
    for i, x in enumerate(w):
        xq = F(x)
        want, y1, y2, ok = expected_at(c, an, xq)
        if not exact and ambiguous(c, an, xq, y1, y2):
            continue
        if not check_value(r['value'][i], want, exact and ok, vtol(c, an, y1, y2), c['o']):
            return (f'{what}: value[{i}] at wavelength {x} is {r["value"][i]}, expected {c["o"]}({float(y1)}, {float(y2)})'
                    f' from the interpolated/fill values of the operands')
    return None


# ------------------------------------------------------------------ direct property oracle (independent of the model)
def oracle(c, impl):
    op = c['op']
    if impl.get('env_changed'):
        return 'the call changed the caller\'s environment: ' + impl['env_changed']
    if impl.get('held_changed') is not None:
        return (f'the arrays returned by call {impl["held_changed"]} of the history changed during the later calls '
                '(a result must own its memory)')
    if not impl.get('unchanged', True):
        return 'an operand was modified by the operation (wave, value or unit changed)'
    if (impl.get('alias') or {}).get('is_operand'):
        return alias_verdict(impl['alias'])
    if op == 'ctor':
        w = [F(x) for x in c['s']['wave']]
        bad = (any(x <= 0 for x in w) or any(y <= x for x, y in zip(w, w[1:])) or len(w) != len(c['s']['value']))
        if bad != ('err' in impl):
            return 'constructor accepted an ill-formed spectrum' if bad else f'constructor raised {impl["err"]}'
        return None
    if op == 'big':
        return oracle_big(c, impl)
    if op == 'samplecall':
        return None      # refusal paths and spline kinds: decided by the model (compare); operands untouched is checked above
    if op == 'call':
        # argument forms outside the documented ones are not pinned by the property: the model decides them (compare);
        # here only: operands untouched (checked above) and a returned result is a new object
        return None if 'err' in impl or impl.get('new') else 'result is not a new object'
    if op == 'hist':
        for n, (lv, fr) in enumerate(zip(impl['live'], impl['fresh'])):
            if fr is not None and not same_result(lv, fr):
                return (f'call {n} of the history ({c["calls"][n]}) gives a different result than the same call on freshly '
                        f'built operands: {str(lv)[:160]} vs {str(fr)[:160]}')
        return None
    if op == 'spec':
        if c.get('method', 'linear') != 'linear':
            return None
        an = analyse(c)
        if 'twin' in impl and not same_result(impl, impl['twin']):
            return ('result depends on how the operands are stored / how the arguments are written (dtype, list vs array, '
                    f'unit spelling, int vs float): {str({k: impl.get(k) for k in ("err", "wave", "value")})[:200]} vs float64 twin '
                    f'{str({k: impl["twin"].get(k) for k in ("err", "wave", "value")})[:200]}')
        if an['undefined']:
            return None if 'err' in impl else 'sampling is undefined for a one-sample operand but a result was returned'
        if 'err' in impl:
            return f'operation raised {impl["err"]}'
        if not impl.get('new'):
            return 'result is not a new object'
        m = alias_verdict(impl.get('alias'))
        if m:
            return m
        if impl['wu'] != c['a']['wu'] or impl['vu'] != c['a']['vu']:
            return 'result does not carry the left operand\'s units'
        m = verify_result(c, an, impl, 'result')
        if m:
            return m
        if 'comm' in impl:
            cm = impl['comm']
            if 'err' in cm:
                return f'commuted operation raised {cm["err"]}'
            same = c['a']['wu'] == c['b']['wu']
            if same and c['a']['vu'] == c['b']['vu']:
                if cm['wave'] != impl['wave'] or not all(x == y or (x != x and y != y) for x, y in zip(cm['value'], impl['value'])) \
                        or (cm['wu'], cm['vu']) != (impl['wu'], impl['vu']):
                    return f'{c["o"]} is not commutative: a.b and b.a differ'
            elif c['a']['vu'] is None and c['b']['vu'] is None:
                m = compare_rescaled(c, an, impl, cm, fac(c['a']['wu'], c['b']['wu']), c['b']['wu'], 'commuted result', False)
                if m:
                    return m
        if 'alt' in impl:
            al = impl['alt']
            if 'err' in al:
                return f'operation on the unit-converted operands raised {al["err"]}'
            m = compare_rescaled(c, an, impl, al, fac(c['a']['wu'], c['alt'][0]), c['alt'][0], 'result in other units',
                                 an['exact'] and c['alt'] == [c['a']['wu'], c['b']['wu']])
            if m:
                return m
        return None
    if op == 'sample':
        if 'err' in impl:
            return f'sample raised {impl["err"]}'
        w, v, exact = physical(c['s'], c['unit'])
        for i, x in enumerate(c['at']):
            xq = F(x)
            y, ok = interp_exact(w, v, xq)
            if y is None:
                y = fill_of(c['fill'], w, xq)
            if not exact and any(abs(xq - e) <= EDGE * abs(e) for e in (w[0], w[-1])):
                continue
            if not check_value(impl['value'][i], ('q', y), exact and ok, max(abs(t) for t in v)):
                return f'sample at {x} {c["unit"]} gives {impl["value"][i]}, expected {float(y)}'
        return None
    # scalar / vector / unsupported operands
    s = c['s']
    w = [F(x) for x in s['wave']]
    v = [F(x) for x in s['value']]
    if op == 'other':
        return None if impl.get('err') == 'TypeError' else f'unsupported operand did not raise TypeError: {impl.get("err", "value")}'
    if op == 'helper':
        if 'err' in impl:
            return f'{c["kind"]} raised {impl["err"]}'
        m = alias_verdict(impl.get('alias'))
        if m:
            return f'{c["kind"]}: {m}'
        if [F(x) for x in impl['wave']] != w or [F(x) for x in impl['value']] != v or (impl['wu'], impl['vu']) != (s['wu'], s['vu']):
            return f'{c["kind"]} of a single spectrum is not that spectrum'
        return None
    if op == 'scalar':
        other = [F(c['c'])] * len(v)
    else:
        l = [F(x) for x in c['l']]
        if len(l) == len(v):
            other = l
        elif len(l) == 1:
            other = l * len(v)
        else:
            return None if 'err' in impl else 'operand of a different length was accepted'
    if 'err' in impl:
        if c['refl'] and impl['err'] == 'TypeError':
            return None        # reflected forms are not pinned by the property (only __rmul__ exists)
        return f'operation raised {impl["err"]}'
    m = alias_verdict(impl.get('alias'))
    if m or not impl.get('new'):
        return m or 'result is not a new object'
    if (impl['wu'], impl['vu']) != (s['wu'], s['vu']):
        return 'result units differ from the operand\'s'
    if [F(x) for x in impl['wave']] != w:
        return 'wavelength grid changed'
    if len(impl['value']) != len(v):
        return 'value length changed'
    for i, (x, y) in enumerate(zip(v, other)):
        want = apply_exact(c['o'], y, x) if c['refl'] else apply_exact(c['o'], x, y)
        if not check_value(impl['value'][i], want, True, F(0), c['o']):
            return f'value[{i}] = {impl["value"][i]} is not {c["o"]} of {float(x)} and {float(y)}'
    return None


def same_result(a, b):
    """exact agreement of two canonical results (nan == nan)"""
    if ('err' in a) or ('err' in b):
        return a.get('err') == b.get('err')
    for k in ('wave', 'value'):
        if (k in a) != (k in b):
            return False
        if k in a:
            if len(a[k]) != len(b[k]) or not all(x == y or (x != x and y != y) for x, y in zip(a[k], b[k])):
                return False
    return (a.get('wu'), a.get('vu')) == (b.get('wu'), b.get('vu'))


def covariant_values(c):
    """how the values of the result change when both operands are re-expressed in other wavelength units and the grid is
    multiplied by f: 'same' (unitless operands), 'density' (divided by f: density +- density, or density */ unitless with
    fill 0), None (not a unit-covariant combination, e.g. density * density: only the grid is compared)"""
    va, vb = c['a']['vu'], c['b']['vu']
    zero_fill = not isinstance(c['fill'], list) and F(c['fill']) == 0
    if va is None and vb is None:
        return 'same'
    if va is not None and vb is not None and c['o'] in ('add', 'sub') and zero_fill:
        return 'density'
    if va is not None and vb is None and c['o'] in ('mul', 'div') and zero_fill:
        return 'density'
    return None


def compare_rescaled(c, an, base, other, f, unit, what, exact):
    """`other` must be `base` with the grid multiplied by the exact unit factor f and the same values (valueunit None)"""
    if other['wu'] != unit:
        return f'{what}: unit is {other["wu"]}, expected {unit}'
    if len(other['wave']) != len(base['wave']):
        if an['near'] and not exact:
            STATS['sample_count_changed_by_unit_conversion (ratio within 1e-9 of an integer, float artefact)'] += 1
            return None       # ceil of a ratio within 1e-9 of an integer: float conversion may move it across
        return f'{what}: {len(other["wave"])} grid points against {len(base["wave"])}'
    for i, (x, y) in enumerate(zip(base['wave'], other['wave'])):
        if abs(F(y) - F(x) * f) > F(TOL) * abs(F(x) * f):
            return f'{what}: grid point {i} is {y}, expected {float(F(x) * f)}'
    cov = covariant_values(c)
    if cov is not None:
        vf = 1.0 if cov == 'same' else float(1 / f)
        for i, (x, y) in enumerate(zip(base['value'], other['value'])):
            x = x * vf
            xq = F(base['wave'][i])
            _, y1, y2, _ = expected_at(c, an, xq)
            if ambiguous(c, an, xq, y1, y2) and not exact:
                continue
            if math.isfinite(x) != math.isfinite(y):
                return f'{what}: value[{i}] finiteness differs'
            if math.isfinite(x) and abs(x - y) > TOL * max(abs(x), float(vtol(c, an, y1, y2)) * vf):
                return f'{what}: value[{i}] = {y} differs from {x}'
    return None


# ------------------------------------------------------------------ comparison with the extracted model
def compare(c, impl, model):
    op = c['op']
    if op == 'call':
        return compare_call(c, impl, model)
    if op == 'samplecall':
        if ('err' in impl) != ('err' in model) or impl.get('err') != model.get('err'):
            return f'impl {impl.get("err", "returned values")} model {model.get("err", "returned values")}'
        if 'err' in impl:
            return None
        if len(impl['value']) != len(model['value']):
            return 'lengths differ'
        w, v, exact = physical(c['s'], c['unit'])
        for i, (x, mv) in enumerate(zip(impl['value'], model['value'])):
            xq = F(c['at'][i])
            if not exact and w and any(abs(xq - e) <= EDGE * abs(e) for e in (w[0], w[-1])):
                continue
            if not check_value(x, mv, False, max([abs(t) for t in v] + [F(1)])):
                return f'sample[{i}]: impl {x} model {mv}'
        return None
    if 'err' in model and c.get('refl') and op in ('scalar', 'vector') and 'err' not in impl:
        return None     # a reflected form that works is judged by the oracle alone (the property does not pin TypeError)
    if ('err' in impl) != ('err' in model):
        return (f'implementation {"raised " + impl["err"] if "err" in impl else "returned a value"}, '
                f'model {"raised " + model["err"] if "err" in model else "returned a value"}')
    if 'err' in impl:
        return None if impl['err'] == model['err'] else f'error kinds differ: impl {impl["err"]} model {model["err"]}'
    if op == 'sample':
        _, v, exact = physical(c['s'], c['unit'])
        w, _, _ = physical(c['s'], c['unit'])
        for i, q in enumerate(model['value']):
            xq = F(c['at'][i])
            _, ok = interp_exact(w, v, xq)
            if not exact and any(abs(xq - e) <= EDGE * abs(e) for e in (w[0], w[-1])):
                continue
            if not check_value(impl['value'][i], ('q', q), exact and ok, max(abs(t) for t in v)):
                return f'sample[{i}]: impl {impl["value"][i]} model {float(q)}'
        return None
    if (impl['wu'], impl['vu']) != (model['wu'], model['vu']):
        return f'units differ: impl {(impl["wu"], impl["vu"])} model {(model["wu"], model["vu"])}'
    if op == 'spec':
        an = analyse(c)
        exact = an['exact']
        if len(impl['wave']) != len(model['wave']):
            if an['near'] and not exact:
                return None
            return f'grid lengths differ: impl {len(impl["wave"])} model {len(model["wave"])}'
        for i, (x, q) in enumerate(zip(impl['wave'], model['wave'])):
            if not check_wave(x, q, exact):
                return f'wave[{i}]: impl {x} model {float(q)}'
        for i, (x, mv) in enumerate(zip(impl['value'], model['value'])):
            xq = model['wave'][i]
            _, y1, y2, ok = expected_at(c, an, xq)
            if not exact and ambiguous(c, an, xq, y1, y2):
                continue
            if not check_value(x, mv, exact and ok, vtol(c, an, y1, y2), c['o']):
                return f'value[{i}]: impl {x} model {mv}'
        return None
    if len(impl['wave']) != len(model['wave']) or len(impl['value']) != len(model['value']):
        return 'lengths differ'
    for x, q in zip(impl['wave'], model['wave']):
        if F(x) != q:
            return f'wave: impl {x} model {float(q)}'
    for i, (x, mv) in enumerate(zip(impl['value'], model['value'])):
        if not check_value(x, mv, True, F(0), c.get('o')):
            return f'value[{i}]: impl {x} model {mv}'
    return None


# ------------------------------------------------------------------ generation
def dy(rng, lo, hi, bits):
    """random dyadic k / 2^bits in [lo, hi]"""
    return F(rng.randint(lo * 2 ** bits, hi * 2 ** bits), 2 ** bits)


def rnd_grid(rng, start, n, pow2=True, uniform=None):
    uniform = rng.random() < 0.5 if uniform is None else uniform
    if pow2:
        e = rng.choice([-2, -1, 0, 0, 1, 2])
        sp = [F(2) ** (e if uniform else rng.choice([e, e + 1, e - 1, e + 2])) for _ in range(n - 1)]
    else:
        k = rng.choice([1, 3, 5, 6, 7])
        sp = [F(k if uniform else rng.choice([1, 2, 3, 5, 6, 7]), 4) for _ in range(n - 1)]
    w = [start]
    for d in sp:
        w.append(w[-1] + d)
    return w


def rnd_values(rng, n, kind='int'):
    if kind == 'int':
        return [F(rng.randint(-6, 6)) for _ in range(n)]
    if kind == 'pos':
        return [F(rng.randint(1, 6)) for _ in range(n)]
    return [dy(rng, -4, 4, 2) for _ in range(n)]


def spec_dict(w, v, wu='nm', vu=None):
    return {'wu': wu, 'vu': vu, 'wave': [str(x) for x in w], 'value': [str(x) for x in v]}


def to_unit_floats(w, src, dst):
    """wavelengths w (exact, unit src) written in unit dst as the nearest doubles"""
    f = fac(src, dst)
    return [F(float(x * f)) for x in w]


def rnd_pair(rng, tier):
    """two spectra in one unit with a chosen range relation; returns (w1, w2)"""
    pow2 = rng.random() < 0.8
    n1 = rng.randint(2, 7)
    start = dy(rng, 1, 12, 2)
    w1 = rnd_grid(rng, start, n1, pow2)
    lo, hi = w1[0], w1[-1]
    rel = rng.choice(['identical', 'samerange', 'nested', 'nested', 'overlap', 'overlap', 'overlap', 'disjoint', 'touching', 'contains'])
    n2 = rng.randint(2, 7)
    if rel == 'identical':
        return w1, list(w1), rel
    if rel == 'samerange':
        m = rng.choice([1, 2, 4, 8])
        w2 = [lo + (hi - lo) * F(i, m) for i in range(m + 1)]
        return w1, w2, rel
    if rel == 'nested':        # w2 strictly inside w1
        a = lo + (hi - lo) * F(rng.randint(0, 2), 8)
        w2 = rnd_grid(rng, a, n2, pow2)
        sc = 1
        while w2[-1] > hi and sc < 64:
            sc *= 2
            w2 = [a + (x - a) / 2 for x in w2]
        if w2[-1] > hi:
            return w1, list(w1), 'identical'
        return w1, w2, rel
    if rel == 'contains':
        a = max(F(1, 4), lo - dy(rng, 0, 3, 1))
        w2 = rnd_grid(rng, a, n2, pow2)
        while w2[-1] < hi:
            w2.append(w2[-1] + (w2[-1] - w2[-2]))
        return w1, w2, rel
    if rel == 'overlap':
        a = w1[rng.randint(0, n1 - 1)] + (F(rng.randint(0, 3), 4) if rng.random() < 0.5 else 0)
        a = min(a, hi)
        w2 = rnd_grid(rng, a, n2, pow2)
        return w1, w2, rel
    if rel == 'touching':
        return w1, rnd_grid(rng, hi, n2, pow2), rel
    return w1, rnd_grid(rng, hi + dy(rng, 1, 6, 2), n2, pow2), rel


def rnd_sampling(rng, w1, w2):
    t = rng.random()
    if t < 0.4:
        return 'min'
    if t < 0.55:
        return 'left'
    if t < 0.7:
        return 'right'
    if t < 0.9:
        return str(F(2) ** rng.choice([-2, -1, 0, 1, 2, 3]))
    return str(F(rng.choice([3, 5, 6, 7, 10]), rng.choice([1, 2, 4])))


def rnd_fill(rng):
    t = rng.random()
    if t < 0.35:
        return '0'
    if t < 0.85:
        return str(rng.choice([1, 2, -1, 3, F(1, 2), -2, 5]))
    return [str(rng.choice([0, 1, -1, 2])), str(rng.choice([3, 4, -2, 1]))]


def gen_spec(rng, tier):
    w1, w2, rel = rnd_pair(rng, tier)
    if rng.random() < 0.5:
        w1, w2 = w2, w1
    o = rng.choice(OPS)
    ua = rng.choice(UNITS) if rng.random() < 0.45 else 'nm'
    ub = rng.choice(UNITS) if rng.random() < 0.45 else ua
    vkind = 'int' if rng.random() < 0.75 else 'dy'
    v1, v2 = rnd_values(rng, len(w1), vkind), rnd_values(rng, len(w2), vkind)
    smp = rnd_sampling(rng, w1, w2)
    fill = rnd_fill(rng)
    if o == 'pow':
        # integer exponents everywhere: constant integer exponent spectrum, integer fill
        k = rng.choice([0, 1, 2, 2, 3, -1, -2])
        if rng.random() < 0.7:
            v2 = [F(k)] * len(w2)
        fill = str(rng.choice([0, 1, 2])) if not isinstance(fill, list) else [str(rng.choice([0, 1])), '2']
    if o == 'div' and rng.random() < 0.6:
        v2 = [F(rng.choice([1, 2, 4, -2, F(1, 2)])) for _ in w2]
        if not isinstance(fill, list) and F(fill) == 0:
            fill = '2'
    vua = rng.choice(VUNITS) if rng.random() < 0.25 else None
    vub = rng.choice(VUNITS) if rng.random() < 0.25 else None
    # the pair was drawn in unit ua; write b in its own unit (exactly when the factor ua->ub is a power of ten >= 1 ...)
    wb = to_unit_floats(w2, ua, ub) if ub != ua else w2
    if ub != ua and any(y <= x for x, y in zip(wb, wb[1:])):
        ub, wb = ua, w2
    c = {'op': 'spec', 'o': o, 'a': spec_dict(w1, v1, ua, vua), 'b': spec_dict(wb, v2, ub, vub),
         'sampling': smp, 'fill': fill, 'rel': rel}
    if smp == 'min' and not isinstance(fill, list) and F(fill) == 0 and rng.random() < 0.5:
        c['call'] = 'dunder'
    if vua is not None and rng.random() < 0.6 and ((vub is not None and o in ('add', 'sub')) or (vub is None and o in ('mul', 'div'))):
        c['fill'] = '0'
    if covariant_values(c) is not None and rng.random() < 0.6:
        c['alt'] = [rng.choice(UNITS), rng.choice(UNITS)]
    return c


SPELL = {'m': ['meter', 'M', 'Meter'], 'um': ['micron', 'Um', 'MICRON'], 'nm': ['nanometer', 'NM', 'Nanometer'],
         'angstrom': ['Angstrom', 'ANGSTROM']}
MAXNUM = 1500


def storage_choices(vals, density):
    q = [F(x) for x in vals]
    out = []
    if all(x.denominator == 1 for x in q):
        out += ['int64', 'int32', 'int16', 'pylist', 'pytuple']
        if all(0 <= x <= 255 for x in q):
            out.append('uint8')
        if all(x in (0, 1) for x in q):
            out.append('bool')
    elif not density:
        out.append('float32')       # a float32 density would be rescaled in single precision: genuinely storage dependent
    return out + list(SUBCLASS_KINDS)


def decorate(rng, c, p=0.3):
    """vary HOW the same numbers are handed over: storage dtype / list / tuple of wave and value, unit spelling,
    int / numpy-scalar / 0-d array forms of fill_value and sampling"""
    for k in ('a', 'b'):
        sd = c[k]
        ch = storage_choices(sd['value'], sd['vu'] is not None)
        if ch and rng.random() < p:
            sd['vdt'] = rng.choice(ch)
        if all(F(x).denominator == 1 for x in sd['wave']) and rng.random() < p:
            sd['wdt'] = rng.choice(['int64', 'pylist'] + (['int32'] if max(F(x) for x in sd['wave']) < 2 ** 31 else []))
        elif rng.random() < p / 2:
            sd['wdt'] = rng.choice(SUBCLASS_KINDS)
        if rng.random() < p / 2:
            sd['spell'] = rng.choice(SPELL[sd['wu']])
    if rng.random() < p:
        c['fform'] = rng.choice(['int', 'npint64', 'npfloat64', 'npfloat32', 'arr0'])
    if c['sampling'] not in ('min', 'left', 'right') and rng.random() < p:
        c['sform'] = rng.choice(['int', 'npint64', 'npfloat64', 'npfloat32'])
    if c.get('fform') or c.get('sform'):
        c.pop('call', None)
    return c


def small_enough(c):
    an = analyse(c)
    return an.get('undefined') or an['num'] <= MAXNUM


def gen_dtype(rng, tier):
    """integer-stored operands (counts, percentages) with integer fill values, genuinely interpolated to non-integers"""
    for _ in range(20):
        w1, w2, rel = rnd_pair(rng, tier)
        w1, w2 = [x * 4 for x in w1], [x * 4 for x in w2]
        if rel in ('identical',) or not all(x.denominator == 1 for x in w1 + w2):
            continue
        if rng.random() < 0.5:
            w1, w2 = w2, w1
        o = rng.choice(OPS)
        kind = rng.choice(['int', 'pos', 'bool'])
        mkv = (lambda n: [F(rng.randint(0, 1)) for _ in range(n)]) if kind == 'bool' else (lambda n: rnd_values(rng, n, kind))
        v1 = mkv(len(w1))
        v2 = mkv(len(w2)) if rng.random() < 0.5 else rnd_values(rng, len(w2), 'dy')
        if o == 'pow':
            v2 = [F(rng.choice([0, 1, 2, 3]))] * len(w2)
        fill = str(rng.choice([0, 0, 0, 1, 2, -1])) if rng.random() < 0.85 else [str(rng.choice([0, 1])), str(rng.choice([2, 3]))]
        if rng.random() < 0.5:
            v1, v2, w1, w2 = v2, v1, w2, w1
        c = {'op': 'spec', 'o': o, 'a': spec_dict(w1, v1), 'b': spec_dict(w2, v2), 'sampling': rnd_sampling(rng, w1, w2),
             'fill': fill, 'rel': rel}
        if c['sampling'] == 'min' and fill == '0' and rng.random() < 0.5:
            c['call'] = 'dunder'
        decorate(rng, c, p=0.8)
        if not isinstance(fill, list) and 'fform' not in c and 'call' not in c:
            c['fform'] = 'int'
        if small_enough(c):
            return c
    return gen_spec(rng, tier)


def gen_samenum(rng, tier):
    """operands whose wave ARRAYS hold the same numbers (or all but one) but in different units: physically different
    bands.  Also the same-unit control."""
    for _ in range(20):
        n = rng.randint(2, 6)
        d = F(2) ** rng.choice([-1, 0, 0, 1])
        uniform = rng.random() < 0.75
        start = F(rng.randint(1, 8)) * (F(1, 2) if rng.random() < 0.3 else 1)
        w = [start + i * d for i in range(n)] if uniform else rnd_grid(rng, start, n, True, False)
        ua, ub = rng.choice([('nm', 'angstrom'), ('angstrom', 'nm'), ('um', 'nm'), ('nm', 'um'), ('um', 'um'), ('angstrom', 'angstrom')])
        w2 = list(w)
        var = rng.choice(['same', 'same', 'same', 'onepoint', 'extra', 'shorter'])
        if var == 'onepoint':
            k = rng.randrange(n)
            lo = w2[k - 1] if k > 0 else w2[k] / 2
            hi = w2[k + 1] if k < n - 1 else w2[k] + d
            cand = [x for x in ((w2[k] + lo) / 2, (w2[k] + hi) / 2) if lo < x < hi]
            w2[k] = rng.choice(cand)
        elif var == 'extra':
            w2 = w2 + [w2[-1] + (w2[-1] - w2[-2])]
        elif var == 'shorter' and n > 2:
            w2 = w2[:-1]
        o = rng.choice(OPS)
        v1, v2 = rnd_values(rng, n, 'pos'), rnd_values(rng, len(w2), 'pos')
        if o == 'pow':
            v2 = [F(rng.choice([0, 1, 2]))] * len(w2)
        fill = rng.choice(['0', '0', '1', '2'])
        c = {'op': 'spec', 'o': o, 'a': spec_dict(w, v1, ua), 'b': spec_dict(w2, v2, ub),
             'sampling': rng.choice(['min', 'min', 'left', 'right', str(d)]), 'fill': fill, 'rel': 'samenumbers:' + var}
        if rng.random() < 0.5:
            c['a'], c['b'] = c['b'], c['a']
        if c['sampling'] == 'min' and fill == '0' and rng.random() < 0.4:
            c['call'] = 'dunder'
        if rng.random() < 0.3:
            decorate(rng, c)
        if small_enough(c):
            return c
    return gen_spec(rng, tier)


def gen_hist(rng, tier):
    """2-4 calls on one set of live spectra (arithmetic in both operand orders, sample(), user .to() conversions,
    a spectrum combined with itself), one argument varied at a time"""
    for _ in range(20):
        w1, w2, rel = rnd_pair(rng, tier)
        ua = rng.choice(['nm', 'um', 'angstrom'])
        ub = rng.choice(['nm', 'um', 'angstrom'])
        wb = to_unit_floats(w2, ua, ub) if ub != ua else w2
        if any(y <= x for x, y in zip(wb, wb[1:])):
            continue
        vu = rng.choice([None, None, None, 'photlam'])
        specs = [spec_dict(w1, rnd_values(rng, len(w1), 'pos'), ua, vu), spec_dict(wb, rnd_values(rng, len(wb), 'pos'), ub, vu)]
        probe = {'op': 'spec', 'o': 'add', 'a': specs[0], 'b': specs[1], 'sampling': 'min', 'fill': '0'}
        if not small_enough(probe) or analyse(probe).get('undefined'):
            continue
        base = {'o': rng.choice(['add', 'sub', 'mul', 'div']), 'sampling': rng.choice(['min', 'left', 'right']),
                'fill': rng.choice(['0', '0', '1', '2'])}
        calls = []
        for _ in range(rng.randint(2, 4)):
            t = rng.random()
            if t < 0.6:
                i, j = rng.choice([(0, 1), (1, 0), (0, 1), (1, 0), (0, 0), (1, 1)])
                call = dict(base, k='op', i=i, j=j)
                if calls and rng.random() < 0.5:      # vary exactly one argument with respect to the first arithmetic call
                    key = rng.choice(['o', 'sampling', 'fill'])
                    call[key] = {'o': rng.choice(['add', 'sub', 'mul', 'div']), 'sampling': rng.choice(['min', 'left', 'right']),
                                 'fill': rng.choice(['0', '1', '2', '3'])}[key]
                calls.append(call)
            elif t < 0.8:
                i = rng.randrange(2)
                unit = rng.choice(['nm', 'um', 'angstrom'])
                sd = specs[i]
                pts = [F(x) * fac(sd['wu'], unit) for x in sd['wave']]
                at = [F(float((x + y) / 2)) for x, y in zip(pts, pts[1:])] + [F(float(pts[0]))]
                calls.append({'k': 'sample', 'i': i, 'at': [str(x) for x in at], 'unit': unit, 'fill': base['fill']})
            elif t < 0.9:
                calls.append({'k': 'to', 'i': rng.randrange(2), 'unit': rng.choice(['nm', 'um', 'angstrom'])})
            else:
                i = rng.randrange(2)
                calls.append({'k': 'poke', 'i': i, 'idx': rng.randrange(len(specs[i]['value'])), 'val': str(rng.randint(7, 12))})
        if sum(1 for x in calls if x['k'] not in ('to', 'poke')) >= 2:
            return {'op': 'hist', 'specs': specs, 'calls': calls}
    return gen_spec(rng, tier)


def scale_spec(sd, k, j):
    """wavelengths times 2^k, values times 2^j (exact in binary floating point)"""
    sd['wave'] = [str(F(x) * F(2) ** k) for x in sd['wave']]
    sd['value'] = [str(F(x) * F(2) ** j) for x in sd['value']]
    return sd


def rescale_case(rng, c):
    """a spectrum-spectrum case moved to another decade: both wavelength axes (and a numeric sampling) times 2^k; for the
    homogeneous operators also all values and the fill value times 2^j.  The case stays self-contained: the oracle works
    on the scaled numbers, nothing is assumed about covariance."""
    k = rng.choice([-30, -21, -10, 12])
    j = rng.choice([-40, -30, 30]) if c['o'] in ('add', 'sub') and not any('vdt' in c[x] and c[x]['vdt'] not in SUBCLASS_KINDS for x in 'ab') else 0
    if any('wdt' in c[x] and c[x]['wdt'] not in SUBCLASS_KINDS for x in 'ab'):
        k = 0
    for x in 'ab':
        scale_spec(c[x], k, j)
    if c['sampling'] not in ('min', 'left', 'right'):
        c['sampling'] = str(F(c['sampling']) * F(2) ** k)
        c.pop('sform', None)
    c['fill'] = [str(F(x) * F(2) ** j) for x in c['fill']] if isinstance(c['fill'], list) else str(F(c['fill']) * F(2) ** j)
    if j:
        c.pop('fform', None)
    _ANA.pop(C.case_hash({kk: v for kk, v in c.items() if not kk.startswith('_')}), None)
    return c


def gen_nearties(rng, tier):
    """operands a few ppm apart: the right grid is the left one shifted / stretched by 2^-20 relative, one end point moved,
    or the requested sampling is the spacing times (1 +- 2^-20) - still different spectra and samplings, to full precision"""
    eps = F(1, 2 ** 20)
    for _ in range(20):
        n = rng.randint(2, 7)
        d = F(2) ** rng.choice([-2, -1, 0, 1])
        start = F(rng.randint(2, 40)) * d
        w1 = [start + i * d for i in range(n)]
        var = rng.choice(['shift', 'stretch', 'lastpoint', 'firstpoint', 'same'])
        if var == 'shift':
            w2 = [x + d * eps * rng.choice([1, -1]) for x in w1]
        elif var == 'stretch':
            w2 = [x * (1 + eps) for x in w1]
        elif var == 'lastpoint':
            w2 = w1[:-1] + [w1[-1] + d * eps * rng.choice([1, -1])]
        elif var == 'firstpoint':
            w2 = [w1[0] + d * eps * rng.choice([1, -1])] + w1[1:]
        else:
            w2 = list(w1)
        smp = rng.choice(['min', 'left', 'right', str(d), str(d * (1 + eps)), str(d * (1 - eps)), str(2 * d * (1 - eps))])
        o = rng.choice(OPS)
        v1, v2 = rnd_values(rng, n, 'pos'), rnd_values(rng, n, 'pos')
        if o == 'pow':
            v2 = [F(rng.choice([0, 1, 2]))] * n
        c = {'op': 'spec', 'o': o, 'a': spec_dict(w1, v1), 'b': spec_dict(w2, v2), 'sampling': smp,
             'fill': rng.choice(['0', '1', '2']), 'rel': 'nearties:' + var}
        if rng.random() < 0.5:
            c['a'], c['b'] = c['b'], c['a']
        if rng.random() < 0.3:
            rescale_case(rng, c)
        if small_enough(c):
            return c
    return gen_spec(rng, tier)


def gen_formula(rng, tier):
    """an operand that is given by a formula (user subclass / the public Blackbody: sample() knows no fill value), with its
    ends strictly inside the union range and off the common grid: outside ITS range the fill value must be used"""
    for _ in range(30):
        n = rng.randint(2, 6)
        d = F(2) ** rng.choice([0, 1, 2])
        start = F(rng.randint(20, 60)) * d
        wf_ = [start + i * d for i in range(n)]                    # the formula operand
        step = d * rng.choice([F(3, 4), F(5, 8), F(3, 8), F(7, 16), F(1, 2)])
        lo = wf_[0] - step * rng.choice([F(5, 3), F(9, 4), 3, F(1, 3)])
        m = int((wf_[-1] - lo) / step) + rng.randint(2, 5)
        wo = [lo + i * step for i in range(m)]                     # the other operand reaches further on both sides
        kind = rng.choice(['affine', 'affine', 'blackbody'])
        scale = 10 if kind == 'blackbody' else 1                    # 200 .. 2500 nm for the Planck law
        fs = spec_dict([x * scale for x in wf_], [0] * n, 'nm', 'photlam' if kind == 'blackbody' else None)
        fs['fn'] = kind
        os_ = spec_dict([x * scale for x in wo], rnd_values(rng, m, 'pos'), 'nm', None)
        o = rng.choice(['mul', 'add', 'mul', 'sub']) if kind == 'affine' else rng.choice(['mul', 'add'])
        c = {'op': 'spec', 'o': o, 'a': fs, 'b': os_, 'sampling': rng.choice(['min', 'min', 'right', 'left', str(step * scale)]),
             'fill': rng.choice(['0', '0', '1', '-1', '2']), 'rel': 'formula:' + kind}
        if rng.random() < 0.5:
            c['a'], c['b'] = c['b'], c['a']
            c['sampling'] = {'left': 'right', 'right': 'left'}.get(c['sampling'], c['sampling'])
        if small_enough(c) and not analyse(c).get('undefined'):
            return c
    return gen_spec(rng, tier)


def gen_other(rng):
    n = rng.randint(1, 6)
    w = rnd_grid(rng, dy(rng, 1, 9, 2), n)
    s = spec_dict(w, rnd_values(rng, n, rng.choice(['int', 'dy', 'pos'])), rng.choice(UNITS), rng.choice(VUNITS))
    o = rng.choice(OPS)
    refl = rng.random() < 0.35
    t = rng.random()
    if rng.random() < 0.3 and all(F(x).denominator == 1 for x in s['value']):
        # integer storage (numpy integer semantics - uint8 wrap-around, bool, int ** negative int - are numpy's, not generated)
        s['vdt'] = rng.choice(['int64', 'int32', 'pylist', 'pytuple'])
        if o == 'pow':
            o = 'mul'
    if 'vdt' not in s and rng.random() < 0.3:
        # ndarray subclasses (masked with nothing / something masked, metadata subclass, memmap): same numbers, same results
        s['vdt'] = rng.choice(SUBCLASS_KINDS)
    if rng.random() < 0.15:
        s['wdt'] = rng.choice(SUBCLASS_KINDS)
    domain = s.get('vdt') in SUBCLASS_KINDS and rng.random() < 0.6
    if domain:
        # leave the finite range (x/0, 0/0, 0**-1): subclass arithmetic (np.ma domains) must not replace inf/nan
        o = rng.choice(['div', 'div', 'pow'])
        refl = False
        s['value'] = [str(F(x) * (0 if rng.random() < 0.3 else 1)) for x in s['value']]
        t = rng.choice([0.2, 0.6])
    if rng.random() < 0.25:
        # magnitudes over many decades (wavelengths in metres ~ 2^-21, faint sources ~ 2^-40): exact powers of two
        scale_spec(s, rng.choice([-30, -21, -10, 12]), rng.choice([-40, -30, 0, 30]) if 'vdt' not in s or s['vdt'] in SUBCLASS_KINDS else 0)
    if t < 0.08:
        return {'op': 'helper', 's': s, 'kind': rng.choice(['path1', 'path_material', 'material_t', 'material_e'])}
    if t < 0.45:
        cval = rng.choice([0, 1, 2, 3, -1, -2, F(1, 2), F(-3, 4), 4])
        if o == 'pow' and not refl:
            cval = rng.choice([0, 1, 2, 3, -1, -2])
        ctype = 'int' if F(cval).denominator == 1 and rng.random() < 0.5 else 'float'
        if domain:
            cval, ctype = (0, rng.choice(['int', 'float'])) if o == 'div' else (rng.choice([-1, -2]), 'float')
        elif rng.random() < 0.45:
            # the neutral element of the operator (and of the others), in every spelling: 0, 0.0, 1, 1.0, True, np.float64
            cval = 0 if (o in ('add', 'sub')) != (rng.random() < 0.15) else 1
            ctype = rng.choice(['int', 'float', 'npfloat64'] + (['bool'] if cval == 1 else []))
        c = {'op': 'scalar', 'o': o, 'refl': refl, 's': s, 'c': str(cval), 'ctype': ctype}
        if not refl and rng.random() < 0.4:
            c['call'] = 'method'
            c['junk'] = rng.random() < 0.4
        if o == 'pow' and refl:
            c['s']['value'] = [str(rng.randint(-2, 3)) for _ in w]
        return c
    if t < 0.8:
        m = n if rng.random() < 0.6 else rng.choice([1, n + 1, max(0, n - 1), 2 * n, 0])
        l = [F(rng.choice([1, 2, -1, 3, -2, 0, 4])) for _ in range(m)]
        if o == 'pow' and refl:
            s['value'] = [str(rng.randint(-2, 3)) for _ in w]
        if domain:
            m = n
            l = [F(rng.choice([0, 0, 1, 2, 4])) for _ in range(n)] if o == 'div' else [F(rng.choice([-1, -2, 1]))] * n
        elif m == n and rng.random() < 0.4:      # a vector of neutral elements
            l = [F(0 if o in ('add', 'sub') else 1)] * n
        vts = ['list', 'tuple', 'ndarray', 'ndarray', 'meta', 'memmap'] + (['arr0'] if m == 1 else []) + \
              (['masked', 'masked1'] if MASKED_OPERAND_IS_VIOLATION and not refl else [])    # masked * s is dispatched by np.ma itself
        c = {'op': 'vector', 'o': o, 'refl': refl, 's': s, 'l': [str(x) for x in l], 'vtype': rng.choice(vts)}
        if not refl and rng.random() < 0.4:
            c['call'] = 'method'
            c['junk'] = rng.random() < 0.4
        return c
    return {'op': 'other', 'o': o, 'refl': refl, 's': s, 'kind': rng.choice(['str', 'none', 'complex', 'dict', 'set'])}


def gen_sample(rng):
    n = rng.randint(1, 6)
    wu, unit = rng.choice(UNITS), rng.choice(UNITS)
    w = rnd_grid(rng, dy(rng, 1, 9, 2), n)
    s = spec_dict(w, rnd_values(rng, n, 'int'), wu, rng.choice([None, None, 'photlam']))
    pts = [w[0] - 1, w[0], w[-1], w[-1] + F(1, 2)] + [dy(rng, 0, 16, 3) + F(1, 8) for _ in range(4)] + \
          [(x + y) / 2 for x, y in zip(w, w[1:])]
    pts = [x for x in pts if x > 0]
    at = to_unit_floats(pts, wu, unit) if unit != wu else pts
    return {'op': 'sample', 's': s, 'unit': unit, 'at': [str(x) for x in at], 'fill': rnd_fill(rng)}


def gen_samplecall(rng):
    c = gen_sample(rng)
    n = rng.choice([0, 1, 2, 3, 4, len(c['s']['wave'])])
    c['s']['wave'], c['s']['value'] = c['s']['wave'][:n], c['s']['value'][:n]
    c.update(op='samplecall', method=rng.choice(['linear', 'quadratic', 'cubic', 'cubic', 'foo', 'None']))
    if rng.random() < 0.25:
        c['fill'] = {'badshape': rng.choice(['list2', 'array2', 'tuple3'])}
    return c


def gen_ctor(rng):
    n = rng.randint(1, 5)
    w = rnd_grid(rng, dy(rng, 1, 9, 2), n)
    v = rnd_values(rng, n)
    t = rng.randint(0, 4)
    if t == 0 and n > 1:
        w[rng.randint(1, n - 1)] = w[0]
    elif t == 1:
        w[0] = F(0) if rng.random() < 0.5 else -w[0]
    elif t == 2 and n > 1:
        w = w[::-1]
    elif t == 3:
        v = v + [F(1)]
    return {'op': 'ctor', 's': spec_dict(w, v, rng.choice(UNITS), None)}


def generate(rng, tier):
    n = 420 if tier == 'quick' else 6000
    for kind in ('scalar', 'vector', 'spec_same', 'spec_shift'):      # every branch once beyond 2**20 samples, odd size
        yield dict(gen_big(rng, tier), kind=kind, n=2 ** 20 + 3)
    for _ in range(3 if tier == 'quick' else 20):
        yield gen_big(rng, tier)
    for _ in range(n):
        t = rng.random()
        if t < 0.35:
            c = gen_spec(rng, tier)
            c = decorate(rng, c, 0.15) if rng.random() < 0.3 else c
            yield rescale_case(rng, c) if rng.random() < 0.2 else c
        elif t < 0.37:
            yield gen_formula(rng, tier)
        elif t < 0.39:
            yield gen_nearties(rng, tier)
        elif t < 0.45:
            yield gen_call(rng, tier)
        elif t < 0.56:
            yield gen_dtype(rng, tier)
        elif t < 0.64:
            yield gen_samenum(rng, tier)
        elif t < 0.72:
            yield gen_hist(rng, tier)
        elif t < 0.90:
            yield gen_other(rng)
        elif t < 0.96:
            yield gen_sample(rng) if rng.random() < 0.6 else gen_samplecall(rng)
        else:
            yield gen_ctor(rng)


def classify(c):
    if c['op'] == 'call':
        return 'call:' + c.get('kind', '')
    if c['op'] == 'spec':
        an = analyse(c)
        reg = 'undefined' if an.get('undefined') else ('exact' if an['exact'] else 'tolerant')
        fam = 'formula' if str(c.get('rel', '')).startswith('formula') else 'nearties' if str(c.get('rel', '')).startswith('nearties') else 'samenumbers' if str(c.get('rel', '')).startswith('samenumbers') else ('storage' if is_storage_case(c) else c['o'])
        return f'spec:{fam}:{reg}'
    return c['op']


def is_storage_case(c):
    return c['op'] == 'spec' and (not is_plain(c['a']) or not is_plain(c['b']) or c.get('fform') or c.get('sform'))


def nontrivial(c):
    if c['op'] in ('hist', 'big', 'call', 'samplecall'):
        return True
    if c['op'] == 'spec':
        return not (c['a']['wave'] == c['b']['wave'] and c['a']['wu'] == c['b']['wu'])
    if c['op'] in ('scalar', 'vector', 'helper'):
        return len(c['s']['wave']) > 1
    return c['op'] == 'sample'


# ------------------------------------------------------------------ known findings
def known_match(f, c, impl):
    return False


def replay_known(f):
    if f['id'] == 'C13-float-sample-count':
        lentil = C.import_lentil()
        S = lentil.radiometry.Spectrum
        a = S(np.arange(500., 601., 10.), np.ones(11), waveunit='nm')
        b = S(np.arange(550., 651., 10.), np.ones(11), waveunit='nm')
        b2 = b.copy()
        b2.to('um')
        return len((a * b).wave) != len((a * b2).wave)
    return False


# ------------------------------------------------------------------ labelled tests: spline interpolation against scipy itself
def extra(tier, rng):
    return guarded(lambda: extra_(tier, rng))


def extra_(tier, rng):
    import scipy.interpolate
    lentil = C.import_lentil()
    viol, n = [], 0
    ufn = {'add': np.add, 'sub': np.subtract, 'mul': np.multiply, 'div': np.divide, 'pow': np.power}
    for _ in range(30 if tier == 'quick' else 400):
        w1, w2, rel = rnd_pair(rng, tier)
        while len(w1) < 4:
            w1.append(w1[-1] + (w1[-1] - w1[-2]))
        while len(w2) < 4:
            w2.append(w2[-1] + (w2[-1] - w2[-2]))
        method = rng.choice(['quadratic', 'cubic'])
        o = rng.choice(['add', 'sub', 'mul'])
        fill = fl(rng.choice([0, 1, -2]))
        c = {'op': 'spec', 'o': o, 'a': spec_dict(w1, rnd_values(rng, len(w1), 'dy')), 'b': spec_dict(w2, rnd_values(rng, len(w2), 'dy')),
             'sampling': rnd_sampling(rng, w1, w2), 'fill': str(F(fill)), 'method': method}
        with np.errstate(all='ignore'):
            A, B = mk(c['a']), mk(c['b'])
            sa, sb = snap(A), snap(B)
            try:
                r = call_op(A, B, c)
            except Exception as e:
                viol.append({'case': c, 'impl': {'err': type(e).__name__}, 'what': f'{method} interpolation raised'})
                continue
            n += 1
            an = analyse(c)
            w = np.asarray(r.wave)
            ok = len(w) == an['num'] + 1 and F(float(w[0])) == an['mn'] and F(float(w[-1])) == an['mx']
            vals = []
            for S in (A, B):
                f = scipy.interpolate.interp1d(S.wave, S.value, kind=method)
                inside = (w >= S.wave.min()) & (w <= S.wave.max())
                v = np.full(w.shape, fill)
                v[inside] = f(w[inside])
                vals.append(v)
            exp = ufn[o](vals[0], vals[1])
            ok = ok and np.allclose(np.asarray(r.value), exp, rtol=1e-12, atol=1e-12 * (1 + np.abs(exp).max()))
            ok = ok and snap(A) == sa and snap(B) == sb
            if not ok:
                viol.append({'case': c, 'impl': res(r), 'what': f'{method}: result differs from scipy spline of each operand on the common grid'})
    rep_ = {'spline_cases_compared_with_scipy (test, not proof)': n}
    rep_.update(STATS)
    return {'report': rep_, 'violations': viol}



# ------------------------------------------------------------------ WP-T3: translation layer (source -> Gallina)
# An ADDITIONAL tie (DESIGN 10.3): harness/gen_src.py (suite 'C13') translates the np.linspace arguments (size of the common grid) of lentil/radiometry.py:_interp_common on integer wavelength grids
# from the CURRENT source text into coq/theories/Gen/SpectrumOpSrc.v; Proofs/SpectrumOpSrcP.v proves every translated term equal to the model for
# all integers; Properties/C13Src.v states it.  Policy: a function the translator refuses is only reported; a
# translated function whose equivalence lemma no longer compiles is compared with the model mirror on sampled points,
# an exhaustive small box and random points - a found disagreement is a VIOLATION with that witness (replayable: op
# 'src'), none found is reported as unproved.  The build of C13Src happens here, never in COQ_TARGETS.
_extra_before_src_layer = extra


def extra(tier, rng):
    from .. import gen_src as G
    try:
        base = _extra_before_src_layer(tier, rng)
    except Exception as e:          # keep the translation layer's verdict when the other checks cannot even run
        import traceback
        base = {'report': {'error': traceback.format_exc()[-800:]},
                'violations': [{'case': None, 'impl': None,
                                'what': f'extra: the checks preceding the translation layer raised {type(e).__name__}: {e}'}]}
    layer = G.run_layer('C13', ID, tier, rng, C)
    report = dict(base.get('report', {}))
    report['source_translation'] = layer['report']
    return {'report': report, 'violations': list(base.get('violations', [])) + layer['violations']}


def _wrap_src_replay():
    from .. import gen_src as G
    return G.wrap_replay(run_impl, oracle, C)


run_impl, oracle = _wrap_src_replay()
