"""C18 - stochastic models are reproducible from their seed and physically bounded."""
import math
from fractions import Fraction

import numpy as np

from .. import common as C

ID = 'C18'
MODEL = 'c18'
RUNFUN = 'run'
COQ_TARGETS = ['theories/Properties/C18.vo', 'theories/Extract/RunC18.vo']
DESIGN_REF = 'DESIGN.md section 6, C18'
TECHNIQUE = ('Coq proof about an executable model in which numpy.random.default_rng(seed) is an oracle (the drawn array '
             'is an input): guards, floor/int64 cast, floor(rate*fpn), masking and RMS normalisation (over the reals, sqrt), '
             'accumulation of cosmic-ray deposits; the extracted model is run on the very draws the implementation used '
             '(re-created from the seed) and compared exactly; moments of the draws are labelled numeric tests')
LEVEL_TEXT = ('Theorems in coq/theories/Properties/C18.v for all frames, shapes (square or not), parameters and drawn arrays: '
              'dark frame without FPN = floor(rate); power_spectrum output is 0 outside the mask with sum of squares '
              'rms^2*count and RMS over its support exactly |rms|; shot-noise guards (negative / above 9.223372006484771e18 '
              '=> ValueError) and output = floor(draw) >= 0 (Poisson) or the int64 cast of the draw (Gaussian); cosmic-ray '
              'frame has the requested shape and is a sum of non-negative deposits; entry points: refusal order (method string, seed, '
              'frame / scale / dimensions), every shape form of dark_current, mask rank, number of cosmic rays and generator consumption. '
              'Seed reproducibility is structural in the '
              'model and is checked on the implementation (global generator neither read nor advanced).')
LEVEL_NOTE = ('Trusted: Coq kernel + stdlib Reals axioms, extraction, harness; numpy Generator (deterministic in seed and request, '
              'Poisson draws non-negative integers, lognormal positive) is an oracle with a stated contract. Means/variances and '
              '"different seeds differ" are numeric tests with fixed seeds and 4-sigma bands, not theorems. The Gaussian shot-noise '
              'path lacked the upper guard (counts >= ~9.22e18 came back as -2^63): found here, repaired by fix a1d0f6b.')
TRUSTED = ['Coq 8.16.1 kernel (coqc; coqchk in the thorough tier)',
           'extraction with ExtrOcamlBasic only; ocaml/driver.ml',
           'ORACLE numpy.random.default_rng(seed): deterministic in (seed, request); poisson draws are non-negative integers; '
           'lognormal draws are positive; normal(scale<0) raises ValueError; default_rng raises ValueError for a negative integer seed '
           '(alone or in a sequence) and TypeError for a float; np.ones / lognormal raise ValueError for a negative dimension; the '
           'global MT19937 stream is advanced by one double per np.random.uniform()/rand(). Never proved, re-queried by the harness on every case',
           'harness/props/c18.py: codec; transcription of wfe.py lines 44-65 (frequency grid, PSD filter, FFT) that turns the '
           'normal draw into the filtered draw handed to the model; the float value of np.sqrt(count/ss) is an oracle input '
           'whose square is checked against the model\'s exact count/ss to 1e-12; transcription of the cosmic-ray geometry '
           '(private helper lentil.detector._propagate_ray) producing the deposits handed to the model',
           'IEEE double -> int64 conversion outside the int64 range yields INT64_MIN (x86-64 behaviour, modelled in cast_int64)',
           'float arithmetic: one correctly rounded operation = rounding of the exact rational result (used to compare exactly)']
ASSUMPTIONS = ['finite inputs (no NaN/inf) of dtype float64/float32/int64/int32/uint16/uint8/bool whose values are exactly '
               'representable as doubles; frames 0-d, or 2-d with positive dimensions (dark frames also 1-d)',
               'seed is an int or a list of ints (seed=None is non-deterministic by definition and excluded)',
               'binary masks for power_spectrum; comparison tolerance 1e-12 relative there (sqrt, FFT), exact elsewhere',
               'Gaussian shot noise: non-negativity only claimed in the documented large-count regime (lambda >= 1000)']
RULE = ('corpus first, then large frames (4096 .. 2**20+ samples, dense and mostly empty, with hidden illegal pixels), ndarray-subclass '
        'containers and 1x1 frames, call sequences (2-4 calls in one interpreter state, one argument changed per step, each call compared '
        'with the model on its own draw and with the same call made first after a module reset / in a new process), then per function (shot poisson/gaussian, read, dark, power_spectrum) random (seed, shape, parameter) '
        'combinations, square and non-square, including refused inputs (negative, above the bound); every seeded call is made '
        'under two different global generator states and twice; cosmic_rays under many global generator states; '
        'non-trivial = more than one sample and (for seeded functions) a draw is actually used')

LAM_MAX = 9.223372006484771e+18
TOL = 1e-12


# ------------------------------------------------------------------ helpers
def seed_of(c):
    s = c['seed']
    if isinstance(s, list):
        return list(s)
    return s if isinstance(s, float) else int(s)


def seed_error(s):
    """what numpy.random.default_rng(seed) does with the seeds the cases use (the oracle's contract)"""
    if isinstance(s, float):
        return 'TypeError'
    if isinstance(s, list):
        return 'ValueError' if any(v < 0 for v in s) else None
    return 'ValueError' if s < 0 else None


def enc_seed(s):
    if isinstance(s, float):
        return [2]
    if isinstance(s, list):
        return [1, len(s)] + [int(v) for v in s]
    return [0, int(s)]


def _try(f):
    try:
        r = f()
        return ('ok', np.array(r, dtype=float, copy=True), type(r).__name__)
    except Exception as e:      # noqa: BLE001 - every exception is a result here
        return ('err', type(e).__name__, str(e))


def _same(a, b):
    if a[0] != b[0]:
        return False
    if a[0] == 'err':
        return a[1] == b[1]
    return a[1].shape == b[1].shape and np.array_equal(a[1], b[1], equal_nan=True)


def _state_eq(a, b):
    return a[0] == b[0] and np.array_equal(a[1], b[1]) and tuple(a[2:]) == tuple(b[2:])


def seeded_call(f):
    """call f under a known global-generator state, record the state afterwards, call it again (twice) under a
    different global state: a seeded function neither reads nor advances the global generator"""
    saved = np.random.get_state()
    try:
        np.random.seed(20240917)
        st0 = np.random.get_state()
        r1 = _try(f)
        st1 = np.random.get_state()
        np.random.seed(77)
        np.random.random(13)
        r2 = _try(f)
        r3 = _try(f)
        # the caller's numpy error state and warnings filters: results and refusals must not depend on them
        # ('ignore' can never create an exception the library did not intend), and the library must leave them alone
        import warnings
        err0, nfilters0 = np.geterr(), list(warnings.filters)
        r1b = _try(f)
        err_kept = (np.geterr() == err0) and (list(warnings.filters) == nfilters0)
        with np.errstate(all='ignore'):
            with warnings.catch_warnings():
                warnings.simplefilter('ignore')
                r4 = _try(f)
        with np.errstate(all='warn'):
            with warnings.catch_warnings(record=True):
                warnings.simplefilter('always')
                r5 = _try(f)
    finally:
        np.random.set_state(saved)
    res = {'state_untouched': bool(_state_eq(st0, st1)), 'repeatable': bool(_same(r1, r2) and _same(r1, r3))}
    if not (_same(r1, r4) and _same(r1, r5) and _same(r1, r1b)):
        res['errstate_independent'] = False
        res['under_ignore'] = r4[1] if r4[0] == 'err' else 'returned a value'
    if not err_kept:
        res['errstate_kept'] = False
    if r1[0] == 'err':
        res['err'] = r1[1]
        res['msg'] = r1[2]
    else:
        res['out'] = r1[1].tolist() if r1[1].size <= BIG_OUT else BigOut(r1[1])
        res['shape'] = list(r1[1].shape)
    if getattr(f, 'touched', None):
        res['input_untouched'] = False
    return res


def common_oracle(impl, what):
    if impl.get('errstate_independent') is False:
        return (f'{what} depends on the numpy error state of the caller / warnings filters: under np.errstate(all="ignore") it '
                f'{impl.get("under_ignore")}, normally it {"raised " + impl["err"] if "err" in impl else "returned a value"}')
    if impl.get('errstate_kept') is False:
        return f'{what} changed the numpy error state of the caller or warnings filters'
    if impl.get('input_untouched') is False:
        return f'{what} wrote into the frame the caller passed in'
    if not impl.get('state_untouched', True):
        return f'{what} changed the state of the global numpy generator (a seeded model must neither read nor advance it)'
    if not impl.get('repeatable', True):
        return f'{what}: same arguments and seed gave different results under different global generator states'
    return None


def as2d(x):
    a = np.asarray(x, dtype=float)
    if a.ndim == 0:
        return a.reshape(1, 1)
    if a.ndim == 1:
        return a.reshape(1, -1)
    return a


def enc_arr_q(a):
    a = as2d(a)
    out = [a.shape[0], a.shape[1]]
    for v in a.ravel().tolist():
        out += C.enc_q(v)
    return out


def enc_arr_int(a):
    a = np.asarray(a)
    if a.ndim == 0:
        a = a.reshape(1, 1)
    out = [a.shape[0], a.shape[1]]
    for v in a.ravel().tolist():
        out += [int(v), 1]
    return out


DTYPES = ['float64', 'float32', 'int64', 'int32', 'uint16', 'uint8', 'bool']
DT_MAX = {'float32': 2.0 ** 24, 'int64': 2.0 ** 53, 'int32': 2.0 ** 31 - 1, 'uint16': 65535.0, 'uint8': 255.0, 'bool': 1.0}


MODEL_MAX = 4500          # frames up to this many samples are also run through the extracted model
BIG_OUT = 20000           # results above this size are kept as arrays and summarised in replays


class BigOut:
    """a big result frame: behaves as an array for the oracle, prints as a summary in evidence/replay files"""
    def __init__(self, a):
        self.a = a

    def __array__(self, dtype=None, copy=None):
        return self.a if dtype is None else self.a.astype(dtype)

    def __str__(self):
        a = self.a
        return (f'<frame {list(a.shape)} min {a.min()!r} max {a.max()!r} sum {float(a.sum())!r} '
                f'negative samples {int((a < 0).sum())} first {a.ravel()[:6].tolist()}>')


class MetaArray(np.ndarray):
    """an ndarray subclass that carries metadata (a legal array_like input of the public API)"""
    def __new__(cls, a, info='frame 17'):
        o = np.asarray(a).view(cls)
        o.info = info
        return o

    def __array_finalize__(self, obj):
        self.info = getattr(obj, 'info', None)


CONTAINERS = ['masked', 'matrix', 'meta', 'memmap']


def wrap(a, kind):
    """the same data in another array container; results must be those of the plain ndarray"""
    if kind in (None, 'ndarray'):
        return a
    if kind == 'masked':        # no masked entries (the meaning of masked samples is not defined by the API)
        return np.ma.MaskedArray(a, mask=np.zeros(a.shape, dtype=bool))
    if kind == 'matrix':
        return np.matrix(a) if a.ndim == 2 else a
    if kind == 'meta':
        return MetaArray(a)
    if kind == 'memmap':
        import tempfile
        if a.size == 0:
            return a
        fh = tempfile.NamedTemporaryFile(prefix='lv-c18-', dir='/var/tmp')
        mm = np.memmap(fh, dtype=a.dtype, mode='w+', shape=a.shape)
        mm[...] = a
        mm._lv_keep = fh            # the file lives as long as the array
        return mm
    raise ValueError(kind)


def entry_mask(shape):
    """a mask of any rank: ones with a hole in the first sample"""
    a = np.ones(tuple(shape))
    if a.size > 1:
        a.flat[0] = 0.0
    return a


def raw_arr(x):
    """a frame stored in a case: a number, nested lists, or a generative description of a big frame
    ({'kind','shape','fseed','lit','level','poke'}: deterministic, so the case stays self-contained)"""
    if not isinstance(x, dict):
        return np.array(x, dtype=float)
    if 'any_rank' in x:
        return entry_mask(x['any_rank'])
    g = np.random.default_rng(x['fseed'])
    n, m = x['shape']
    if x['kind'] == 'disc':
        ii, jj = np.mgrid[0:n, 0:m]
        a = (((ii - (n - 1) / 2) / (n / 2)) ** 2 + ((jj - (m - 1) / 2) / (m / 2)) ** 2 <= x['lit'] ** 2).astype(float)
    else:
        lit = g.random((n, m)) < x['lit']
        a = np.zeros((n, m))
        a[lit] = 1.0 if x['kind'] == 'mask' else np.floor(g.random(int(lit.sum())) * x['level']) + 1.0
    for i, j, v in x.get('poke', []):
        a[i, j] = v
    return a


def img_of(c):
    """the input frame in the dtype the case asks for (default float64); every stored value is exactly representable in
    that dtype, so the typed frame and its float64 image denote the same numbers"""
    a = raw_arr(c['img'])
    dt = c.get('dtype', 'float64')
    if dt == 'float64':
        return a
    t = a.astype(dt)
    assert np.array_equal(t.astype(float), a), 'case values are not representable in ' + dt
    return t


# ---- the draws the implementation uses, re-created from the seed (the oracle is queried with the same request)
def shot_draw(c):
    img = img_of(c)
    rng = np.random.default_rng(seed_of(c))
    try:
        if c['method'] == 'poisson':
            return np.asarray(rng.poisson(img))
        with np.errstate(all='ignore'):
            d = np.asarray(rng.normal(loc=img, scale=np.sqrt(img)))
        if not np.all(np.isfinite(d)):
            return None
        return d
    except ValueError:
        return None


def read_draw(c):
    img = img_of(c)
    return np.random.default_rng(seed_of(c)).normal(loc=0.0, scale=c['electrons'], size=img.shape)


def dark_rate(c):
    """the rate in the Python/numpy type the case asks for (the stored value is representable in it)"""
    t = c.get('rate_type', 'float')
    r = {'float': float, 'int': int, 'int64': np.int64, 'float32': np.float32, 'uint16': np.uint16, 'uint8': np.uint8,
         'int8': np.int8}[t](c['rate'])
    assert float(r) == c['rate'], 'rate not representable as ' + t
    return r


def dark_shape(c):
    if c['shape'] is None:
        return None
    if isinstance(c['shape'], int):
        return (c['shape'],)         # shape=k: a 1-d frame of k pixels
    return tuple(c['shape'])


def dark_shape2(c):
    """the 2-d shape under which the model sees the frame"""
    shp = dark_shape(c) or (1,)
    return (1, shp[0]) if len(shp) == 1 else shp


def dark_draw(c):
    shp = dark_shape(c)
    if shp is None:
        shp = 1
    if c['fpn'] > 0:
        return np.random.default_rng(seed_of(c)).lognormal(mean=1.0, sigma=c['fpn'], size=shp)
    return np.ones(shp)


def ps_filtered_draw(n, m, pixelscale, half_power_freq, exp, seed):
    """transcription of lentil/wfe.py:power_spectrum up to the masking step (current tree)"""
    rng = np.random.default_rng(seed)
    with np.errstate(all='ignore'):
        yy, xx = np.mgrid[0:n, 0:m]
        yy = (yy - (np.floor(n / 2) + 1)) / n
        xx = (xx - (np.floor(m / 2) + 1)) / m
        dr = np.sqrt(xx * xx + yy * yy)
        hpf = half_power_freq * pixelscale / np.sqrt(m ** 2 + n ** 2)
        psd = 1 / (1 + (dr / hpf) ** exp)
        psd[dr == 0] = 0
        psd = psd / np.sum(psd)
        H = np.fft.fftshift(np.sqrt(psd))
        noise = rng.normal(size=[n, m])
        return np.real(np.fft.ifft2(np.fft.fft2(noise) * H)) * np.sqrt(m * n)


def ps_inputs(c):
    mask = entry_mask(c['mask_shape']) if c.get('entry') else raw_arr(c['mask'])
    n, m = mask.shape
    filt = ps_filtered_draw(n, m, c['pixelscale'], c['hpf'], c['exp'], seed_of(c))
    opd = filt * mask
    cnt = int(np.count_nonzero(opd))
    with np.errstate(all='ignore'):
        s = float(np.sqrt(cnt / np.sum(np.abs(opd) ** 2))) if cnt else 1.0
    return filt, mask, s


def cosmic_deposits(c):
    """transcription of detector._nrays/_cosmic_ray: the same sequence of requests to the global generator, the ray
    geometry through the private helper _propagate_ray; returns per ray the list (row, col, flux, dist)"""
    lentil = C.import_lentil()
    D = lentil.detector
    saved = np.random.get_state()
    try:
        return _cosmic_deposits(c, D)
    finally:
        np.random.set_state(saved)


def _cosmic_deposits(c, D):
    """returns (x, u, rays, expected number of doubles consumed, nrays); each ray = (particle draw, [(row, col, dist)]);
    two candidate rays more than the code uses are traced by continuing the stream (the model must not use them)"""
    shape = tuple(c['shape'])
    pixelscale = np.asarray(c['pixelscale'], dtype=float)
    np.random.seed(c['gseed'])
    np.random.random(c['advance'])
    area = shape[0] * pixelscale[0] * shape[1] * pixelscale[1]
    x = area * c['rate'] * c['ts']
    u = 0.0
    if x < 1:
        u = np.random.uniform()
        nrays = 1 if u <= x else 0
    else:
        nrays = int(x)
    consumed = (1 if x < 1 else 0) + 5 * nrays
    rays = []
    for _ in range(nrays + 2):
        part = np.random.uniform()
        r = np.random.rand() * (shape[0] - 1)
        cc = np.random.rand() * (shape[1] - 1)
        position = np.array([r, cc, 0])
        theta = np.random.uniform() * 2 * np.pi
        phi = np.random.uniform() * 1 * np.pi
        direction = np.array([np.cos(theta) * np.cos(phi), np.sin(theta) * np.cos(phi), -np.sin(phi)])
        scale = pixelscale / np.max(pixelscale)
        direction /= scale
        direction /= np.linalg.norm(direction)
        extent = (0, shape[0] - 1, 0, shape[1] - 1, 0, -1)
        ray = D._propagate_ray(position, direction, extent)
        segs = []
        for i in range(ray.shape[0] - 1):
            dr = (ray[i + 1][0] - ray[i][0]) * pixelscale[0]
            dc = (ray[i + 1][1] - ray[i][1]) * pixelscale[1]
            dz = (ray[i + 1][2] - ray[i][2]) * pixelscale[2]
            dist = np.sqrt(dr ** 2 + dc ** 2 + dz ** 2)
            segs.append((int(np.floor(ray[i + 1][0])), int(np.floor(ray[i + 1][1])), float(dist)))
        rays.append((float(part), segs))
    return float(x), float(u), rays, consumed, nrays


# ------------------------------------------------------------------ generation
def rnd_seed(rng):
    t = rng.random()
    if t < 0.6:
        return rng.randint(0, 2 ** 32 - 1)
    if t < 0.75:
        return rng.randint(0, 20)
    if t < 0.9:
        return rng.randint(2 ** 40, 2 ** 80)
    return [rng.randint(0, 2 ** 32 - 1) for _ in range(rng.randint(1, 3))]


def rnd_shape(rng, maxn=6):
    if rng.random() < 0.25:
        n = rng.randint(1, maxn)
        return n, n
    return rng.randint(1, maxn), rng.randint(1, maxn)


def rnd_counts(rng, n, m, method):
    regime = rng.choice(['small', 'small', 'mid', 'large', 'large', 'edge', 'mixed'])
    def one():
        r = regime if regime != 'mixed' else rng.choice(['small', 'mid', 'large', 'edge'])
        if r == 'small':
            return rng.choice([0.0, 0.25, 0.5, 1.0, 2.0, 3.75, float(rng.randint(0, 30)), rng.random() * 20])
        if r == 'mid':
            return float(rng.randint(30, 5000)) + rng.choice([0.0, 0.5, rng.random()])
        if r == 'large':
            return rng.choice([1e3, 1e4, 1e6, 1e9, 1e12]) * (1 + rng.random())
        return rng.choice([LAM_MAX, LAM_MAX - 1024.0, 9.0e18, 2.0 ** 62, 2.0 ** 53 + 2.0, 1e17])
    img = [[one() for _ in range(m)] for _ in range(n)]
    t = rng.random()
    if t < 0.14:       # a negative sample somewhere
        img[rng.randrange(n)][rng.randrange(m)] = rng.choice([-1.0, -0.5, -1e-9, -10.0, -1e19])
    elif t < 0.28:     # a sample above the bound somewhere
        img[rng.randrange(n)][rng.randrange(m)] = rng.choice([float(np.nextafter(LAM_MAX, np.inf)), 9.3e18, 1e19, 1e30, 2.0 ** 63])
    elif t < 0.32:
        img[rng.randrange(n)][rng.randrange(m)] = -3.0
        img[rng.randrange(n)][rng.randrange(m)] = 1e19
    return img


MASK_DTYPES = ['float', 'int', 'bool', 'uint8', 'int32', 'float32', 'uint16']
PS_PIXELSCALES = [1.0, 1 / 64, 1 / 256, 0.01, 0.3]
PS_HPFS = [1.0, 5.0, 8.0, 20.0, 2.5]
PS_EXPS = [1.0, 2.0, 3.0, 2.5, 11 / 3]
PS_RMS = [1.0, 50e-9, 25e-9, 2.5, -3e-8]


def other(rng, pool, cur):
    return rng.choice([v for v in pool if v != cur])


def bump(v, dt):
    """another valid sample value of the same dtype"""
    if dt == 'bool':
        return 1.0 - v
    if dt == 'float64':
        return v * 2 + 3.5
    return float((int(v) + 7) % 200)


def vary(rng, c):
    """a copy of the seeded case c with exactly ONE argument changed (shapes stay equal)"""
    d = {k: (v if not isinstance(v, list) else [list(r) if isinstance(r, list) else r for r in v]) for k, v in c.items()}
    op = c['op']
    if op == 'ps':
        f = rng.choice(['pixelscale', 'pixelscale', 'hpf', 'exp', 'rms', 'seed', 'mask'])
        if f == 'pixelscale':
            d['pixelscale'] = other(rng, PS_PIXELSCALES, c['pixelscale'])
        elif f == 'hpf':
            d['hpf'] = other(rng, PS_HPFS, c['hpf'])
        elif f == 'exp':
            d['exp'] = other(rng, PS_EXPS, c['exp'])
        elif f == 'rms':
            d['rms'] = other(rng, PS_RMS, c['rms'])
        elif f == 'seed':
            d['seed'] = rnd_seed(rng)
        else:
            i, j = rng.randrange(len(d['mask'])), rng.randrange(len(d['mask'][0]))
            d['mask'][i][j] = 1 - d['mask'][i][j]
    elif op == 'shot':
        f = rng.choice(['seed', 'seed', 'method', 'img'])
        if f == 'seed':
            d['seed'] = rnd_seed(rng)
        elif f == 'method':
            d['method'] = 'gaussian' if c['method'] == 'poisson' else 'poisson'
        else:
            i, j = rng.randrange(len(d['img'])), rng.randrange(len(d['img'][0]))
            d['img'][i][j] = bump(d['img'][i][j], c.get('dtype', 'float64'))
    elif op == 'read':
        f = rng.choice(['seed', 'seed', 'electrons', 'img'])
        if f == 'seed':
            d['seed'] = rnd_seed(rng)
        elif f == 'electrons':
            d['electrons'] = other(rng, [0.0, 1.0, 2.5, 10.0, 100.0], c['electrons'])
        else:
            i, j = rng.randrange(len(d['img'])), rng.randrange(len(d['img'][0]))
            d['img'][i][j] = bump(d['img'][i][j], c.get('dtype', 'float64'))
    elif op == 'dark':
        f = rng.choice(['seed', 'seed', 'rate', 'fpn'])
        if f == 'seed':
            d['seed'] = rnd_seed(rng)
        elif f == 'rate':
            d['rate'] = other(rng, [0.3, 7.0, 100.0, 100.7, 1234.5, 2.9999999, 16777217.0, 999.99999], c['rate'])
        else:
            d['fpn'] = other(rng, [0.0, 0.1, 0.25, 0.4], c['fpn'])
    return d


def sequences(rng, tier):
    """call-sequence (history) cases: 2-4 calls in one interpreter state on equal shapes, one argument changed per step,
    sometimes returning to the first call"""
    kp, ko = (24, 8) if tier == 'quick' else (240, 80)
    nsub = 1 if tier == 'quick' else 8
    plans = [('ps', kp), ('shot', ko), ('read', ko), ('dark', ko)]
    for op, cnt in plans:
        for q in range(cnt):
            if op == 'ps':
                n, m = rnd_shape(rng, 8)
                n, m = max(n, 2), max(m, 3)
                mask = [[1 if rng.random() < 0.7 else 0 for _ in range(m)] for _ in range(n)]
                mask[0][0] = 1
                base = {'op': 'ps', 'seed': rnd_seed(rng), 'mask': mask, 'mask_dtype': rng.choice(MASK_DTYPES),
                        'pixelscale': rng.choice(PS_PIXELSCALES), 'rms': rng.choice(PS_RMS), 'hpf': rng.choice(PS_HPFS),
                        'exp': rng.choice(PS_EXPS)}
            elif op == 'shot':
                n, m = rnd_shape(rng, 4)
                dt = rnd_dtype(rng)
                base = {'op': 'shot', 'method': rng.choice(['poisson', 'gaussian']), 'seed': rnd_seed(rng),
                        'img': [[rng.choice([0.0, 2.5, 40.0, 1e3, 1e6]) + rng.randint(0, 9) for _ in range(m)] for _ in range(n)]}
                if dt != 'float64':
                    base.update(img=rnd_typed_counts(rng, n, m, dt, signed_ok=False), dtype=dt)
            elif op == 'read':
                n, m = rnd_shape(rng, 4)
                dt = rnd_dtype(rng)
                base = {'op': 'read', 'seed': rnd_seed(rng), 'electrons': rng.choice([1.0, 2.5, 10.0]),
                        'img': [[float(rng.randint(0, 200)) for _ in range(m)] for _ in range(n)]}
                if dt != 'float64':
                    base.update(img=rnd_typed_counts(rng, n, m, dt, signed_ok=False), dtype=dt)
            else:
                n, m = rnd_shape(rng, 4)
                base = {'op': 'dark', 'seed': rnd_seed(rng), 'rate': rng.choice([7.0, 100.0, 100.7]), 'shape': [n, m],
                        'fpn': rng.choice([0.1, 0.25, 0.4, 0.0])}
            if rng.random() < 0.15:
                base['seed'] = 0           # the falsy seed
            calls = [base]
            for _ in range(rng.randint(1, 3)):
                calls.append(vary(rng, calls[-1]))
            if rng.random() < 0.3 and op != 'ps':          # a REFUSED call in the middle must leave nothing behind
                if op == 'shot':
                    bad = dict(calls[0], img=[list(r) for r in calls[0]['img']])
                    bad['img'][0][0] = 1e19 if bad.get('dtype') in ('uint16', 'uint8', 'bool') else -1.0
                    if bad.get('dtype') in ('uint16', 'uint8', 'bool'):
                        bad.pop('dtype')
                elif op == 'read':
                    bad = dict(calls[0], entry=True, electrons=-1.0)
                else:
                    bad = dict(calls[0], entry=True, seed=-1, fpn=0.25)
                calls.insert(1, bad)
                calls = calls[:4]
            if len(calls) < 4 and rng.random() < 0.4:
                calls.append(dict(calls[0]))          # back to the first call: must reproduce it
            c = {'op': 'seq', 'calls': calls}
            if op == 'ps' and q < nsub:
                c['subprocess'] = True
            yield c


def edge_value(rng, lo_ok=True):
    """values at the edges of float32 / float64 resolution: just below / above whole numbers, above 2**24, 2**31 and near
    2**53, tiny positive values (a computation done in single precision, or rounded early, moves them across an integer)"""
    k = float(rng.choice([1, 2, 3, 7, 50, 100, 1000, 4096, 65536, 10 ** 6]))
    t = rng.randrange(12)
    if t == 0:
        return k - 1e-7
    if t == 1:
        return k + 1e-7
    if t == 2:
        return k - 2.0 ** -20
    if t == 3:
        return k + 2.0 ** -20
    if t == 4:
        return k * (1 - 2.0 ** -24)
    if t == 5:
        return k * (1 + 2.0 ** -24)
    if t == 6:
        return float(np.nextafter(k, 0))              # one double ulp below a whole number
    if t == 7:
        return rng.choice([16777217.0, 16777219.0, 33554433.0, 123456789.0, 2.0 ** 24 + 1.5])
    if t == 8:
        return rng.choice([2.0 ** 31 + 1, 4.0e9 + 1, 2.0 ** 32 + 3, 2.0 ** 40 + 1])
    if t == 9:
        return rng.choice([2.0 ** 53 - 1, 2.0 ** 53, 2.0 ** 52 + 0.5, 2.0 ** 53 + 2])
    if t == 10 and lo_ok:
        return rng.choice([1e-300, 5e-324, 1e-9, 2.0 ** -30, 0.9999999, 0.99999999999])
    return rng.choice([2.9999999, 49.999999, 999.99999, 9.99999999, 255.9999999])


def rnd_dtype(rng):
    return 'float64' if rng.random() < 0.4 else rng.choice(DTYPES[1:])


def rnd_typed_counts(rng, n, m, dt, signed_ok=True):
    """count frames whose values are exactly representable in dtype dt (integers for the integer dtypes)"""
    hi = DT_MAX[dt]
    def one():
        if dt == 'bool':
            return float(rng.randint(0, 1))
        if dt == 'float32':
            return float(np.float32(rng.choice([0.0, 0.5, 3.75, rng.random() * 50, float(rng.randint(0, 5000)), 1e6 * rng.random()])))
        r = rng.random()
        if r < 0.5:
            return float(rng.randint(0, min(40, int(hi))))
        if r < 0.85:
            return float(rng.randint(0, int(min(hi, 60000))))
        return float(rng.randint(0, int(min(hi, 2.0 ** 40))))
    img = [[one() for _ in range(m)] for _ in range(n)]
    t = rng.random()
    i, j = rng.randrange(n), rng.randrange(m)
    if signed_ok and dt in ('int64', 'int32', 'float32') and t < 0.12:
        img[i][j] = float(rng.choice([-1, -7, -30000]))
    elif signed_ok and dt == 'int64' and t < 0.24:
        # exactly representable both as int64 and as double: at the bound (accepted), 1024 above (refused), 2^62
        img[i][j] = rng.choice([9223372006484770816.0, 9223372006484771840.0, 2.0 ** 62])
    elif signed_ok and dt == 'float32' and t < 0.2:
        img[i][j] = float(np.float32(1e19))
    return img


BIG_SHAPES = [[64, 64], [70, 61], [61, 70], [200, 75], [4096, 1], [1, 4099], [128, 33]]
HUGE_SHAPES = [[1024, 1025], [1049, 1000]]        # >= 2**20 samples, not a power of two


def big_frame(rng, shape, kind='counts'):
    """a large frame (thresholds in the code may select another path for big / mostly-empty inputs): lit fraction on both
    sides of 1/4 and 1/2, sometimes with one or a few illegal pixels hidden in it"""
    return {'kind': kind, 'shape': list(shape), 'fseed': rng.randint(0, 2 ** 31), 'lit': rng.choice([0.01, 0.05, 0.2, 0.24, 0.26, 0.6, 1.0]),
            'level': rng.choice([5.0, 200.0, 60000.0]), 'poke': []}


def large_cases(rng, tier):
    kb = 4 if tier == 'quick' else 40
    for q in range(kb):
        huge = (q == 0) if tier == 'quick' else (q % 10 == 0)
        for method in ('poisson', 'gaussian'):
            shape = rng.choice(HUGE_SHAPES if huge else BIG_SHAPES)
            for variant in ('legal', 'negative', 'toolarge'):
                f = big_frame(rng, shape)
                c = {'op': 'shot', 'method': method, 'seed': rnd_seed(rng), 'img': f}
                if variant == 'legal' and f['level'] <= 60000.0 and rng.random() < 0.4:
                    c['dtype'] = rng.choice(['uint16', 'int32', 'float32'])
                for _k in range(rng.choice([1, 1, 3]) if variant != 'legal' else 0):
                    v = rng.choice([-1.0, -0.5, -1e-9, -1e-300, -40.0]) if variant == 'negative' else \
                        rng.choice([1e19, 9.3e18, float(np.nextafter(LAM_MAX, np.inf))])
                    f['poke'].append([rng.randrange(shape[0]), rng.randrange(shape[1]), v])
                yield c
        shape = rng.choice(HUGE_SHAPES if huge else BIG_SHAPES)
        c = {'op': 'read', 'seed': rnd_seed(rng), 'img': big_frame(rng, shape), 'electrons': rng.choice([2.5, 10.0, 0.3])}
        if rng.random() < 0.5:
            c['img']['level'] = 200.0
            c['dtype'] = rng.choice(['uint16', 'int64', 'float32'])
        yield c
        shape = rng.choice(HUGE_SHAPES if huge else BIG_SHAPES)
        yield {'op': 'dark', 'seed': rnd_seed(rng), 'rate': rng.choice([100.7, 2.9999999, 16777217.0, 7.0]), 'shape': list(shape),
               'fpn': rng.choice([0.0, 0.25])}
        shape = rng.choice(HUGE_SHAPES if (huge and tier != 'quick') else [sh for sh in BIG_SHAPES if min(sh) > 1])
        mk = big_frame(rng, shape, kind=rng.choice(['mask', 'disc']))
        mk['lit'] = max(mk['lit'], 0.2)
        yield {'op': 'ps', 'seed': rnd_seed(rng), 'mask': mk, 'mask_dtype': rng.choice(MASK_DTYPES),
               'pixelscale': rng.choice(PS_PIXELSCALES), 'rms': rng.choice(PS_RMS), 'hpf': rng.choice(PS_HPFS),
               'exp': rng.choice(PS_EXPS)}


BLOCK_SHAPES = [[2049, 2048], [3072, 2048], [1, 2 ** 22 + 5]]      # > 2**22 samples, size % 2**22 != 0


def block_cases(rng, tier):
    """frames beyond 2**22 samples whose size is not a multiple of 2**22 (block-wise processing must not drop the
    remainder): one read-noise frame in the quick tier, every seeded function in the thorough tier; oracle only"""
    yield {'op': 'read', 'seed': rnd_seed(rng), 'img': big_frame(rng, BLOCK_SHAPES[0]), 'electrons': 2.5}
    if tier == 'quick':
        return
    for shape in BLOCK_SHAPES[1:]:
        f = big_frame(rng, shape)
        f['level'] = 200.0
        yield {'op': 'read', 'seed': rnd_seed(rng), 'img': f, 'electrons': 10.0, 'dtype': 'uint16'}
    for method in ('poisson', 'gaussian'):
        yield {'op': 'shot', 'method': method, 'seed': rnd_seed(rng), 'img': big_frame(rng, BLOCK_SHAPES[1])}
        f = big_frame(rng, BLOCK_SHAPES[0])
        f['poke'].append([2048, 2047, -1.0])          # an illegal pixel in the remainder
        yield {'op': 'shot', 'method': method, 'seed': rnd_seed(rng), 'img': f}
    yield {'op': 'dark', 'seed': rnd_seed(rng), 'rate': 100.7, 'shape': BLOCK_SHAPES[0], 'fpn': 0.25}
    yield {'op': 'dark', 'seed': rnd_seed(rng), 'rate': 2.9999999, 'shape': BLOCK_SHAPES[1], 'fpn': 0.0}
    mk = big_frame(rng, BLOCK_SHAPES[0], kind='disc')
    mk['lit'] = 0.9
    yield {'op': 'ps', 'seed': rnd_seed(rng), 'mask': mk, 'mask_dtype': 'float', 'pixelscale': 1 / 256, 'rms': 50e-9, 'hpf': 5.0,
           'exp': 3.0}


def container_cases(rng, tier):
    """the same frames handed over as ndarray subclasses (masked array without masked entries, matrix, metadata-carrying
    subclass, memmap) and as 1x1 arrays: same draws, same model, caller memory untouched"""
    kc = 3 if tier == 'quick' else 30
    for _ in range(kc):
        for cont in CONTAINERS:
            n, m = rnd_shape(rng, 5)
            dt = rnd_dtype(rng)
            img = rnd_counts(rng, n, m, 'poisson') if dt == 'float64' else rnd_typed_counts(rng, n, m, dt)
            c = {'op': 'shot', 'method': rng.choice(['poisson', 'gaussian']), 'seed': rnd_seed(rng), 'img': img, 'container': cont}
            if dt != 'float64':
                c['dtype'] = dt
            yield c
            img = rnd_typed_counts(rng, n, m, dt if dt != 'float64' else 'int32', signed_ok=False)
            yield {'op': 'read', 'seed': rnd_seed(rng), 'img': img, 'dtype': dt if dt != 'float64' else 'int32',
                   'electrons': rng.choice([1.0, 2.5, 10.0]), 'container': cont}
            n, m = max(n, 2), max(m, 3)
            mask = [[1 if rng.random() < 0.7 else 0 for _ in range(m)] for _ in range(n)]
            mask[0][0] = 1
            yield {'op': 'ps', 'seed': rnd_seed(rng), 'mask': mask, 'mask_dtype': rng.choice(MASK_DTYPES), 'container': cont,
                   'pixelscale': rng.choice(PS_PIXELSCALES), 'rms': rng.choice(PS_RMS), 'hpf': rng.choice(PS_HPFS),
                   'exp': rng.choice(PS_EXPS)}
        # one-element frames (1x1 array, not 0-d)
        yield {'op': 'shot', 'method': rng.choice(['poisson', 'gaussian']), 'seed': rnd_seed(rng),
               'img': [[rng.choice([0.0, 3.0, 1e4, -1.0, 1e19])]]}
        yield {'op': 'read', 'seed': rnd_seed(rng), 'img': [[rng.choice([0.0, 3.0, 1e4])]], 'electrons': 2.5}
        yield {'op': 'dark', 'seed': rnd_seed(rng), 'rate': 100.7, 'shape': [1, 1], 'fpn': rng.choice([0.0, 0.2])}


def rnd_any_seed(rng):
    t = rng.random()
    if t < 0.45:
        return rnd_seed(rng)
    if t < 0.65:
        return rng.choice([-1, -5, -2 ** 40])
    if t < 0.8:
        return rng.choice([1.5, 0.5, 3.0, -2.5])
    if t < 0.9:
        return [rng.randint(0, 99), -rng.randint(1, 9)]
    return 0


def entry_cases(rng, tier):
    """argument validation and refusal ORDER at the public entry points: method strings, seeds default_rng refuses,
    illegal frames, negative scales, every shape form (int, any rank, empty tuple, negative / zero dimensions), masks of
    any rank - and combinations of several illegal arguments at once (which error wins)"""
    ke = 30 if tier == 'quick' else 300
    for _ in range(ke):
        n, m = rnd_shape(rng, 4)
        method = rng.choice(['poisson', 'gaussian', 'poisson', 'gaussian', 'Poisson', 'GAUSSIAN', 'normal', '', 'poisson ',
                             'gauss', 'poissonn'])
        yield {'op': 'shot', 'entry': True, 'method': method, 'seed': rnd_any_seed(rng), 'img': rnd_counts(rng, n, m, 'poisson')}
        yield {'op': 'read', 'entry': True, 'seed': rnd_any_seed(rng),
               'img': [[float(rng.randint(0, 200)) for _ in range(m)] for _ in range(n)],
               'electrons': rng.choice([2.5, 0.0, -1.0, -1e-9, 10.0])}
        shape = rng.choice([None, 1, 5, 0, [n, m], [n, m], [m], [], [2, 1, 2], [n, -m], [-1], [0, m], [n, 0], -3, [1, 1, 1, 2]])
        yield {'op': 'dark', 'entry': True, 'seed': rnd_any_seed(rng), 'rate': rng.choice([100.7, 7.0, 2.9999999, 0.3]),
               'shape': shape, 'fpn': rng.choice([0.0, 0.0, 0.25, 0.4, -0.1])}
        mshape = rng.choice([[n + 1, m + 2], [n + 1, m + 2], [5], [2, 2, 2], [], [0, 3], [3, 0], [1, 1], [1, 4]])
        yield {'op': 'ps', 'entry': True, 'seed': rnd_any_seed(rng), 'mask_shape': mshape, 'mask_dtype': rng.choice(MASK_DTYPES),
               'pixelscale': rng.choice(PS_PIXELSCALES), 'rms': rng.choice(PS_RMS), 'hpf': rng.choice(PS_HPFS),
               'exp': rng.choice(PS_EXPS)}


def generate(rng, tier):
    yield from entry_cases(rng, tier)
    yield from sequences(rng, tier)
    yield from large_cases(rng, tier)
    yield from block_cases(rng, tier)
    yield from container_cases(rng, tier)
    kd = 24 if tier == 'quick' else 240
    for _ in range(kd):       # input frames of every supported dtype (integer, unsigned, float32, bool): same draws, same model
        n, m = rnd_shape(rng, 5)
        dt = rng.choice(DTYPES[1:])
        for method in ('poisson', 'gaussian'):
            yield {'op': 'shot', 'method': method, 'seed': rnd_seed(rng), 'img': rnd_typed_counts(rng, n, m, dt), 'dtype': dt}
        dt = rng.choice(DTYPES[1:])
        yield {'op': 'read', 'seed': rnd_seed(rng), 'img': rnd_typed_counts(rng, n, m, dt, signed_ok=False), 'dtype': dt,
               'electrons': rng.choice([1.0, 2.5, 10.0, 100.0, 0.3])}
        rt = rng.choice(['int', 'int64', 'float32', 'uint16', 'uint8', 'int8'])
        rate = float(np.float32(rng.random() * 300)) if rt == 'float32' else float(rng.randint(0, 127 if rt in ('uint8', 'int8') else 3000))
        shape = rng.choice([[n, m], [n, m], n * m + 1])
        yield {'op': 'dark', 'seed': rnd_seed(rng), 'rate': rate, 'rate_type': rt, 'shape': shape,
               'shape_form': rng.choice(['tuple', 'list', 'array', 'array_u8', 'tuple_u8']), 'fpn': rng.choice([0.0, 0.1, 0.25, 0.4])}
    k = 40 if tier == 'quick' else 400
    for _ in range(k):        # shot noise, both methods
        for method in ('poisson', 'gaussian'):
            n, m = rnd_shape(rng)
            c = {'op': 'shot', 'method': method, 'seed': rnd_seed(rng), 'img': rnd_counts(rng, n, m, method)}
            if rng.random() < 0.3:
                for _q in range(rng.randint(1, 2)):
                    c['img'][rng.randrange(n)][rng.randrange(m)] = edge_value(rng)
            if rng.random() < 0.06:
                c['img'] = c['img'][0][0]          # 0-d input
            yield c
    for _ in range(k):        # read noise
        n, m = rnd_shape(rng)
        img = [[rng.choice([0.0, float(rng.randint(-5, 200)), rng.random() * 1000]) for _ in range(m)] for _ in range(n)]
        el = rng.choice([0.0, 1.0, 2.5, 10.0, 100.0, rng.random() * 50])
        if rng.random() < 0.3:
            el = edge_value(rng)
        if rng.random() < 0.3:
            img[rng.randrange(n)][rng.randrange(m)] = edge_value(rng)
        yield {'op': 'read', 'seed': rnd_seed(rng), 'img': img, 'electrons': el}
    for _ in range(k):        # dark current
        n, m = rnd_shape(rng)
        t = rng.random()
        fpn = 0.0 if t < 0.35 else (rng.choice([0.1, 0.25, 0.4, 1.0, rng.random()]) if t < 0.9 else -rng.random())
        rate = rng.choice([0.0, 0.3, 1.0, 7.0, 100.0, 100.7, 1234.5, float(rng.randint(0, 10 ** 6)) / 64, rng.random() * 500,
                           -2.5])
        if rng.random() < 0.4:
            rate = edge_value(rng)
        yield {'op': 'dark', 'seed': rnd_seed(rng), 'rate': rate, 'shape': [n, m] if rng.random() < 0.93 else None, 'fpn': fpn}
    for _ in range(k):        # power spectrum
        n, m = rnd_shape(rng, 9 if tier == 'quick' else 12)
        t = rng.random()
        if t < 0.2:
            mask = [[1] * m for _ in range(n)]
        elif t < 0.27:
            mask = [[0] * m for _ in range(n)]
        elif t < 0.6:     # a disc-like aperture
            r0, c0, rad = (n - 1) / 2, (m - 1) / 2, max(n, m) / 2 * (0.5 + rng.random() * 0.6)
            mask = [[1 if (i - r0) ** 2 + (j - c0) ** 2 <= rad ** 2 else 0 for j in range(m)] for i in range(n)]
        else:
            mask = [[1 if rng.random() < 0.6 else 0 for _ in range(m)] for _ in range(n)]
        yield {'op': 'ps', 'seed': rnd_seed(rng), 'mask': mask,
               'mask_dtype': rng.choice(MASK_DTYPES),
               'pixelscale': rng.choice([1.0, 1 / 64, 1 / 256, 0.01, rng.random() + 0.01]),
               'rms': rng.choice([1.0, 50e-9, 25e-9, 2.5, 0.0, -3e-8, rng.random(), 1e-140, 1e140, 1 - 2.0 ** -24,
                                  16777217.0, 2.9999999]),
               'hpf': rng.choice([1.0, 5.0, 8.0, 20.0, rng.random() * 30 + 0.1]),
               'exp': rng.choice([1.0, 2.0, 3.0, 2.5, 11 / 3])}
    for _ in range(max(k // 4, 8)):     # rule07_dark_current: the same dark frame behind a rate formula (oracle only)
        n, m = rnd_shape(rng)
        t = rng.random()
        yield {'op': 'rule07', 'seed': rnd_seed(rng), 'temperature': rng.choice([25.0, 77.0, 110.0, 150.0, 200.0, 300.0]),
               'cutoff': rng.choice([1.7e-6, 2.5e-6, 5e-6, 10e-6, 15e-6]), 'pixelscale': rng.choice([5e-6, 10e-6, 18e-6, 30e-6]),
               'shape': [n, m], 'fpn': 0.0 if t < 0.4 else rng.choice([0.1, 0.25, 0.4])}
    kc = 50 if tier == 'quick' else 1000
    for _ in range(kc):       # cosmic rays under many states of the global generator
        n, m = rnd_shape(rng, 12)
        n, m = max(n, 2), max(m, 2)
        px = [rng.choice([0.1, 5e-6, 1e-5, 0.25, rng.random() + 0.05]) for _ in range(3)]
        if rng.random() < 0.4:
            px = [px[0]] * 3
        ts = rng.choice([1.0, 0.5, 2000.0, 10.0])
        want = rng.choice([0.3, 0.9, 1.0, 2.0, 3.5, 6.0])        # expected number of rays
        rate = want / (n * px[0] * m * px[1] * ts)
        yield {'op': 'cosmic', 'shape': [n, m], 'pixelscale': px, 'ts': ts, 'rate': rate,
               'proton_flux': rng.choice([1e9, 1.0, 3.0]), 'alpha_flux': rng.choice([4e9, 4.0, 12.0]),
               'gseed': rng.randint(0, 2 ** 32 - 1), 'advance': rng.randint(0, 700)}


def classify(c):
    if c.get('entry'):
        return c['op'] + '/entry'
    if c['op'] == 'seq':
        return 'seq/' + c['calls'][0]['op']
    if c['op'] == 'shot':
        img = as2d(raw_arr(c['img']))
        k = 'neg' if img.min() < 0 else ('big' if img.max() > LAM_MAX else 'ok')
        return (f'shot/{c["method"]}/{k}' + ('/' + c['dtype'] if 'dtype' in c else '') + ('/large' if isinstance(c['img'], dict) else '')
                + ('/' + c['container'] if 'container' in c else ''))
    if c['op'] == 'dark':
        return 'dark/' + ('fpn' if c['fpn'] > 0 else 'nofpn') + ('/' + c['rate_type'] if 'rate_type' in c else '')
    if c['op'] == 'read' and 'dtype' in c:
        return 'read/' + c['dtype']
    return c['op']


def nontrivial(c):
    op = c['op']
    if c.get('entry'):
        return True
    if op == 'seq':
        return len(c['calls']) > 1
    if op == 'shot':
        img = as2d(raw_arr(c['img']))
        return img.size > 1 and img.min() >= 0 and img.max() <= LAM_MAX and img.max() > 0
    if op == 'read':
        return as2d(raw_arr(c['img'])).size > 1 and c['electrons'] > 0
    if op == 'dark':
        return c['shape'] is not None and int(np.prod(dark_shape(c))) > 1
    if op == 'ps':
        mk = raw_arr(c['mask'])
        return bool(mk.size > 2 and mk.sum() > 0 and (mk.shape[0] != mk.shape[1] or mk.sum() < mk.size))
    return True


# ------------------------------------------------------------------ model side
def case_size(c):
    op = c['op']
    if c.get('entry') and op == 'ps':
        return abs(int(np.prod(c['mask_shape']))) if c['mask_shape'] else 1
    if c.get('entry') and op == 'dark':
        return abs(int(np.prod(dark_dims(c)))) if dark_dims(c) else 1
    if op in ('shot', 'read'):
        return int(as2d(raw_arr(c['img'])).size) if not isinstance(c['img'], dict) else c['img']['shape'][0] * c['img']['shape'][1]
    if op == 'ps':
        return c['mask']['shape'][0] * c['mask']['shape'][1] if isinstance(c['mask'], dict) else int(np.array(c['mask']).size)
    if op == 'dark' and c['shape'] is not None:
        return int(np.prod(dark_shape(c)))
    return 1


METHODS = ('poisson', 'gaussian')


def dark_dims(c):
    """the dimensions the entry-point model is given: shape=None is the default shape=1"""
    if c['shape'] is None:
        return [1]
    return [c['shape']] if isinstance(c['shape'], int) else list(c['shape'])


def encode_entry(c):
    """cases that go through the entry-point model (Model/NoiseEntry.v): any method string, any seed, any shape form"""
    op = c['op']
    serr = seed_error(c['seed'])
    if op == 'shot':
        img = img_of(c)
        d = shot_draw(c) if (c['method'] in METHODS and serr is None) else None
        if d is None:
            d = np.zeros(as2d(img).shape)
        enc_d = enc_arr_int(d) if (c['method'] == 'poisson' and np.asarray(d).dtype.kind in 'iu') else enc_arr_q(d)
        return [8, len(c['method'])] + [ord(ch) for ch in c['method']] + enc_seed(c['seed']) + enc_arr_q(img) + enc_d
    if op == 'read':
        img = img_of(c)
        d = read_draw(c) if (serr is None and c['electrons'] >= 0) else np.zeros(as2d(img).shape)
        return [9] + enc_seed(c['seed']) + enc_arr_q(img) + C.enc_q(c['electrons']) + enc_arr_q(d)
    if op == 'dark':
        dims = dark_dims(c)
        sh = [0, c['shape']] if isinstance(c['shape'], int) else ([0, 1] if c['shape'] is None else [1, len(dims)] + dims)
        flatd = []
        if c['fpn'] > 0 and serr is None and all(v >= 0 for v in dims):
            flatd = np.asarray(dark_draw(c), dtype=float).ravel().tolist()
        out = [10] + C.enc_q(c['rate']) + sh + C.enc_q(c['fpn']) + enc_seed(c['seed']) + [len(flatd)]
        for v in flatd:
            out += C.enc_q(v)
        return out
    if op == 'ps':
        dims = list(c['mask_shape'])
        if serr is None and len(dims) == 2 and dims[0] > 0 and dims[1] > 0:
            filt, mask, sv = ps_inputs(c)
            if not np.all(np.isfinite(filt)):
                return None
        else:
            filt, mask, sv = np.zeros((1, 1)), np.zeros((1, 1)), 1.0
        return [11] + enc_seed(c['seed']) + [len(dims)] + dims + enc_arr_q(filt) + enc_arr_q(mask) + C.enc_q(c['rms']) + C.enc_q(sv)
    raise ValueError(op)


def encode(c):
    op = c['op']
    if op != 'seq' and case_size(c) > MODEL_MAX:
        return None           # decided by the oracle (which re-creates the draws itself)
    if c.get('entry'):
        return encode_entry(c)
    if op == 'seq':
        parts = [encode(sub) for sub in c['calls']]
        if any(e is None for e in parts):
            return None
        out = [7]
        for e in parts:
            out += [len(e)] + e
        return out
    if op == 'shot':
        img = img_of(c)
        d = shot_draw(c)
        if d is None:
            d = np.zeros(as2d(img).shape)
        if c['method'] == 'poisson':
            return [1] + enc_arr_q(img) + enc_arr_int(d)
        return [2, 1] + enc_arr_q(img) + enc_arr_q(d)       # upper_guard = 1: the code as it is (fix a1d0f6b)
    if op == 'read':
        if c['electrons'] < 0:
            return None
        return [3] + enc_arr_q(img_of(c)) + enc_arr_q(read_draw(c))
    if op == 'dark':
        shp = dark_shape2(c)
        return [4] + C.enc_q(c['rate']) + [shp[0], shp[1]] + C.enc_q(c['fpn']) + enc_arr_q(as2d(dark_draw(c)).reshape(shp))
    if op == 'ps':
        filt, mask, s = ps_inputs(c)
        if not np.all(np.isfinite(filt)):
            return None
        return [5] + enc_arr_q(filt) + enc_arr_q(mask) + C.enc_q(c['rms']) + C.enc_q(s)
    if op == 'rule07':
        return None
    if op == 'cosmic':
        x, u, rays, _, _ = cosmic_deposits(c)
        out = [12, c['shape'][0], c['shape'][1]] + C.enc_q(x) + C.enc_q(u) + C.enc_q(c['alpha_flux']) + C.enc_q(c['proton_flux'])
        out.append(len(rays))
        for part, segs in rays:
            out += C.enc_q(part) + [len(segs)]
            for (r, cc, d) in segs:
                out += [r, cc] + C.enc_q(d)
        return out
    raise ValueError(op)


def rd_arr_z(rd):
    n, m = rd.z(), rd.z()
    return [[rd.z() for _ in range(m)] for _ in range(n)]


def rd_arr_q(rd):
    n, m = rd.z(), rd.z()
    return [[rd.q() for _ in range(m)] for _ in range(n)]


def decode(c, ints):
    if c['op'] == 'seq':
        assert ints[0] == 0
        pos, outs = 1, []
        for sub in c['calls']:
            ln = ints[pos]
            outs.append(decode(sub, ints[pos + 1:pos + 1 + ln]))
            pos += 1 + ln
        assert pos == len(ints)
        return {'calls': outs}
    rd = C.Reader(ints, 1)
    st = rd.z()
    if st == 1:
        e = {'err': C.ERRNAMES[rd.z()]}
        if not rd.done():
            e['msg'] = rd.z()
        return e
    op = c['op']
    if op == 'dark' and c.get('entry'):
        dims = rd.lst(rd.z)
        return {'dims': dims, 'out': [[rd.z() for _ in range(int(np.prod(dims)) if dims else 1)]]}
    if op == 'ps' and c.get('entry'):
        return {'cnt': 0, 'ss': None, 'out': rd.opt(lambda: rd_arr_q(rd))}
    if op == 'cosmic':
        out = rd_arr_q(rd)
        return {'out': out, 'draws': rd.z(), 'nrays': rd.z()}
    if op in ('shot', 'dark'):
        return {'out': rd_arr_z(rd)}
    if op == 'read':
        return {'out': rd_arr_q(rd)}
    if op == 'ps':
        cnt = rd.z()
        ss = rd.q()
        out = rd.opt(lambda: rd_arr_q(rd))
        return {'cnt': cnt, 'ss': ss, 'out': out}
    raise ValueError(op)


# ------------------------------------------------------------------ implementation side
def fresh_state():
    """put the lentil modules that hold the stochastic models back into their just-imported state (module-level
    caches, module-level generators, ... are re-created), so that a case never depends on the cases run before it"""
    import importlib
    lentil = C.import_lentil()
    importlib.reload(lentil.wfe)
    importlib.reload(lentil.detector)
    return lentil


def call_of(c):
    """the public-API call of a seeded case as a zero-argument function (attributes are resolved at call time)"""
    lentil = C.import_lentil()
    op = c['op']
    def guarded(a, kind, fn):
        """call fn on a fresh copy of a (in the container the case asks for); note when the caller's frame was written to"""
        def f():
            x = wrap(a.copy(), kind)
            try:
                return fn(x)
            finally:
                if not np.array_equal(np.asarray(x), a):
                    f.touched.append(1)
        f.touched = []
        return f
    if op == 'shot':
        return guarded(img_of(c), c.get('container'),
                       lambda x: lentil.detector.shot_noise(x, method=c['method'], seed=seed_of(c)))
    if op == 'read':
        return guarded(img_of(c), c.get('container'),
                       lambda x: lentil.detector.read_noise(x, c['electrons'], seed=seed_of(c)))
    if op == 'dark':
        rate = dark_rate(c)
        if c['shape'] is None:
            return lambda: lentil.detector.dark_current(rate, fpn_factor=c['fpn'], seed=seed_of(c))
        shp = c['shape'] if isinstance(c['shape'], int) else \
            {'tuple': tuple, 'list': list, 'array': np.array, 'array_u8': lambda v: np.array(v, dtype=np.uint8),
             'tuple_u8': lambda v: tuple(np.uint8(k) for k in v)}[c.get('shape_form', 'tuple')](c['shape'])
        return lambda: lentil.detector.dark_current(rate, shp, c['fpn'], seed=seed_of(c))
    if op == 'ps':
        dt = {'float': float, 'int': int, 'bool': bool, 'uint8': np.uint8, 'int32': np.int32, 'float32': np.float32,
              'uint16': np.uint16}[c.get('mask_dtype', 'float')]
        mask = (entry_mask(c['mask_shape']) if c.get('entry') else raw_arr(c['mask'])).astype(dt)
        return guarded(mask, c.get('container'),
                       lambda x: lentil.wfe.power_spectrum(x, c['pixelscale'], c['rms'], c['hpf'], c['exp'], seed=seed_of(c)))
    if op == 'rule07':
        return lambda: lentil.detector.rule07_dark_current(c['temperature'], c['cutoff'], c['pixelscale'],
                                                           tuple(c['shape']), c['fpn'], seed=seed_of(c))
    raise ValueError(op)


def plain_result(c):
    """one call, nothing else (used in a fresh interpreter): floats as hex strings, exact"""
    r = _try(call_of(c))
    if r[0] == 'err':
        return {'err': r[1]}
    return {'hex': [float(v).hex() for v in r[1].ravel().tolist()], 'shape': list(r[1].shape)}


def subprocess_result(c):
    """the same call as the FIRST call of a brand-new Python process"""
    import json
    import os
    import subprocess
    import sys
    code = ('import json,sys\nfrom harness.props import c18\n'
            'print("RESULT " + json.dumps(c18.plain_result(json.loads(sys.stdin.read()))))')
    env = dict(os.environ, PYTHONPATH=f'{C.REPO}:{C.ROOT}', PYTHONDONTWRITEBYTECODE='1')
    p = subprocess.run([sys.executable, '-W', 'ignore', '-c', code], input=json.dumps(c), env=env, cwd=C.ROOT,
                       stdout=subprocess.PIPE, stderr=subprocess.PIPE, text=True, timeout=300)
    for line in p.stdout.splitlines():
        if line.startswith('RESULT '):
            j = json.loads(line[7:])
            if 'err' in j:
                return ('err', j['err'], '')
            return ('ok', np.array([float.fromhex(h) for h in j['hex']], dtype=float).reshape(j['shape']))
    raise RuntimeError('fresh interpreter failed: ' + p.stderr[-600:])


def as_tuple(res):
    return ('err', res['err'], '') if 'err' in res else ('ok', np.array(res['out'], dtype=float).reshape(res['shape']))


def run_seq(c):
    """2-4 calls in ONE interpreter state, in order; then every call again as the first call after a reset
    (and, for flagged cases, as the first call of a new process)"""
    fresh_state()
    seq = [seeded_call(call_of(sub)) for sub in c['calls']]
    same, same_sub = [], []
    for sub, r in zip(c['calls'], seq):
        fresh_state()
        same.append(bool(_same(as_tuple(r), _try(call_of(sub)))))
    if c.get('subprocess'):
        from concurrent.futures import ThreadPoolExecutor
        with ThreadPoolExecutor(max_workers=4) as ex:       # independent interpreters: started side by side
            subs = list(ex.map(subprocess_result, c['calls']))
        same_sub = [bool(_same(as_tuple(r), f)) for r, f in zip(seq, subs)]
    # returned arrays are held across the later calls (a view of an internal buffer would change), then edited in place
    # by the caller (later calls must not see the edit)
    fresh_state()
    held, copies = [], []
    for sub in c['calls']:
        try:
            r = call_of(sub)()
        except Exception:           # noqa: BLE001
            r = None
        held.append(r)
        copies.append(None if r is None else np.array(r, copy=True))
    intact = [h is None or np.array_equal(np.asarray(h), cp, equal_nan=True) for h, cp in zip(held, copies)]
    for h in held:
        if isinstance(h, np.ndarray) and h.size and h.flags.writeable:
            h[...] = -7
    again = [bool(_same(as_tuple(r), _try(call_of(sub)))) for sub, r in zip(c['calls'], seq)]
    fresh_state()
    res = {'calls': seq, 'same_as_fresh': same, 'held_results_intact': [bool(v) for v in intact],
           'unaffected_by_caller_edits': again}
    if c.get('subprocess'):
        res['same_as_new_process'] = same_sub
    return res


def run_impl(c):
    op = c['op']
    if op == 'seq':
        return run_seq(c)
    lentil = fresh_state()
    if op in ('shot', 'read', 'dark', 'ps', 'rule07'):
        return seeded_call(call_of(c))
    if op == 'cosmic':
        saved = np.random.get_state()
        try:
            np.random.seed(c['gseed'])
            np.random.random(c['advance'])
            r = _try(lambda: lentil.detector.cosmic_rays(tuple(c['shape']), tuple(c['pixelscale']), c['ts'], rate=c['rate'],
                                                         proton_flux=c['proton_flux'], alpha_flux=c['alpha_flux']))
            after = np.random.get_state()
            # by how many doubles was the global generator advanced?
            np.random.seed(c['gseed'])
            np.random.random(c['advance'])
            consumed = None
            for k in range(0, 20000):
                if _state_eq(np.random.get_state(), after):
                    consumed = k
                    break
                np.random.random()
        finally:
            np.random.set_state(saved)
        if r[0] == 'err':
            return {'err': r[1], 'msg': r[2]}
        return {'out': r[1].tolist(), 'shape': list(r[1].shape), 'consumed': consumed}
    raise ValueError(op)


# ------------------------------------------------------------------ comparison
def flat(x):
    return np.asarray(x, dtype=float).ravel().tolist()


def compare(c, impl, model):
    op = c['op']
    if op == 'seq':
        for k, (sub, ri, rm) in enumerate(zip(c['calls'], impl['calls'], model['calls'])):
            msg = compare(sub, ri, rm)
            if msg:
                return f'call {k} of the sequence (model fed with the draw of that call): {msg}'
        return None
    if ('err' in impl) != ('err' in model):
        return (f'implementation {"raised " + impl["err"] if "err" in impl else "returned a value"}, '
                f'model {"raised " + model["err"] if "err" in model else "returned a value"}')
    if 'err' in impl:
        return None if impl['err'] == model['err'] else f'error kinds differ: impl {impl["err"]} model {model["err"]}'
    if op == 'shot':
        a, b = flat(impl['out']), [float(v) for row in model['out'] for v in row]      # int -> nearest double, as np.floor(int64)
        if len(a) != len(b):
            return 'sizes differ'
        for k, (x, y) in enumerate(zip(a, b)):
            if x != y:
                return f'shot_noise sample {k}: implementation {x!r}, model {y!r}'
        return None
    if op == 'read':
        a, b = flat(impl['out']), [float(v) for row in model['out'] for v in row]      # one correctly rounded addition
        if len(a) != len(b):
            return 'sizes differ'
        for k, (x, y) in enumerate(zip(a, b)):
            if x != y:
                return f'read_noise sample {k}: implementation {x!r}, model {y!r}'
        return None
    if op == 'dark':
        if 'dims' in model and list(impl['shape']) != list(model['dims']):
            return f'dark_current frame has shape {impl["shape"]}, model {model["dims"]}'
        a, b = flat(impl['out']), [v for row in model['out'] for v in row]
        if len(a) != len(b):
            return 'sizes differ'
        d = flat(as2d(dark_draw(c)))
        for k, (x, y) in enumerate(zip(a, b)):
            if x != float(y):
                # the float product rate*fpn may round up onto an integer the exact product lies just below
                ex = Fraction(c['rate']) * (Fraction(d[k]) if c['fpn'] > 0 else 1)
                fx = float(ex)
                if not (fx == math.floor(fx) and fx > ex and x == fx and y == math.floor(ex)):
                    return f'dark_current sample {k}: implementation {x!r}, model {y!r}'
        return None
    if op == 'ps':
        out = np.asarray(impl['out'], dtype=float)
        if model['out'] is None:
            return None if np.all(np.isnan(out)) else 'model: masked draw identically zero (NaN frame), implementation returned numbers'
        if model['cnt'] > 0 and model['ss'] is not None:
            _, _, s = ps_inputs(c)
            ratio = Fraction(s) ** 2 * model['ss'] / model['cnt']
            if abs(float(ratio) - 1) > TOL:
                raise RuntimeError(f'sqrt oracle value violates its contract: s^2*ss/count = {float(ratio)!r}')
        b = np.array([[float(v) for v in row] for row in model['out']])
        if out.shape != b.shape:
            return f'shapes differ: {out.shape} vs {b.shape}'
        if not np.all(np.isfinite(out)):
            return 'implementation returned non-finite values, model finite'
        d = float(np.max(np.abs(out - b))) if out.size else 0.0
        if d > TOL * max(float(np.max(np.abs(b))), 1e-300):
            return f'power_spectrum: max difference {d:.3g} (scale {float(np.max(np.abs(b))):.3g})'
        return None
    if op == 'cosmic':
        out = np.asarray(impl['out'], dtype=float)
        b = np.array([[float(v) for v in row] for row in model['out']])
        if out.shape != b.shape:
            return f'shapes differ: {out.shape} vs {b.shape}'
        d = float(np.max(np.abs(out - b))) if out.size else 0.0
        if d > TOL * max(float(np.max(np.abs(b))), 1e-300):
            return f'cosmic_rays: frame is not the sum of the deposits, max difference {d:.3g}'
        if impl.get('consumed') != model['draws']:
            return (f'cosmic_rays advanced the global generator by {impl.get("consumed")} draws, the model says '
                    f'{model["draws"]} ({model["nrays"]} rays)')
        return None
    raise ValueError(op)


# ------------------------------------------------------------------ direct property oracle (no model)
def entry_oracle(c, impl):
    """refusal order of the public entry points, decided from the documented behaviour of numpy alone:
    returns (decided, message)"""
    op = c['op']
    serr = seed_error(c['seed'])

    def want(err, why):
        return (True, None) if impl.get('err') == err else \
            (True, f'{op}: expected {err} ({why}), the implementation {"raised " + impl["err"] if "err" in impl else "returned a value"}')
    if op == 'shot':
        if c['method'] not in METHODS:
            return want('AssertionError', f'method {c["method"]!r} is not one of the two methods')
        if serr:
            return want(serr, f'seed {c["seed"]!r} is refused by default_rng')
    if op in ('read', 'ps') and serr:
        return want(serr, f'seed {c["seed"]!r} is refused by default_rng')
    if op == 'read' and c['electrons'] < 0:
        return want('ValueError', 'negative read noise')
    if op == 'dark':
        if c['fpn'] > 0 and serr:
            return want(serr, f'seed {c["seed"]!r} is refused by default_rng')
        if any(v < 0 for v in dark_dims(c)):
            return want('ValueError', 'negative dimension')
    if op == 'ps':
        dims = list(c['mask_shape'])
        if len(dims) != 2:
            return want('ValueError', f'a {len(dims)}-d mask')
        if dims[0] == 0 or dims[1] == 0:
            return want('ValueError', 'an empty mask')
    return (False, None)


def oracle(c, impl):
    op = c['op']
    if c.get('entry'):
        msg = common_oracle(impl, op)
        if msg:
            return msg
        decided, msg = entry_oracle(c, impl)
        if decided:
            return msg
        if op == 'ps':
            c = dict(c, mask=entry_mask(c['mask_shape']).tolist())
    if op == 'seq':
        for k, ok in enumerate(impl['same_as_fresh']):
            if not ok:
                return (f'call {k} of the sequence gives a different result than the same call made first after a reset of the '
                        'module state: the result depends on the call history, not only on the arguments and the seed')
        for k, ok in enumerate(impl.get('held_results_intact', [])):
            if not ok:
                return f'the array returned by call {k} of the sequence was changed by a later library call (a view of internal memory)'
        for k, ok in enumerate(impl.get('unaffected_by_caller_edits', [])):
            if not ok:
                return f'call {k} of the sequence gives another result after the caller edited previously returned arrays in place'
        for k, ok in enumerate(impl.get('same_as_new_process', [])):
            if not ok:
                return (f'call {k} of the sequence gives a different result than the same call made first in a new Python '
                        'process: the result depends on the call history, not only on the arguments and the seed')
        for k, (sub, ri) in enumerate(zip(c['calls'], impl['calls'])):
            msg = oracle(sub, ri)
            if msg:
                return f'call {k} of the sequence: {msg}'
        return None
    if op == 'shot':
        msg = common_oracle(impl, 'shot_noise')
        if msg:
            return msg
        img = img_of(c)
        if img.min() < 0:
            return None if impl.get('err') == 'ValueError' else f'negative counts were not refused with ValueError ({c["method"]})'
        if img.max() > LAM_MAX:
            return None if impl.get('err') == 'ValueError' else \
                f'counts above 9.223372006484771e18 were not refused with ValueError ({c["method"]})'
        if 'err' in impl:
            return f'shot_noise raised {impl["err"]} on valid counts'
        out = np.asarray(impl['out'], dtype=float)
        if list(out.shape) != list(img.shape):
            return f'shape {out.shape} differs from the input shape {img.shape}'
        if not np.all(np.isfinite(out)) or not np.all(out == np.floor(out)):
            return 'shot noise is not integer-valued'
        if c['method'] == 'poisson':
            if out.min() < 0:
                return 'Poisson shot noise is negative'
            exp = np.floor(np.random.default_rng(seed_of(c)).poisson(img))
            if not np.array_equal(out, exp):
                return 'Poisson shot noise is not floor(default_rng(seed).poisson(img))'
        else:
            if img.min() >= 1000 and out.min() < 0:
                return 'Gaussian shot noise negative in the large-count regime'
            if np.any(out[img == 0] != 0):
                return 'Gaussian shot noise of an empty pixel is not 0'
        return None
    if op == 'read':
        msg = common_oracle(impl, 'read_noise')
        if msg:
            return msg
        if c['electrons'] < 0:
            return None if 'err' in impl else 'negative read noise accepted'
        if 'err' in impl:
            return f'read_noise raised {impl["err"]}'
        img = img_of(c)
        out = np.asarray(impl['out'], dtype=float)
        if list(out.shape) != list(img.shape):
            return 'shape differs from the input shape'
        if not np.array_equal(out, img + read_draw(c)):
            return 'read noise is not img + default_rng(seed).normal(0, electrons, img.shape)'
        if c['electrons'] == 0 and not np.array_equal(out, img):
            return 'zero read noise changed the frame'
        return None
    if op == 'dark':
        msg = common_oracle(impl, 'dark_current')
        if msg:
            return msg
        if 'err' in impl:
            return f'dark_current raised {impl["err"]}'
        out = np.asarray(impl['out'], dtype=float).reshape(impl['shape'])
        want = dark_dims(c)
        if list(out.shape) != want:
            return f'shape {list(out.shape)} is not the requested {want}'
        if not np.all(out == np.floor(out)):
            return 'dark frame is not integer-valued'
        if not c['fpn'] > 0:
            if not np.all(out == math.floor(c['rate'])):
                return f'dark frame without pattern noise is not floor(rate) = {math.floor(c["rate"])}'
            return None
        if out.size == 0:
            return None
        if c['rate'] >= 0 and out.min() < 0:
            return 'dark frame negative'
        d = dark_draw(c)
        lo, hi = np.floor(c['rate'] * d * (1 - 1e-15) - 1e-300), np.floor(c['rate'] * d * (1 + 1e-15) + 1e-300)
        lo, hi = np.minimum(lo, hi), np.maximum(lo, hi)
        if np.any(out < lo) or np.any(out > hi):
            return 'dark frame is not floor(rate * lognormal draw)'
        return None
    if op == 'ps':
        msg = common_oracle(impl, 'power_spectrum')
        if msg:
            return msg
        if 'err' in impl:
            return f'power_spectrum raised {impl["err"]}: {impl.get("msg", "")[:80]}'
        mask = raw_arr(c['mask'])
        out = np.asarray(impl['out'], dtype=float)
        if out.shape != mask.shape:
            return f'shape {out.shape} differs from the mask shape {mask.shape}'
        if mask.sum() == 0:
            return None      # nothing claimed: no support (the code returns NaN)
        if not np.all(np.isfinite(out)):
            return 'surface error is not finite'
        if np.any(out[mask == 0] != 0):
            return 'surface error is non-zero outside the mask'
        if c['rms'] == 0:
            return None if np.all(out == 0) else 'rms = 0 but the surface error is not zero'
        sup = out[out != 0]
        if sup.size == 0:
            return 'surface error is identically zero inside the mask'
        rms = math.sqrt(float(np.sum(sup.astype(float) ** 2)) / sup.size)
        if abs(rms - abs(c['rms'])) > 1e-12 * abs(c['rms']):
            return f'RMS over the support is {rms!r}, requested {abs(c["rms"])!r}'
        return None
    if op == 'rule07':
        msg = common_oracle(impl, 'rule07_dark_current')
        if msg:
            return msg
        if 'err' in impl:
            return f'rule07_dark_current raised {impl["err"]}'
        out = np.asarray(impl['out'], dtype=float)
        if list(out.shape) != list(c['shape']):
            return f'shape {list(out.shape)} is not the requested {c["shape"]}'
        if not np.all(np.isfinite(out)) or not np.all(out == np.floor(out)) or out.min() < 0:
            return 'rule07 dark frame is not a non-negative integer frame'
        if not c['fpn'] > 0:
            return None if np.all(out == out.flat[0]) else 'rule07 dark frame without pattern noise is not constant'
        # floor(rate * fpn) for ONE rate: the intervals [out/d, (out+1)/d) must have a common point
        d = np.random.default_rng(seed_of(c)).lognormal(mean=1.0, sigma=c['fpn'], size=tuple(c['shape']))
        lo, hi = float(np.max(out / d)), float(np.min((out + 1) / d))
        if lo > hi * (1 + 1e-12):
            return 'rule07 dark frame is not floor(rate * default_rng(seed).lognormal(1, fpn, shape)) for any rate'
        return None
    if op == 'cosmic':
        if 'err' in impl:
            return f'cosmic_rays raised {impl["err"]}: {impl.get("msg", "")[:80]}'
        out = np.asarray(impl['out'], dtype=float)
        if list(out.shape) != list(c['shape']):
            return f'shape {list(out.shape)} is not the requested {c["shape"]}'
        if not np.all(np.isfinite(out)):
            return 'cosmic-ray frame is not finite'
        if out.min() < 0:
            return f'cosmic-ray frame has negative samples (min {out.min()!r})'
        _, _, _, expected, nr_ = cosmic_deposits(c)
        if impl.get('consumed') != expected:
            return (f'cosmic_rays advanced the global generator by {impl.get("consumed")} draws; {nr_} rays take '
                    f'{expected} (one for a fractional ray count, five per ray)')
        return None
    return None


# ------------------------------------------------------------------ numeric tests (labelled: tests, not theorems)
EXTRA_SEEDS_QUICK = [11, 12, 13]
EXTRA_SEEDS_THOROUGH = list(range(101, 121))
NS = (250, 400)         # 10^5 samples, non-square


def moment_checks(seed):
    """facts about numpy's generators observed through lentil: 4-sigma acceptance bands, fixed seed => deterministic"""
    lentil = C.import_lentil()
    D = lentil.detector
    N = NS[0] * NS[1]
    bad = []

    def band(name, val, centre, halfwidth):
        if not abs(val - centre) <= halfwidth:
            bad.append({'case': {'test': name, 'seed': seed, 'frame': list(NS)}, 'impl': {'value': float(val)},
                        'what': f'{name}: {val!r} outside {centre!r} +- {halfwidth!r} (4 sigma, seed {seed})'})

    for lam in (0.3, 50.0):
        x = D.shot_noise(np.full(NS, lam), method='poisson', seed=seed)
        band(f'poisson shot noise mean (lambda={lam})', x.mean(), lam, 4 * math.sqrt(lam / N))
        band(f'poisson shot noise variance (lambda={lam})', x.var(), lam, 4 * math.sqrt((lam + 2 * lam * lam) / N))
        if x.min() < 0 or np.any(x != np.floor(x)):
            bad.append({'case': {'test': 'poisson support', 'seed': seed}, 'impl': None, 'what': 'Poisson shot noise outside its support'})
    lam = 1e4
    x = D.shot_noise(np.full(NS, lam), method='gaussian', seed=seed)
    # truncation toward zero of the normal draw biases the mean by -0.5 count: allowed explicitly
    band('gaussian shot noise mean (lambda=1e4)', x.mean(), lam, 4 * math.sqrt(lam / N) + 0.5)
    band('gaussian shot noise variance (lambda=1e4)', x.var(), lam, 4 * math.sqrt(2 * lam * lam / N) + 1.0)
    if x.min() < 0 or np.any(x != np.floor(x)):
        bad.append({'case': {'test': 'gaussian support', 'seed': seed}, 'impl': None, 'what': 'Gaussian shot noise outside its support'})
    e = 7.5
    img = np.full(NS, 100.0)
    x = D.read_noise(img, e, seed=seed) - img
    band('read noise mean', x.mean(), 0.0, 4 * e / math.sqrt(N))
    band('read noise standard deviation', x.std(), e, 4 * e / math.sqrt(2 * N))
    for dt in ('int64', 'uint16', 'float32'):       # the applied read noise must not depend on the dtype of the frame
        imgt = np.full(NS, 100).astype(dt)
        x = D.read_noise(imgt, e, seed=seed) - 100.0
        band(f'read noise mean on a {dt} frame', x.mean(), 0.0, 4 * e / math.sqrt(N))
        band(f'read noise standard deviation on a {dt} frame', x.std(), e, 4 * e / math.sqrt(2 * N))
    d = D.dark_current(100.0, NS, 0.25, seed=seed)
    if d.min() < 0 or np.any(d != np.floor(d)) or d.shape != NS:
        bad.append({'case': {'test': 'dark fpn support', 'seed': seed}, 'impl': None, 'what': 'dark frame with FPN negative/non-integer'})
    # lognormal(mean=1, sigma): log of the pattern has mean 1 and standard deviation sigma
    lg = np.log((d + 0.5) / 100.0)
    band('dark FPN log-mean', lg.mean(), 1.0, 4 * 0.25 / math.sqrt(N) + 0.005)
    band('dark FPN log-sigma', lg.std(), 0.25, 4 * 0.25 / math.sqrt(2 * N) + 0.005)
    return bad


def different_seed_checks(seeds):
    lentil = C.import_lentil()
    D = lentil.detector
    bad = []
    shp = (5, 8)
    mask = np.ones(shp)
    for a, b in zip(seeds, seeds[1:] + seeds[:1]):
        if a == b:
            continue
        pairs = {
            'shot_noise poisson': (D.shot_noise(np.full(shp, 40.0), 'poisson', seed=a), D.shot_noise(np.full(shp, 40.0), 'poisson', seed=b)),
            'shot_noise gaussian': (D.shot_noise(np.full(shp, 4e4), 'gaussian', seed=a), D.shot_noise(np.full(shp, 4e4), 'gaussian', seed=b)),
            'read_noise': (D.read_noise(np.zeros(shp), 10.0, seed=a), D.read_noise(np.zeros(shp), 10.0, seed=b)),
            'dark_current': (D.dark_current(500.0, shp, 0.3, seed=a), D.dark_current(500.0, shp, 0.3, seed=b)),
            'power_spectrum': (lentil.wfe.power_spectrum(mask, 1 / 8, 1.0, 5.0, 3.0, seed=a),
                               lentil.wfe.power_spectrum(mask, 1 / 8, 1.0, 5.0, 3.0, seed=b)),
        }
        for name, (x, y) in pairs.items():
            if np.array_equal(x, y):
                bad.append({'case': {'test': 'different seeds', 'function': name, 'seeds': [a, b]}, 'impl': None,
                            'what': f'{name}: seeds {a} and {b} give the same draw'})
    return bad


def extra(tier, rng):
    seeds = EXTRA_SEEDS_QUICK if tier == 'quick' else EXTRA_SEEDS_THOROUGH
    viol = []
    for s in seeds:
        viol += moment_checks(s)
    viol += different_seed_checks(seeds)
    rep = {'labelled': 'numeric tests (facts about numpy generators, not theorems)', 'moment_seeds': seeds,
           'frame': list(NS), 'band': '4 sigma', 'moment_tests_per_seed': 16, 'different_seed_pairs': len(seeds),
           'failed': len(viol)}
    return {'report': rep, 'violations': viol}



# ------------------------------------------------------------------ WP-T4: translation layer (source -> Gallina)
# An ADDITIONAL tie (DESIGN 10.3): harness/gen_src.py (suite 'C18') translates the frequency grid of lentil/wfe.py:power_spectrum and the integer box / shapes of the cosmic-ray generator of lentil/detector.py
# from the CURRENT source text into coq/theories/Gen/NoiseSrc.v; Proofs/NoiseSrcP.v proves every translated term equal to the model for
# all integers; Properties/C18Src.v states it.  Policy: a function the translator refuses is only reported; a
# translated function whose equivalence lemma no longer compiles is compared with the model mirror on sampled points,
# an exhaustive small box and random points - a found disagreement is a VIOLATION with that witness (replayable: op
# 'src'), none found is reported as unproved.  The build of C18Src happens here, never in COQ_TARGETS.
_extra_before_src_layer = extra


def extra(tier, rng):
    from .. import gen_src as G
    try:
        base = _extra_before_src_layer(tier, rng)
    except Exception as e:          # keep the translation layer's verdict when the other checks cannot even run
        import traceback
        base = {'report': {'error': traceback.format_exc()[-800:]},
                'violations': [{'case': None, 'impl': None,
                                'what': f'extra: the checks preceding the translation layer raised {type(e).__name__}: {e}'}]}
    layer = G.run_layer('C18', ID, tier, rng, C)
    report = dict(base.get('report', {}))
    report['source_translation'] = layer['report']
    return {'report': report, 'violations': list(base.get('violations', [])) + layer['violations']}


def _wrap_src_replay():
    from .. import gen_src as G
    return G.wrap_replay(run_impl, oracle, C)


run_impl, oracle = _wrap_src_replay()
