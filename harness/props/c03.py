"""C03 - Splitting an aperture into segments or sub-arrays never changes the result."""
import math
from fractions import Fraction

import numpy as np

from .. import common as C
from . import c07 as P7

ID = 'C03'
MODEL = 'c03'
RUNFUN = 'run'
COQ_TARGETS = ['theories/Properties/C03.vo', 'theories/Extract/RunC03.vo']
DESIGN_REF = 'DESIGN.md section 6, C03'
TECHNIQUE = ('Coq proof (ring-generic): Plane.multiply with a partition of the aperture into pairwise disjoint segment masks '
             '= Plane.multiply with their union (induction over the segments), for chains of planes; propagate_dft depends on '
             'the fields only through the sum of their embeddings (C02 theorems), so field and intensity after the propagation '
             'agree; intensity = |sum|^2. Tie: segmented and monolithic descriptions run through the public API '
             '(Wavefront * Pupil ... -> lentil.propagate_dft) and through the extracted models of Plane.multiply and '
             'propagate_dft on the exact group ring Q(i)[C_L]')
LEVEL_TEXT = ('Theorems in coq/theories/Properties/C03.v for every commutative ring with an additive kernel, all apertures, all '
              'partitions into pairwise disjoint segment masks (bounding boxes may overlap), all OPDs/amplitudes (scalar or '
              'array), chains of planes and all untilted propagation settings: segmented == monolithic for the complex field '
              'and the intensity before and after propagate_dft; sub-arrays with offsets == whole arrays; coherent addition. '
              'The executable models are extracted and compared with lentil on every run; the direct oracle compares the '
              'segmented with the monolithic run of the implementation.')
LEVEL_NOTE = ('Trusted: Coq kernel, extraction, harness, numpy (slicing, BLAS dot, np.exp, np.sqrt; tolerance 1e-9). The '
              'propagation part rests on the C02 model/theorems (Model/Propagate.v, Proofs/PropagateP.v). Describes the code after the '
              'fix: commits for C03-one-element-array-field and C03-one-layer-cube (single-sample segments, one-layer cubes).')
TRUSTED = ['Coq 8.16.1 kernel (coqc; coqchk in the thorough tier)',
           'Model/Fft.v (property C09) for the propagate_fft step; lentil.rescale (property C17) is an observed primitive: the model of a '
           'rescaled plane is built from the public attributes Plane.rescale returns',
           'extraction with ExtrOcamlBasic only; ocaml/driver.ml',
           'harness/props/c03.py, c07.py: codec, evaluation of group-ring elements at exp(-2 pi i/L), np.sqrt of the unitary factor',
           'numpy: slicing, broadcasting, BLAS dot, np.exp (modelled; observed through the tie)',
           'Model/Propagate.v + Proofs/PropagateP.v (property C02) for the propagation step',
           'parametricity: the theorem instance (any ring) and the executed instance (group ring) are the same Gallina term']
ASSUMPTIONS = ['theorems: untilted fields (the tilted-chip cases are tied and decided by the oracle only)',
               'segment masks pairwise disjoint (segments may be single samples; a cube may have one layer)',
               'pupil planes; angular tilt only as integer chip shifts; wavelength, focal length, pixel scales dyadic; alpha = p/q, OPD = k*lambda/Lo, lcm <= 64',
               'comparison tolerance 1e-9*(1+max|expected|)']
RULE = ('random supports <= 7x7 (quick) / 10x10 (thorough), random labelling into 1..4 segments (bounding boxes overlap), chains of '
        '1..3 pupils with scalar/array amplitude and OPD, propagate_dft with shape/prop_shape/oversample 1..3; each case run '
        'segmented and monolithic (optionally with a tilted incoming wavefront, lentil.Tilt planes before/after the apertures (bare, or carrying the aperture mask themselves: cube vs union), and ONE '
        'incoming Wavefront object re-used for both descriptions); segmented pupils with a different tilt per segment and prop_shape < shape (chips disjoint / '
        'disjoint / bridging in every order) compared with the sum of the single-segment propagations; whole-array vs cropped '
        'sub-array(s)-with-offset wavefronts; relays pupil -> image -> (Image-plane stop) -> re-imaged pupil with field, intensity '
        'and Wavefront.insert compared in every plane; array attributes as ndarray subclasses (masked with/without flags, matrix, '
        'metadata subclass, memmap; caller memory unchanged); amplitudes scaled by 2^-30..2^-43 and the results un-scaled before '
        'comparison; up to 12 segments; the same two comparisons through lentil.propagate_fft (no scratch, exact and larger '
        'scratch; complex fields; off-centre supports); planes rescaled / resampled (scale 2, 3, 1/2) before they are multiplied, '
        'segmented vs monolithic and against the rescaled plane\'s own attributes; helper.slice_offset on nine kinds of index expression (Ellipsis, tuples holding Ellipsis with/without a full slice, slice pairs) against the model; non-trivial = at least two segments with overlapping bounding boxes, tilted chips, '
        'or at least two sub-arrays')

TOL = 1e-9
F = Fraction


def lcm(a, b):
    return a * b // math.gcd(a, b)


def pair(x, conv=lambda v: v):
    if isinstance(x, (list, tuple)):
        return conv(x[0]), conv(x[-1])
    return conv(x), conv(x)


def alphas(c):
    dxr, dxc = pair(c['dx'], F)
    if c['op'] == 'rseg':          # the planes are rescaled before they are used: dx / scale
        dxr, dxc = dxr / F(c['scale']), dxc / F(c['scale'])
    dur, duc = pair(c['call']['du'], F)
    wl, z, os = F(c['wl']), F(c['z']), c['call']['os']
    ar = dxr * dur / (wl * z * os)
    ac = dxc * duc / (wl * z * os)
    far = (float(dxr) * float(dur)) / (float(wl) * float(z) * os)
    fac = (float(dxc) * float(duc)) / (float(wl) * float(z) * os)
    ok = abs(F(far) - ar) <= abs(ar) * F(1, 2 ** 51) and abs(F(fac) - ac) <= abs(ac) * F(1, 2 ** 51)
    return ar, ac, ok


def case_L(c):
    ar, ac, _ = alphas(c)
    return lcm(lcm(ar.denominator, ac.denominator), c.get('Lo', 1))


def scale(c):
    ar, ac, _ = alphas(c)
    return math.sqrt(abs(float(ar * ac)))


# ------------------------------------------------------------------ the two descriptions of a plane
def layers_of(pl):
    lab, k = pl['labels'], pl['k']
    n, m = len(lab), len(lab[0])
    return [[[[1 if lab[i][j] == q else 0, 0] for j in range(m)] for i in range(n)] for q in range(k)]


def union_of(pl):
    lab = pl['labels']
    return [[[1 if v >= 0 else 0, 0] for v in row] for row in lab]


def p7_plane(pl, c, seg):
    dx = c['dx'] if isinstance(c['dx'], list) else [c['dx']]
    return {'kind': 'Pupil', 'amp': pl['amp'], 'opd': pl['opd'],
            'mask': {'c': layers_of(pl)} if seg else {'a': union_of(pl)},
            'pix': dx, 'focal': c['z'], 'tilt': [], 'aform': pl.get('aform'), 'ascale': pl.get('ascale')}


def seg_tilts(c):
    """lentil.Tilt(x=a, y=b) arguments per segment such that Field.shift gives the integer chip shifts c['shifts']:
    row shift = -(y/du_r*os) with y = -z*self.y, self.y = a;  col shift = x/du_c*os with x = -z*self.x, self.x = b"""
    dur, duc = pair(c['call']['du'], F)
    z, os = F(c['z']), c['call']['os']
    return [[str(F(r) * dur / (os * z)), str(-F(cc) * duc / (os * z))] for r, cc in c['shifts']]


def p7_tplane(c, only=None):
    """the segmented pupil with one Tilt per segment; only=k: segment k alone as a monolithic pupil with its tilt"""
    pl = c['planes'][0]
    base = p7_plane(pl, c, True)
    tl = seg_tilts(c)
    if only is None:
        base['tilt'] = tl
    else:
        base['mask'] = {'a': layers_of(pl)[only]}
        base['tilt'] = [tl[only]]
    return base


def shift_tilt(c, shift):
    """lentil.Tilt(x=a, y=b) arguments that move every chip by the integer shift (row, col) in oversampled output pixels"""
    dur, duc = pair(c['call']['du'], F)
    z, os = F(c['z']), c['call']['os']
    return [str(F(shift[0]) * dur / (os * z)), str(-F(shift[1]) * duc / (os * z))]


def real_planes(c):
    return [pl for pl in c['planes'] if 'shift' not in pl]


_OBS = {}


def rescaled(lentil, c, P):
    if c['how'] == 'resample':
        return P.resample(float(F(c['dx']) / F(c['scale'])))
    return P.rescale(float(F(c['scale'])))


def observe_plane(c, pl, seg):
    """the public attributes of the plane after Plane.rescale / Plane.resample (lentil.rescale itself - spline
    interpolation - is property C17's; here it is an observed primitive): the model builds its plane from them"""
    lentil = C.import_lentil()
    base = p7_plane(pl, c, seg)
    P2 = rescaled(lentil, c, P7.mk_plane(base, c['Lo'], F(c['wl'])))
    amp = np.asarray(P2.amplitude)

    def cx(v):
        v = complex(v)
        return [v.real, v.imag]
    obs = dict(base)
    obs['amp'] = {'s': cx(amp)} if amp.ndim == 0 else {'a': [[cx(v) for v in row] for row in amp.tolist()]}
    m = np.asarray(P2.mask)
    if m.ndim == 2:
        obs['mask'] = {'a': [[[float(v), 0] for v in row] for row in m.tolist()]}
    else:
        obs['mask'] = {'c': [[[[float(v), 0] for v in row] for row in layer] for layer in m.tolist()]}
    obs['pix'] = [float(P2.pixelscale[0]), float(P2.pixelscale[1])]
    return obs


def obs_case(c, seg):
    key = (C.case_hash({k: v for k, v in c.items() if not k.startswith('_')}), seg, C.REPO)
    if key not in _OBS:
        if len(_OBS) > 64:
            _OBS.clear()
        _OBS[key] = {'op': 'chain', 'L': c['Lo'], 'lam': c['wl'], 'wpix': None, 'wfocal': None, 'wtilt': None,
                     'planes': [observe_plane(c, pl, seg) for pl in c['planes']], 'insert': None}
    return _OBS[key]


def p7_case(c, seg):
    if c['op'] == 'rseg':
        return obs_case(c, seg)
    planes = []
    for pl in c['planes']:
        if 'shift' in pl:        # a lentil.Tilt plane in the chain
            a, b = shift_tilt(c, pl['shift'])
            tp = P7.tilt_plane(a, b)
            if 'labels' in pl:
                tp['mask'] = {'c': layers_of(pl)} if seg else {'a': union_of(pl)}
            planes.append(tp)
        else:
            planes.append(p7_plane(pl, c, seg))
    return {'op': 'chain', 'L': c['Lo'], 'lam': c['wl'], 'wpix': None, 'wfocal': None,
            'wtilt': shift_tilt(c, c['wshift']) if c.get('wshift') else None, 'planes': planes, 'insert': None}


def call_shapes(c):
    call = c['call']
    if c['op'] == 'rseg':
        wshape = P7.plane_geom(obs_case(c, False)['planes'][-1])['mshape']
    elif c['op'] in ('seg', 'tseg'):
        lab = real_planes(c)[-1]['labels']
        wshape = (len(lab), len(lab[0]))
    else:
        wshape = (len(c['g']), len(c['g'][0]))
    S = wshape if call.get('shape') is None else tuple(call['shape'])
    P = S if call.get('prop_shape') is None else tuple(call['prop_shape'])
    return S, P


# ------------------------------------------------------------------ generation
DYAD = ['1/4', '1/2', '1', '1/8', '3/4']


def rnd_labels(rng, n, m, k, allow_small=True):
    for _ in range(200):
        fill = rng.choice([0.5, 0.75, 0.95])
        sup = [[rng.random() < fill for _ in range(m)] for _ in range(n)]
        lab = [[rng.randrange(k) if sup[i][j] else -1 for j in range(m)] for i in range(n)]
        ok = True
        for q in range(k):
            b = P7.bbox([[v == q for v in row] for row in lab])
            if b is None or (not allow_small and (b[1] - b[0] + 1) * (b[3] - b[2] + 1) == 1):
                ok = False
        if ok:
            return lab
    return None


def rnd_call(rng, wshape, maxs):
    os = rng.choice([1, 2, 2, 3])
    t = rng.random()
    if t < 0.3:
        shape, S = None, wshape
    else:
        S = (rng.randint(1, maxs), rng.randint(1, maxs))
        shape = list(S)
    t = rng.random()
    if t < 0.5:
        prop = None
    else:
        prop = [rng.randint(1, S[0]), rng.randint(1, S[1])]
    du = rng.choice(DYAD[:4])
    if rng.random() < 0.3:
        du = [du, rng.choice(DYAD[:4])]
    return {'du': du, 'shape': shape, 'prop_shape': prop, 'os': os}


def rnd_seg(rng, maxn, maxs):
    Lo = rng.choice([1, 1, 2, 3, 4, 6, 8])
    n, m = rng.randint(2, maxn), rng.randint(2, maxn)
    nplanes = rng.choice([1, 1, 2, 2, 3])
    planes = []
    for _ in range(nplanes):
        k = rng.choice([1, 2, 2, 3, 3, 4])          # k = 1: the partition into one segment, as a one-layer cube
        if n * m >= 16 and rng.random() < 0.12:
            k = rng.randint(9, 12)                  # many segments
        lab = rnd_labels(rng, n, m, k)
        if lab is None:
            return None
        if rng.random() < 0.6:
            amp = {'a': [[P7.rnd_gauss(rng) for _ in range(m)] for _ in range(n)]}
        else:
            amp = {'s': rng.choice(P7.GAUSS)}
        if Lo == 1:
            opd = {'s': 0}
        elif rng.random() < 0.6:
            opd = {'a': [[rng.randint(-Lo, 2 * Lo) for _ in range(m)] for _ in range(n)]}
        else:
            opd = {'s': rng.randint(-Lo, 2 * Lo)}
        planes.append({'amp': amp, 'opd': opd, 'labels': lab, 'k': k})
    # array attributes handed over as ndarray subclasses (same data); amplitudes scaled down by an exact power of two
    # (1e-9 .. 1e-13): every step is linear in the amplitude, so the normalised results must not change
    if rng.random() < 0.3:
        form = rng.choice(P7.SUBFORMS)
        for pl in planes:
            pl['aform'] = form
    if rng.random() < 0.25:
        for pl in planes:
            pl['ascale'] = rng.choice([30, 33, 37, 40, 43])
    dx = rng.choice(DYAD[:3])
    if rng.random() < 0.3:
        dx = [dx, rng.choice(DYAD[:3])]
    c = {'op': 'seg', 'Lo': Lo, 'wl': rng.choice(['1/2', '1/4', '3/4', '1', '3/8']), 'z': rng.choice(['1', '2', '4', '3', '3/2']),
         'dx': dx, 'planes': planes, 'call': rnd_call(rng, (n, m), maxs)}
    # tilt carried by the incoming wavefront and lentil.Tilt planes before / after the apertures (integer chip shifts
    # whose angles are dyadic, so that the floats passed to lentil are the exact angles)
    def dyadic_shift():
        sh = [rng.randint(-2, 2), rng.randint(-2, 2)]
        for _ in range(3):
            if all((F(a).denominator & (F(a).denominator - 1)) == 0 for a in shift_tilt(c, sh)):
                return sh
            sh = [3 * sh[0], 3 * sh[1]]
        return [0, 0]
    if rng.random() < 0.45:
        if rng.random() < 0.7:
            c['wshift'] = dyadic_shift()
        for _ in range(rng.choice([1, 1, 2])):
            tp = {'shift': dyadic_shift()}
            prod = 1
            for pl in planes:
                prod *= pl.get('k', 1)
            small = [pl for pl in planes if 'shift' not in pl and pl['k'] <= 4 and prod * pl['k'] <= 48]
            if small and rng.random() < 0.5:
                # the Tilt plane carries an aperture mask itself (Plane kwargs): the cube of segment masks in the segmented
                # description, their union in the monolithic one - every segment must be tilted
                # (a cube of at most 4 layers and at most 48 for the product of all cube sizes: the number of fields of the segmented chain is that product,
                # and Wavefront.intensity -> field.reduce recurses once per merge - see the report)
                src = rng.choice(small)
                tp['labels'], tp['k'] = src['labels'], src['k']
            planes.insert(rng.randint(0, len(planes)), tp)
    # the two descriptions start from ONE Wavefront object (re-used afterwards) or from two fresh ones
    c['reuse'] = rng.choice([None, None, 'seg-first', 'mono-first'])
    return c


def rnd_crop(rng, maxn, maxs):
    n, m = rng.randint(2, maxn), rng.randint(2, maxn)
    # support inside a random box
    r0 = rng.randint(0, n - 1); r1 = rng.randint(r0 + 1, n)
    c0 = rng.randint(0, m - 1); c1 = rng.randint(c0 + 1, m)
    g = [[P7.rnd_gauss(rng, 0.2) if (r0 <= i < r1 and c0 <= j < c1) else [0, 0] for j in range(m)] for i in range(n)]
    variants = [[[0, n, 0, m]], [[r0, r1, c0, c1]]]
    # a looser box around the support
    variants.append([[rng.randint(0, r0), rng.randint(r1, n), rng.randint(0, c0), rng.randint(c1, m)]])
    # tiles: cut the box along a row and a column
    tiles = []
    rs = sorted({r0, r1, rng.randint(r0, r1)})
    cs = sorted({c0, c1, rng.randint(c0, c1)})
    for a, b in zip(rs, rs[1:]):
        for d, e in zip(cs, cs[1:]):
            tiles.append([a, b, d, e])
    variants.append(tiles)
    dx = rng.choice(DYAD[:3])
    c = {'op': 'crop', 'Lo': 1, 'wl': rng.choice(['1/2', '1/4', '3/4', '1']), 'z': rng.choice(['1', '2', '4', '3']),
         'dx': dx, 'g': g, 'variants': variants, 'call': rnd_call(rng, (n, m), maxs)}
    return c


def rnd_tseg(rng, maxn):
    """one segmented pupil, a different tilt on every segment, prop_shape < shape: every segment lands in its own
    shifted chip.  Outer chips mutually disjoint, the chip of one segment bridging them; that segment is listed
    last in half of the cases, anywhere otherwise"""
    n, m = rng.randint(3, maxn), rng.randint(3, maxn)
    k = rng.choice([3, 3, 4])
    lab = rnd_labels(rng, n, m, k)
    if lab is None:
        return None
    os = rng.choice([1, 2])
    pr, pc = rng.randint(1, 3), rng.randint(1, 3)
    Pr, Pc = pr * os, pc * os                       # chip size in output samples
    horiz = rng.random() < 0.5
    P = Pc if horiz else Pr
    step = rng.randint(P, 2 * P - 1) if P > 1 else 1      # outer chips: disjoint from each other (>= P apart) ...
    outs = [step * (i - (k - 2) / 2) for i in range(k - 1)]
    outs = [int(math.floor(v)) for v in outs]
    # ... the bridging chip must meet all of them: only possible for two outer chips unless P is large
    centre = (outs[0] + outs[-1]) // 2
    across = [rng.randint(-1, 1) for _ in range(k)]
    shifts = [[across[i], outs[i]] if horiz else [outs[i], across[i]] for i in range(k - 1)]
    bridge = [0, centre] if horiz else [centre, 0]
    t = rng.random()
    if t < 0.5:
        shifts.append(bridge)
    else:
        shifts.insert(rng.randrange(k), bridge)
    span = abs(outs[-1] - outs[0]) + P + 2
    S = [max(pr + 1, rng.randint(2, 4)), (span + os - 1) // os + rng.randint(0, 1)]
    if not horiz:
        S = [S[1], S[0]]
    if rng.random() < 0.6:
        amp = {'a': [[P7.rnd_gauss(rng) for _ in range(m)] for _ in range(n)]}
    else:
        amp = {'s': rng.choice(P7.GAUSS)}
    Lo = rng.choice([1, 2, 4])
    opd = {'s': 0} if Lo == 1 else {'a': [[rng.randint(-Lo, 2 * Lo) for _ in range(m)] for _ in range(n)]}
    du = rng.choice(['1/4', '1/2', '1'])
    return {'op': 'tseg', 'Lo': Lo, 'wl': rng.choice(['1/2', '1/4', '1']), 'z': rng.choice(['1', '2', '4']),
            'dx': rng.choice(DYAD[:3]), 'planes': [{'amp': amp, 'opd': opd, 'labels': lab, 'k': k}], 'shifts': shifts,
            'call': {'du': du, 'shape': S, 'prop_shape': [pr, pc], 'os': os}}


def chip_kind(c):
    """do the chips of a tseg case contain a field that bridges two earlier, mutually disjoint ones?"""
    S, P = call_shapes(c)
    os = c['call']['os']
    Ro, Co, Pr, Pc = S[0] * os, S[1] * os, P[0] * os, P[1] * os
    es = []
    for r, cc in c['shifts']:
        e = (max(-(Pr // 2) + r, -(Ro // 2)), min(-(Pr // 2) + r + Pr - 1, -(Ro // 2) + Ro - 1),
             max(-(Pc // 2) + cc, -(Co // 2)), min(-(Pc // 2) + cc + Pc - 1, -(Co // 2) + Co - 1))
        es.append(e if e[0] <= e[1] and e[2] <= e[3] else None)

    def meet(a, b):
        return a and b and a[0] <= b[1] and b[0] <= a[1] and a[2] <= b[3] and b[2] <= a[3]
    for k in range(2, len(es)):
        for i in range(k):
            for j in range(i + 1, k):
                if es[i] and es[j] and not meet(es[i], es[j]) and meet(es[k], es[i]) and meet(es[k], es[j]):
                    return 'late-bridge'
    return 'plain'


def single_sample(c):
    """statistic: does a segment or an intermediate field consist of a single sample?"""
    if c['op'] not in ('seg', 'tseg'):
        return False
    return P7.chain_boxes(p7_case(c, True))['single_sample'] or P7.chain_boxes(p7_case(c, False))['single_sample']


# ------------------------------------------------------------------ planes rescaled / resampled before they are used
def rnd_rseg(rng, maxs):
    scale = rng.choice(['2', '2', '3', '1/2'])
    Lo = rng.choice([1, 1, 2, 4])
    n, m = rng.randint(2, 4), rng.randint(2, 4)
    planes = []
    for _ in range(rng.choice([1, 1, 2])):
        k = rng.choice([1, 2, 2, 3])
        lab = rnd_labels(rng, n, m, k)
        if lab is None:
            return None
        amp = {'a': [[P7.rnd_gauss(rng) for _ in range(m)] for _ in range(n)]} if rng.random() < 0.6 else {'s': rng.choice(P7.GAUSS)}
        if scale == '1/2':       # every sample becomes a 2x2 block so that halving keeps every segment
            lab = [[lab[i // 2][j // 2] for j in range(2 * m)] for i in range(2 * n)]
            if 'a' in amp:
                amp = {'a': [[amp['a'][i // 2][j // 2] for j in range(2 * m)] for i in range(2 * n)]}
        planes.append({'amp': amp, 'opd': {'s': 0 if Lo == 1 else rng.randint(-Lo, 2 * Lo)}, 'labels': lab, 'k': k})
    dxp = F(rng.choice(DYAD[:3]))
    c = {'op': 'rseg', 'Lo': Lo, 'wl': rng.choice(['1/2', '1/4', '1']), 'z': rng.choice(['1', '2', '4']),
         'dx': str(dxp * F(scale)), 'scale': scale, 'how': rng.choice(['rescale', 'rescale', 'resample']), 'planes': planes}
    sh = (n * 2, m * 2) if scale == '2' else (n * 3, m * 3) if scale == '3' else (n, m)
    c['call'] = rnd_call(rng, sh, maxs)
    return c


# ------------------------------------------------------------------ relays: pupil -> image -> (stop) -> pupil
def relay_alphas(c):
    """(alpha of leg 1, alpha of leg 2, floats agree) for isotropic pixels; leg 2 starts from the image sampling du1/os1"""
    wl, z, dx = F(c['wl']), F(c['z']), F(c['dx'])
    c1, c2 = c['call1'], c['call2']
    a1 = dx * F(c1['du']) / (wl * z * c1['os'])
    a2 = (F(c1['du']) / c1['os']) * F(c2['du']) / (wl * z * c2['os'])
    f1 = (float(dx) * float(F(c1['du']))) / (float(wl) * float(z) * c1['os'])
    f2 = ((float(F(c1['du'])) / c1['os']) * float(F(c2['du']))) / (float(wl) * float(z) * c2['os'])
    ok = abs(F(f1) - a1) <= abs(a1) * F(1, 2 ** 51) and abs(F(f2) - a2) <= abs(a2) * F(1, 2 ** 51)
    return a1, a2, ok


def relay_L(c):
    a1, a2, _ = relay_alphas(c)
    return lcm(lcm(a1.denominator, a2.denominator), c['Lo'])


def rnd_relay(rng, maxn):
    Lo = rng.choice([1, 1, 2, 4])
    n, m = rng.randint(2, maxn), rng.randint(2, maxn)
    k = rng.choice([2, 2, 3, 4])
    lab = rnd_labels(rng, n, m, k)
    if lab is None:
        return None
    amp = {'a': [[P7.rnd_gauss(rng) for _ in range(m)] for _ in range(n)]} if rng.random() < 0.6 else {'s': rng.choice(P7.GAUSS)}
    opd = {'s': 0} if Lo == 1 else {'a': [[rng.randint(-Lo, 2 * Lo) for _ in range(m)] for _ in range(n)]}
    os1 = rng.choice([1, 1, 2])
    S1 = [rng.randint(2, 4), rng.randint(2, 4)]
    R1, C1 = S1[0] * os1, S1[1] * os1
    stop = None
    if rng.random() < 0.6:      # an Image plane between the two legs: a stop (0/1) or a general transmission
        if rng.random() < 0.6:
            a = [[[1 if rng.random() < 0.7 else 0, 0] for _ in range(C1)] for _ in range(R1)]
            a[R1 // 2][C1 // 2] = [1, 0]
            a[0][0] = [1, 0]
        else:
            a = [[P7.rnd_gauss(rng, 0.2) for _ in range(C1)] for _ in range(R1)]
            a[R1 // 2][C1 // 2] = [1, 1]
        stop = {'amp': {'a': a}}
    S2 = [rng.randint(2, maxn), rng.randint(2, maxn)] if rng.random() < 0.5 else [n, m]
    os2 = rng.choice([1, 1, 2])
    R2, C2 = S2[0] * os2, S2[1] * os2
    ro, co = (R2, C2) if rng.random() < 0.6 else (rng.randint(1, R2 + 1), rng.randint(1, C2 + 1))
    return {'op': 'relay', 'Lo': Lo, 'wl': rng.choice(['1/2', '1/4', '1']), 'z': rng.choice(['1', '2', '4']),
            'dx': rng.choice(DYAD[:3]), 'planes': [{'amp': amp, 'opd': opd, 'labels': lab, 'k': k}],
            'call1': {'du': rng.choice(DYAD[:4]), 'shape': S1, 'prop_shape': None, 'os': os1}, 'stop': stop,
            'call2': {'du': rng.choice(DYAD[:3]), 'shape': S2, 'prop_shape': None, 'os': os2},
            'insert': {'out': [[rng.randint(-3, 5) for _ in range(co)] for _ in range(ro)],
                       'w': str(rng.choice([1, 2, F(1, 2), F(3, 4)]))}}


def stop_plane(c):
    return {'kind': 'Plane', 'amp': c['stop']['amp'], 'opd': {'s': 0}, 'mask': None, 'pix': None, 'focal': None, 'tilt': []}


def enc_call_of(call):
    du = float(F(call['du']))
    return (C.enc_q(du) + C.enc_q(du) + C.enc_opt(call['shape'], lambda sh: [int(sh[0]), int(sh[1])])
            + C.enc_opt(call['prop_shape'], lambda sh: [int(sh[0]), int(sh[1])]) + [call['os']])


def encode_relay(c):
    L, lam = relay_L(c), F(c['wl'])
    out = [8, L] + C.enc_q(lam)
    for seg in (True, False):
        pc = p7_case(c, seg)
        out += [len(pc['planes'])]
        for pl in pc['planes']:
            out += P7.enc_plane(pl, c['Lo'], lam)
    out += enc_call_of(c['call1'])
    out += [0] if c['stop'] is None else [1] + P7.enc_plane(stop_plane(c), c['Lo'], lam)
    out += enc_call_of(c['call2'])
    ins = c['insert']
    return out + P7.enc_carr([[[v, 0] for v in row] for row in ins['out']]) + C.enc_c((F(ins['w']), 0))


def decode_relay(c, ints):
    L = relay_L(c)
    a1, a2, _ = relay_alphas(c)
    s1 = abs(float(a1))                       # sqrt|a_r a_c| of leg 1 (isotropic)
    s2 = s1 * abs(float(a2))
    rd = C.Reader(ints, L)
    assert rd.z() == 0
    res = {}
    for key in ('seg', 'mono'):
        r = {}
        res[key] = r
        if rd.z() == 1:
            r['err'] = C.ERRNAMES[rd.z()]
            continue
        r['pre_field'], r['pre_intensity'] = P7.read_fdata(rd, L), P7.read_fdata(rd, L)
        if rd.z() == 1:
            r['image'] = {'err': C.ERRNAMES[rd.z()]}
            continue
        r['image'] = read_views2(rd, L, s1)
        if rd.z() == 1:
            r['pupil'] = {'err': C.ERRNAMES[rd.z()]}
            continue
        r['pupil'] = read_views2(rd, L, s2)
        if rd.z() == 1:
            r['insert'] = {'err': C.ERRNAMES[rd.z()]}
        else:
            w = float(F(c['insert']['w']))
            out = c['insert']['out']
            # the model adds weight * |unscaled field|^2: rescale the added part only
            a = rd.arr()
            r['insert'] = {'arr': [[out[i][j] + (C.kval(v, L) - out[i][j]) * s2 * s2 for j, v in enumerate(row)]
                                   for i, row in enumerate(a)]}
    assert rd.done()
    return res


def read_views2(rd, L, sc):
    shape = [rd.z(), rd.z()]

    def rarr(s):
        if rd.z() == 1:
            return {'err': C.ERRNAMES[rd.z()]}
        return {'arr': [[C.kval(v, L) * s for v in row] for row in rd.arr()]}
    return {'shape': shape, 'field': rarr(sc), 'intensity': rarr(sc * sc)}


def run_relay(c):
    lentil = C.import_lentil()
    lam = F(c['wl'])
    res = {}

    def views(w):
        return {'shape': [int(w.shape[0]), int(w.shape[1])], 'field': P7.view(lambda: w.field),
                'intensity': P7.view(lambda: w.intensity)}

    def prop(w, call):
        return lentil.propagate_dft(w, pixelscale=float(F(call['du'])), shape=tuple(call['shape']), oversample=call['os'])
    for key, seg in (('seg', True), ('mono', False)):
        r = {}
        res[key] = r
        try:
            w = lentil.Wavefront(wavelength=float(lam))
            for pl in p7_case(c, seg)['planes']:
                w = w * P7.mk_plane(pl, c['Lo'], lam)
        except Exception as e:
            r['err'] = type(e).__name__
            continue
        r['pre_field'], r['pre_intensity'] = P7.view(lambda: w.field), P7.view(lambda: w.intensity)
        try:
            w = prop(w, c['call1'])
        except Exception as e:
            r['image'] = {'err': type(e).__name__}
            continue
        r['image'] = views(w)
        try:
            if c['stop'] is not None:
                w = w * lentil.Image(amplitude=P7.np_attr(c['stop']['amp']['a']))
            w = prop(w, c['call2'])
        except Exception as e:
            r['pupil'] = {'err': type(e).__name__}
            continue
        r['pupil'] = views(w)
        r['ptype'] = str(w.ptype)
        r['insert'] = P7.view(lambda: w.insert(np.array(c['insert']['out'], dtype=float), weight=float(F(c['insert']['w']))))
    return res


def cmp_stage(a, b, what):
    if ('err' in a) or ('err' in b):
        if a.get('err') != b.get('err'):
            return f'{what}: implementation {a.get("err", "returned a value")}, model {b.get("err", "returned a value")}'
        return None
    if a['shape'] != b['shape']:
        return f'{what}: shape {a["shape"]} vs model {b["shape"]}'
    return (P7.cmp_view(a['field'], b['field'], TOL, what + ' field')
            or P7.cmp_view(a['intensity'], b['intensity'], TOL, what + ' intensity'))


def compare_relay(c, impl, model):
    for key in ('seg', 'mono'):
        a, b = impl[key], model[key]
        if ('err' in a) or ('err' in b):
            if a.get('err') != b.get('err'):
                return f'{key}: implementation {a.get("err", "ok")}, model {b.get("err", "ok")}'
            continue
        m = (P7.cmp_view(a['pre_field'], b['pre_field'], TOL, key + ' entrance pupil field')
             or P7.cmp_view(a['pre_intensity'], b['pre_intensity'], TOL, key + ' entrance pupil intensity')
             or cmp_stage(a['image'], b['image'], key + ' image plane'))
        if m:
            return m
        if 'pupil' in a or 'pupil' in b:
            m = cmp_stage(a.get('pupil', {'err': 'missing'}), b.get('pupil', {'err': 'missing'}), key + ' re-imaged pupil')
            if m:
                return m
            if 'insert' in a and 'insert' in b:
                m = P7.cmp_view(a['insert'], b['insert'], TOL, key + ' insert in the re-imaged pupil')
                if m:
                    return m
    return None


def oracle_relay(c, impl):
    a, b = impl['seg'], impl['mono']
    if 'err' in b:
        return None if 'err' in a else f'the monolithic description raised {b["err"]}'
    if 'err' in a:
        return f'the segmented description raised {a["err"]} (the monolithic one did not)'
    m = (same_view(a['pre_field'], b['pre_field'], 'segmented vs monolithic entrance-pupil field')
         or same_view(a['pre_intensity'], b['pre_intensity'], 'segmented vs monolithic entrance-pupil intensity'))
    if m:
        return m
    for stage, name in (('image', 'image plane'), ('pupil', 're-imaged pupil')):
        x, y = a.get(stage), b.get(stage)
        if x is None or y is None:
            return None if (x is None and y is None) else f'{name}: only one description got there'
        if 'err' in x or 'err' in y:
            if x.get('err') != y.get('err'):
                return f'{name}: segmented {x.get("err", "ok")}, monolithic {y.get("err", "ok")}'
            return None
        m = (same_view(x['field'], y['field'], f'segmented vs monolithic field in the {name}')
             or same_view(x['intensity'], y['intensity'], f'segmented vs monolithic intensity in the {name}')
             or coherent(x['field'], x['intensity'], f'segmented, {name}') or coherent(y['field'], y['intensity'], f'monolithic, {name}'))
        if m:
            return m
    m = same_view(a['insert'], b['insert'], 'segmented vs monolithic Wavefront.insert in the re-imaged pupil')
    if m:
        return m
    # insert = out + weight * intensity on the overlap (both arrays centred on floor(n/2))
    if 'arr' in a['insert'] and 'arr' in a['pupil']['intensity']:
        out, w = c['insert']['out'], float(F(c['insert']['w']))
        I = a['pupil']['intensity']['arr']
        R, Cc, n, mm = len(out), len(out[0]), len(I), len(I[0])
        for i in range(R):
            for j in range(Cc):
                ii, jj = i - R // 2 + n // 2, j - Cc // 2 + mm // 2
                inten = I[ii][jj].real if (0 <= ii < n and 0 <= jj < mm) else 0.0
                if not P7.close(a['insert']['arr'][i][j], out[i][j] + w * inten, TOL):
                    return (f'Wavefront.insert in the re-imaged pupil: [{i},{j}] = {a["insert"]["arr"][i][j]}, '
                            f'out + weight*intensity = {out[i][j] + w * inten}')
    return None


# ------------------------------------------------------------------ propagate_fft as the propagation setting
def fft_du(c):
    """the output sampling for which lentil's FFT grid is N x N: du = lambda z os / (dx N) (isotropic pixels)"""
    fc = c['fcall']
    return float(F(c['wl']) * F(c['z']) * fc['os'] / (F(c['dx']) * fc['N']))


def rnd_fcall(rng, n, m, maxN):
    N = rng.randint(max(n, m), maxN)
    os = rng.choice([1, 2, 2, 3])
    t = rng.random()
    shape = None if t < 0.5 else [rng.randint(1, max(1, N // os)), rng.randint(1, max(1, N // os))]
    scratch = rng.choice([None, None, 'exact', 'larger'])
    return {'N': N, 'os': os, 'shape': shape, 'scratch': scratch}


def rnd_fseg(rng, maxn, maxN):
    Lo = rng.choice([1, 1, 2, 4])
    n, m = rng.randint(2, maxn), rng.randint(2, maxn)
    planes = []
    for _ in range(rng.choice([1, 1, 2])):
        k = rng.choice([1, 2, 2, 3])
        # off-centre supports: leave empty rows/columns on one side in half of the cases
        lab = rnd_labels(rng, n, m, k)
        if lab is None:
            return None
        if rng.random() < 0.6:
            cut_r, cut_c = rng.randint(0, n - 1), rng.randint(0, m - 1)
            lab2 = [[(v if (i >= cut_r and j <= cut_c) else -1) for j, v in enumerate(row)] for i, row in enumerate(lab)]
            if all(any(v == q for row in lab2 for v in row) for q in range(k)):
                lab = lab2
        amp = {'a': [[P7.rnd_gauss(rng) for _ in range(m)] for _ in range(n)]} if rng.random() < 0.6 else {'s': rng.choice(P7.GAUSS)}
        opd = {'s': 0} if Lo == 1 else {'a': [[rng.randint(-Lo, 2 * Lo) for _ in range(m)] for _ in range(n)]}
        planes.append({'amp': amp, 'opd': opd, 'labels': lab, 'k': k})
    return {'op': 'fseg', 'Lo': Lo, 'wl': rng.choice(['1/2', '1/4', '1']), 'z': rng.choice(['1', '2', '4']),
            'dx': rng.choice(DYAD[:3]), 'planes': planes, 'fcall': rnd_fcall(rng, n, m, maxN)}


def rnd_fcrop(rng, maxn, maxN):
    c = rnd_crop(rng, maxn, 4)
    n, m = len(c['g']), len(c['g'][0])
    del c['call']
    c.update({'op': 'fcrop', 'wl': rng.choice(['1/2', '1/4', '1']), 'z': rng.choice(['1', '2', '4']),
              'dx': rng.choice(DYAD[:3]), 'fcall': rnd_fcall(rng, n, m, maxN)})
    return c


def f_L(c):
    return lcm(c['fcall']['N'], c.get('Lo', 1))


def enc_fcall(c):
    fc = c['fcall']
    du = fft_du(c)
    out = [fc['N'], fc['N']] + C.enc_q(du) + C.enc_q(du)
    out += C.enc_opt(fc['shape'], lambda sh: [int(sh[0]), int(sh[1])]) + [fc['os']]
    N = fc['N']
    return out + ([0] if fc['scratch'] is None else [1] + ([N, N] if fc['scratch'] == 'exact' else [N + 2, N + 1]))


def encode_f(c):
    L, lam = f_L(c), F(c['wl'])
    if c['op'] == 'fseg':
        out = [5, L] + C.enc_q(lam)
        for seg in (True, False):
            pc = p7_case(c, seg)
            out += [len(pc['planes'])]
            for pl in pc['planes']:
                out += P7.enc_plane(pl, c['Lo'], lam)
        return out + enc_fcall(c)
    dx = float(F(c['dx']))
    out = [6, L] + C.enc_q(lam) + C.enc_q(dx) + C.enc_q(dx) + C.enc_q(float(F(c['z']))) + P7.enc_carr(c['g'])
    out += [len(c['variants'])]
    for v in c['variants']:
        out += [len(v)]
        for sl in v:
            out += list(sl)
    return out + enc_fcall(c)


def read_fres(rd, L, sc):
    if rd.z() == 1:
        return {'err': C.ERRNAMES[rd.z()]}
    shape = [rd.z(), rd.z()]
    if rd.z() == 1:
        return {'shape': shape, 'field': {'err': C.ERRNAMES[rd.z()]}}
    return {'shape': shape, 'field': {'arr': [[C.kval(v, L) * sc for v in row] for row in rd.arr()]}}


def decode_f(c, ints):
    L = f_L(c)
    sc = 1.0 / c['fcall']['N']          # norm='ortho' on an N x N grid
    rd = C.Reader(ints, L)
    assert rd.z() == 0
    if c['op'] == 'fseg':
        res = []
        for _ in range(2):
            if rd.z() == 1:
                res.append({'err': C.ERRNAMES[rd.z()]})
            else:
                res.append(read_fres(rd, L, sc))
        assert rd.done()
        return {'seg': res[0], 'mono': res[1]}
    res = {'variants': rd.lst(lambda: read_fres(rd, L, sc))}
    assert rd.done()
    return res


def do_fcall(lentil, w, c):
    fc = c['fcall']
    N = fc['N']
    scratch = None
    if fc['scratch'] is not None:
        scratch = np.full((N, N) if fc['scratch'] == 'exact' else (N + 2, N + 1), 1 + 1j, dtype=complex)
    try:
        o = lentil.propagate_fft(w, pixelscale=fft_du(c), shape=None if fc['shape'] is None else tuple(fc['shape']),
                                 oversample=fc['os'], scratch=scratch)
    except Exception as e:
        return {'err': type(e).__name__}
    return {'shape': [int(o.shape[0]), int(o.shape[1])], 'field': P7.view(lambda: o.field)}


def run_impl_f(c):
    lentil = C.import_lentil()
    lam = F(c['wl'])
    if c['op'] == 'fseg':
        res = {}
        for key, seg in (('seg', True), ('mono', False)):
            try:
                w = lentil.Wavefront(wavelength=float(lam))
                for pl in p7_case(c, seg)['planes']:
                    w = w * P7.mk_plane(pl, c['Lo'], lam)
            except Exception as e:
                res[key] = {'err': type(e).__name__}
                continue
            res[key] = do_fcall(lentil, w, c)
        return res
    g = P7.np_carr(c['g'])
    dx = float(F(c['dx']))
    out = []
    for v in c['variants']:
        w = lentil.Wavefront.empty(wavelength=float(lam), pixelscale=dx, focal_length=float(F(c['z'])),
                                   shape=g.shape, ptype=lentil.pupil)
        for (r0, r1, c0, c1) in v:
            sl = np.s_[r0:r1, c0:c1]
            w.data.append(lentil.field.Field(data=g[sl], offset=lentil.helper.slice_offset(sl, g.shape)))
        out.append(do_fcall(lentil, w, c))
    return {'variants': out}


def cmp_fres(a, b, what):
    if ('err' in a) or ('err' in b):
        if a.get('err') != b.get('err'):
            return f'{what}: implementation {a.get("err", "returned a value")}, model {b.get("err", "returned a value")}'
        return None
    if a['shape'] != b['shape']:
        return f'{what}: shape {a["shape"]} vs model {b["shape"]}'
    return P7.cmp_view(a['field'], b['field'], TOL, what + ' field')


def compare_f(c, impl, model):
    if c['op'] == 'fseg':
        return cmp_fres(impl['seg'], model['seg'], 'segmented, propagate_fft') or \
            cmp_fres(impl['mono'], model['mono'], 'monolithic, propagate_fft')
    for k, (a, b) in enumerate(zip(impl['variants'], model['variants'])):
        m = cmp_fres(a, b, f'variant {k}, propagate_fft')
        if m:
            return m
    return None


def same_fres(a, b, what):
    if 'err' in a or 'err' in b:
        if a.get('err') != b.get('err'):
            return f'{what}: {a.get("err", "ok")} vs {b.get("err", "ok")}'
        return None
    if a['shape'] != b['shape']:
        return f'{what}: shapes {a["shape"]} vs {b["shape"]}'
    return same_view(a['field'], b['field'], what + ': complex field after propagate_fft')


def oracle_f(c, impl):
    if c['op'] == 'fseg':
        return same_fres(impl['seg'], impl['mono'], 'segmented vs monolithic')
    ref = impl['variants'][0]
    for k, v in enumerate(impl['variants'][1:], 1):
        m = same_fres(ref, v, f'whole array vs sub-array variant {k}')
        if m:
            return m
    return None


SOFF_FORMS = ['ellipsis', 'ell_full', 'full_ell', 'ell_full_full', 'ell_int', 'ell_slice', 'ell_ell', 'int_ell', 'pair']
SOFF_KIND = {'ellipsis': 0, 'ell_full': 1, 'full_ell': 1, 'ell_full_full': 1, 'ell_int': 2, 'ell_slice': 2, 'ell_ell': 2, 'int_ell': 2, 'pair': 3}


def run_soff(c):
    """helper.slice_offset on every form of index expression a cropped sub-array can be described with"""
    lentil = C.import_lentil()
    r0, r1, c0, c1 = c['box']
    full = slice(None, None, None)
    sl = {'ellipsis': Ellipsis, 'ell_full': (Ellipsis, full), 'full_ell': (full, Ellipsis),
          'ell_full_full': (Ellipsis, full, full), 'ell_int': (Ellipsis, 2), 'ell_slice': (Ellipsis, slice(1, 3)),
          'ell_ell': (Ellipsis, Ellipsis), 'int_ell': (1, Ellipsis), 'pair': np.s_[r0:r1, c0:c1]}[c['form']]
    try:
        o = lentil.helper.slice_offset(sl, tuple(c['shape']))
    except Exception as e:
        return {'err': type(e).__name__}
    return {'off': [int(o[0]), int(o[1])]}


def oracle_soff(c, impl):
    n, m = c['shape']
    r0, r1, c0, c1 = c['box']
    if SOFF_KIND[c['form']] in (0, 1):
        want = {'off': [0, 0]}                      # the whole array: no offset
    elif SOFF_KIND[c['form']] == 2:
        want = {'err': 'ValueError'}                # the offset cannot be known: refused
    else:
        want = {'off': [r0 + (r1 - r0) // 2 - n // 2, c0 + (c1 - c0) // 2 - m // 2]}
    return None if impl == want else f'slice_offset({c["form"]} {c["box"]}, {c["shape"]}) gives {impl}, expected {want}'


def generate(rng, tier):
    quick = tier == 'quick'
    for form in SOFF_FORMS + ['pair'] * 4:
        n, m = rng.randint(2, 9), rng.randint(2, 9)
        r0, c0 = rng.randint(0, n - 1), rng.randint(0, m - 1)
        yield {'op': 'soff', 'form': form, 'shape': [n, m], 'box': [r0, rng.randint(r0 + 1, n), c0, rng.randint(c0 + 1, m)]}
    out = tries = 0
    while out < (30 if quick else 400) and tries < 100000:
        tries += 1
        c = rnd_relay(rng, 4 if quick else 6)
        if c is None:
            continue
        a1, a2, ok = relay_alphas(c)
        if not ok or relay_L(c) > (48 if quick else 64) or abs(a1) > 2 or abs(a2) > 2:
            continue
        out += 1
        yield c
    nf, nfc = (40, 15) if quick else (500, 150)
    out = tries = 0
    while out < (25 if quick else 300) and tries < 100000:
        tries += 1
        c = rnd_rseg(rng, 5 if quick else 7)
        if c is None:
            continue
        ar, ac, ok = alphas(c)
        if not ok or case_L(c) > (48 if quick else 64) or abs(ar) > 2 or abs(ac) > 2:
            continue
        out += 1
        yield c
    out = 0
    while out < nf:
        c = rnd_fseg(rng, 5 if quick else 7, 10 if quick else 14)
        if c is None or f_L(c) > (48 if quick else 64):
            continue
        out += 1
        yield c
    for _ in range(nfc):
        yield rnd_fcrop(rng, 5 if quick else 7, 10 if quick else 14)
    n_seg, n_crop = (70, 25) if quick else (1200, 300)
    maxn = 6 if quick else 10
    maxs = 5 if quick else 7
    Lmax = 48 if quick else 64
    out = tries = 0
    while out < n_seg and tries < 100000:
        tries += 1
        c = rnd_seg(rng, maxn, maxs)
        if c is None:
            continue
        ar, ac, ok = alphas(c)
        if not ok or case_L(c) > Lmax or abs(ar) > 2 or abs(ac) > 2:
            continue
        out += 1
        yield c
    out = tries = 0
    n_t = 30 if quick else 400
    while out < n_t and tries < 100000:
        tries += 1
        c = rnd_tseg(rng, 5 if quick else 7)
        if c is None:
            continue
        ar, ac, ok = alphas(c)
        if not ok or case_L(c) > Lmax or abs(ar) > 2 or abs(ac) > 2:
            continue
        out += 1
        yield c
    out = 0
    while out < n_crop:
        c = rnd_crop(rng, maxn, maxs)
        ar, ac, ok = alphas(c)
        if not ok or case_L(c) > Lmax or abs(ar) > 2 or abs(ac) > 2:
            continue
        out += 1
        yield c


def classify(c):
    if c['op'] == 'soff':
        return 'soff/' + c['form']
    if c['op'] == 'relay':
        return 'relay/' + str(c['planes'][0]['k']) + ('/stop' if c['stop'] else '')
    if c['op'] in ('fseg', 'fcrop'):
        return c['op'] + '/' + str(c['fcall']['scratch']) + ('/shape' if c['fcall']['shape'] else '')
    if c['op'] == 'crop':
        return 'crop'
    if c['op'] == 'tseg':
        return 'tseg/' + chip_kind(c)
    if c['op'] == 'rseg':
        return f'rseg/{c["how"]}/{c["scale"]}/' + '-'.join(str(pl['k']) for pl in c['planes'])
    return ('seg/' + '-'.join((('Tm' if 'labels' in pl else 'T') if 'shift' in pl else str(pl['k'])) for pl in c['planes']) + ('/wt' if c.get('wshift') else '')
            + ('/' + real_planes(c)[0]['aform'] if real_planes(c)[0].get('aform') else '') + ('/scaled' if real_planes(c)[0].get('ascale') else '')
            + ('/reuse' if c.get('reuse') else '') + ('/opd' if c['Lo'] > 1 else '')
            + ('/1px' if single_sample(c) else ''))


def nontrivial(c):
    if c['op'] == 'soff':
        return c['form'] == 'pair'
    if c['op'] == 'relay':
        return True
    if c['op'] in ('fseg', 'fcrop'):
        return True
    if c['op'] == 'crop':
        return len(c['variants'][-1]) > 1
    if c['op'] in ('tseg', 'rseg'):
        return True
    for pl in real_planes(c):
        segs = [[[v == q for v in row] for row in pl['labels']] for q in range(pl['k'])]
        bbs = [P7.bbox(s) for s in segs]
        for i in range(len(bbs)):
            for j in range(i + 1, len(bbs)):
                a, b = bbs[i], bbs[j]
                if a and b and a[0] <= b[1] and b[0] <= a[1] and a[2] <= b[3] and b[2] <= a[3]:
                    return True
    return False


# ------------------------------------------------------------------ model side
def enc_call(c):
    call = c['call']
    dur, duc = pair(call['du'], lambda v: float(F(v)))
    out = C.enc_q(dur) + C.enc_q(duc)
    out += C.enc_opt(call['shape'], lambda s: [int(s[0]), int(s[1])])
    out += C.enc_opt(call['prop_shape'], lambda s: [int(s[0]), int(s[1])])
    return out + [call['os']]


def encode(c):
    if c.get('nomodel'):
        return None          # far more fields than the exact model can carry in the quick tier: decided by the oracle
    if c['op'] == 'soff':        # Model/Segment.v slice_offset_any (theorem C03_slice_offset_outcome)
        return [9, 1, SOFF_KIND[c['form']]] + list(c['box']) + list(c['shape'])
    if c['op'] == 'relay':
        return encode_relay(c)
    if c['op'] in ('fseg', 'fcrop'):
        return encode_f(c)
    L = case_L(c)
    lam = F(c['wl'])
    if c['op'] in ('seg', 'rseg'):
        try:
            p7_case(c, True), p7_case(c, False)
        except Exception:
            return None          # the rescale itself failed: nothing to model
        # rescaled planes: interpolated amplitudes are full-precision floats; the model computes the pupil-plane views
        # (exact rational arithmetic), the propagated views are decided by the oracle (segmented == monolithic)
        out = ([1, L] if c['op'] == 'seg' else [7, 1 if c['Lo'] == 1 else c['Lo']]) + C.enc_q(lam)
        for seg in (True, False):
            pc = p7_case(c, seg)
            if seg and c['op'] == 'seg':
                out += P7.enc_tilts([pc['wtilt']] if pc['wtilt'] else [])
            out += [len(pc['planes'])]
            for pl in pc['planes']:
                out += P7.enc_plane(pl, c['Lo'], lam)
        return out + (enc_call(c) if c['op'] == 'seg' else [])
    if c['op'] == 'tseg':
        return [4, L] + C.enc_q(lam) + [1] + P7.enc_plane(p7_tplane(c), c['Lo'], lam) + enc_call(c)
    dxr, dxc = pair(c['dx'], lambda v: float(F(v)))
    out = [2, L] + C.enc_q(lam) + C.enc_q(dxr) + C.enc_q(dxc) + C.enc_q(float(F(c['z']))) + P7.enc_carr(c['g'])
    out += [len(c['variants'])]
    for v in c['variants']:
        out += [len(v)]
        for s in v:
            out += list(s)
    return out + enc_call(c)


def read_views(rd, L, sc):
    st = rd.z()
    if st == 1:
        return {'err': C.ERRNAMES[rd.z()]}
    shape = [rd.z(), rd.z()]

    def rarr(s):
        if rd.z() == 1:
            return {'err': C.ERRNAMES[rd.z()]}
        return {'arr': [[C.kval(v, L) * s for v in row] for row in rd.arr()]}
    return {'shape': shape, 'field': rarr(sc), 'intensity': rarr(sc * sc)}


def decode(c, ints):
    if c['op'] == 'soff':
        rd = C.Reader(ints, 1)
        res = {'err': C.ERRNAMES[rd.z()]} if rd.z() == 1 else {'off': [rd.z(), rd.z()]}
        assert rd.done()
        return res
    if c['op'] == 'relay':
        return decode_relay(c, ints)
    if c['op'] in ('fseg', 'fcrop'):
        return decode_f(c, ints)
    L = case_L(c) if c['op'] != 'rseg' else c['Lo']
    sc = scale(c)
    rd = C.Reader(ints, L)
    assert rd.z() == 0
    if c['op'] in ('seg', 'rseg'):
        res = []
        for _ in range(2):
            st = rd.z()
            if st == 1:
                res.append({'err': C.ERRNAMES[rd.z()]})
                continue
            r = {'pre_field': P7.read_fdata(rd, L), 'pre_intensity': P7.read_fdata(rd, L)}
            if c['op'] == 'seg':
                r['post'] = read_views(rd, L, sc)
            res.append(r)
        assert rd.done()
        return {'seg': res[0], 'mono': res[1]}
    if c['op'] == 'tseg':
        st = rd.z()
        if st == 1:
            return {'seg': {'err': C.ERRNAMES[rd.z()]}}
        r = {'pre_field': P7.read_fdata(rd, L), 'pre_intensity': P7.read_fdata(rd, L), 'post': read_views(rd, L, sc)}
        assert rd.done()
        return {'seg': r}
    res = {'variants': rd.lst(lambda: read_views(rd, L, sc))}
    assert rd.done()
    return res


# ------------------------------------------------------------------ implementation side
def do_call(lentil, w, c):
    call = c['call']
    du = pair(call['du'], lambda v: float(F(v)))
    du = du[0] if not isinstance(call['du'], list) else du
    try:
        o = lentil.propagate_dft(w, pixelscale=du, shape=None if call['shape'] is None else tuple(call['shape']),
                                 prop_shape=None if call['prop_shape'] is None else tuple(call['prop_shape']),
                                 oversample=call['os'])
    except Exception as e:
        return {'err': type(e).__name__}
    return {'shape': [int(o.shape[0]), int(o.shape[1])], 'field': P7.view(lambda: o.field),
            'intensity': P7.view(lambda: o.intensity)}


def mk_w0(lentil, c):
    pc = p7_case(c, True)
    return lentil.Wavefront(wavelength=float(F(c['wl'])),
                            tilt=None if not pc['wtilt'] else [float(F(pc['wtilt'][0])), float(F(pc['wtilt'][1]))])


def run_variant(lentil, c, seg, w0=None):
    lam = F(c['wl'])
    try:
        if c['op'] == 'rseg':
            # construct -> rescale / resample -> multiply, all through the public API
            w = lentil.Wavefront(wavelength=float(lam))
            for pl in c['planes']:
                w = w * rescaled(lentil, c, P7.mk_plane(p7_plane(pl, c, seg), c['Lo'], lam))
        else:
            w = mk_w0(lentil, c) if w0 is None else w0
            keep = []
            for pl in p7_case(c, seg)['planes']:
                w = w * P7.mk_plane(pl, c['Lo'], lam, keep)
    except Exception as e:
        return {'err': type(e).__name__}
    res = {'pre_field': P7.view(lambda: w.field), 'pre_intensity': P7.view(lambda: w.intensity),
           'post': do_call(lentil, w, c), 'nfields': len(w.data)}
    if c['op'] != 'rseg':
        # amplitudes were scaled by f = prod 2^-ascale: undo the scaling (exactly) before anything is compared
        f = 1.0
        for pl in real_planes(c):
            f *= 2.0 ** (-pl['ascale']) if pl.get('ascale') else 1.0
        if f != 1.0:
            res['pre_field'], res['pre_intensity'] = unscale(res['pre_field'], f), unscale(res['pre_intensity'], f * f)
            if 'err' not in res['post']:
                res['post']['field'] = unscale(res['post']['field'], f)
                res['post']['intensity'] = unscale(res['post']['intensity'], f * f)
        res['memory'] = P7.memory_changed(keep)
    return res


def unscale(v, f):
    if 'arr' in v:
        return {'arr': [[x / f for x in row] for row in v['arr']]}
    if 'v' in v:
        return {'v': v['v'] / f}
    return v


def run_impl(c):
    if c['op'] == 'soff':
        return run_soff(c)
    if c['op'] == 'relay':
        return run_relay(c)
    if c['op'] in ('fseg', 'fcrop'):
        return run_impl_f(c)
    lentil = C.import_lentil()
    if c['op'] == 'rseg':
        res = {'seg': run_variant(lentil, c, True), 'mono': run_variant(lentil, c, False)}
        try:
            res['obs'] = {'seg': obs_case(c, True)['planes'], 'mono': obs_case(c, False)['planes']}
        except Exception as e:
            res['obs'] = {'err': type(e).__name__}
        return res
    if c['op'] == 'seg':
        if c.get('reuse'):
            w0 = mk_w0(lentil, c)       # ONE incoming wavefront object for both descriptions
            if c['reuse'] == 'seg-first':
                a = run_variant(lentil, c, True, w0)
                b = run_variant(lentil, c, False, w0)
            else:
                b = run_variant(lentil, c, False, w0)
                a = run_variant(lentil, c, True, w0)
            return {'seg': a, 'mono': b}
        return {'seg': run_variant(lentil, c, True), 'mono': run_variant(lentil, c, False)}
    if c['op'] == 'tseg':
        lam = F(c['wl'])

        def one(only):
            try:
                w = lentil.Wavefront(wavelength=float(lam)) * P7.mk_plane(p7_tplane(c, only), c['Lo'], lam)
            except Exception as e:
                return {'err': type(e).__name__}
            return {'pre_field': P7.view(lambda: w.field), 'pre_intensity': P7.view(lambda: w.intensity),
                    'post': do_call(lentil, w, c)}
        return {'seg': one(None), 'parts': [one(k) for k in range(c['planes'][0]['k'])]}
    g = P7.np_carr(c['g'])
    out = []
    dx = pair(c['dx'], lambda v: float(F(v)))
    for v in c['variants']:
        w = lentil.Wavefront.empty(wavelength=float(F(c['wl'])), pixelscale=dx, focal_length=float(F(c['z'])),
                                   shape=g.shape, ptype=lentil.pupil)
        for (r0, r1, c0, c1) in v:
            s = np.s_[r0:r1, c0:c1]
            w.data.append(lentil.field.Field(data=g[s], offset=lentil.helper.slice_offset(s, g.shape)))
        out.append(do_call(lentil, w, c))
    return {'variants': out}


# ------------------------------------------------------------------ comparison with the model
def cmp_post(a, b, what):
    if ('err' in a) or ('err' in b):
        if a.get('err') != b.get('err'):
            return f'{what}: implementation {a.get("err", "returned a value")}, model {b.get("err", "returned a value")}'
        return None
    if a['shape'] != b['shape']:
        return f'{what}: shape {a["shape"]} vs model {b["shape"]}'
    return (P7.cmp_view(a['field'], b['field'], TOL, what + ' field')
            or P7.cmp_view(a['intensity'], b['intensity'], TOL, what + ' intensity'))


def compare(c, impl, model):
    if c['op'] == 'soff':
        return None if impl == model else f'slice_offset({c["form"]} {c["box"]}, {c["shape"]}): implementation {impl}, model {model}'
    if c['op'] == 'relay':
        return compare_relay(c, impl, model)
    if c['op'] in ('fseg', 'fcrop'):
        return compare_f(c, impl, model)
    if c['op'] in ('seg', 'tseg', 'rseg'):
        for key in (('seg', 'mono') if c['op'] != 'tseg' else ('seg',)):
            a, b = impl[key], model[key]
            if ('err' in a) or ('err' in b):
                if a.get('err') != b.get('err'):
                    return f'{key}: implementation {a.get("err", "ok")}, model {b.get("err", "ok")}'
                continue
            m = (P7.cmp_view(a['pre_field'], b['pre_field'], TOL, key + ' field before propagation')
                 or P7.cmp_view(a['pre_intensity'], b['pre_intensity'], TOL, key + ' intensity before propagation')
                 or ('post' in b and cmp_post(a['post'], b['post'], key + ' after propagation')) or None)
            if m:
                return m
        return None
    for k, (a, b) in enumerate(zip(impl['variants'], model['variants'])):
        m = cmp_post(a, b, f'variant {k}')
        if m:
            return m
    return None


# ------------------------------------------------------------------ direct oracle: segmented == monolithic on the implementation
def same_view(a, b, what):
    if 'err' in a or 'err' in b:
        if a.get('err') != b.get('err'):
            return f'{what}: {a.get("err", "ok")} vs {b.get("err", "ok")}'
        return None
    m = P7.cmp_view(a, b, TOL, what)
    return m.replace(', model ', ', the other description gives ') if m else None


def coherent(fv, iv, what):
    if 'arr' not in fv or 'arr' not in iv:
        return None
    for i, row in enumerate(fv['arr']):
        for j, v in enumerate(row):
            if not P7.close(iv['arr'][i][j], abs(v) ** 2, TOL):
                return f'{what}: intensity[{i},{j}] = {iv["arr"][i][j]} is not |field|^2 = {abs(v) ** 2} (contributions must add as complex amplitudes)'
    return None


def oracle_tseg(c, impl):
    a = impl['seg']
    if 'err' in a:
        return f'the segmented pupil raised {a["err"]}'
    pa = a['post']
    if 'err' in pa:
        return f'propagation of the segmented pupil raised {pa["err"]}'
    m = coherent(pa['field'], pa['intensity'], 'segmented pupil with per-segment tilts')
    if m:
        return m
    tot = None
    for k, p in enumerate(impl['parts']):
        if 'err' in p or 'err' in p['post']:
            return f'segment {k} alone raised'
        f = np.array(p['post']['field']['arr'], dtype=complex)
        tot = f if tot is None else tot + f
    got = np.array(pa['field']['arr'], dtype=complex)
    if got.shape != tot.shape:
        return 'shapes of the segmented and the single-segment propagations differ'
    mx = float(np.max(np.abs(tot))) if tot.size else 0.0
    d = np.abs(got - tot)
    if d.size and float(d.max()) > TOL * (1 + mx):
        i = np.unravel_index(int(np.argmax(d)), d.shape)
        return f'field of the segmented pupil differs from the sum of the single-segment propagations at {tuple(int(x) for x in i)}: {got[i]} vs {tot[i]}'
    inten = np.array(pa['intensity']['arr'], dtype=complex).real
    d = np.abs(inten - np.abs(tot) ** 2)
    if d.size and float(d.max()) > TOL * (1 + mx * mx):
        i = np.unravel_index(int(np.argmax(d)), d.shape)
        return (f'intensity[{int(i[0])},{int(i[1])}] = {inten[i]} of the segmented pupil is not |sum of the single-segment fields|^2 = '
                f'{abs(tot[i]) ** 2} (chips that land on the same samples must add as complex amplitudes)')
    return None


def oracle_rescaled_pointwise(c, impl):
    """the field a rescaled plane leaves behind is amplitude * exp(2 pi i opd / lambda) * mask of the plane's OWN
    (rescaled) attributes, sample by sample"""
    if 'err' in impl.get('obs', {}):
        return None
    for key in ('seg', 'mono'):
        v = impl[key]
        if 'err' in v or 'arr' not in v['pre_field']:
            continue
        arr = v['pre_field']['arr']
        R, Cc = len(arr), len(arr[0])
        planes = impl['obs'][key]
        for i in range(R):
            for j in range(Cc):
                e = 1 + 0j
                for pl in planes:
                    e *= P7.transmission(pl, c['Lo'], i - R // 2, j - Cc // 2)
                if not P7.close(arr[i][j], e, TOL):
                    return (f'{key}: field[{i},{j}] = {arr[i][j]} after multiplying by the {c["how"]}d plane(s), but their own '
                            f'amplitude/opd/mask give {e} there')
    return None


def oracle(c, impl):
    if c['op'] == 'soff':
        return oracle_soff(c, impl)
    if c['op'] == 'relay':
        return oracle_relay(c, impl)
    if c['op'] in ('fseg', 'fcrop'):
        return oracle_f(c, impl)
    if c['op'] == 'rseg':
        m = oracle_rescaled_pointwise(c, impl)
        if m:
            return m
    if c['op'] == 'tseg':
        return oracle_tseg(c, impl)
    if c['op'] in ('seg', 'rseg'):
        a, b = impl['seg'], impl['mono']
        for key in ('seg', 'mono'):
            if impl[key].get('memory'):
                return f'{key}: {impl[key]["memory"]} by the multiplication / propagation'
        if 'err' in b:
            return None if 'err' in a else f'the monolithic description raised {b["err"]}'
        if 'err' in a:
            return f'the segmented description raised {a["err"]} (the monolithic one did not)'
        m = (same_view(a['pre_field'], b['pre_field'], 'segmented vs monolithic field before propagation')
             or same_view(a['pre_intensity'], b['pre_intensity'], 'segmented vs monolithic intensity before propagation'))
        if m:
            return m
        pa, pb = a['post'], b['post']
        if 'err' in pa or 'err' in pb:
            if pa.get('err') != pb.get('err'):
                return f'propagation: segmented {pa.get("err", "ok")}, monolithic {pb.get("err", "ok")}'
            return None
        return (same_view(pa['field'], pb['field'], 'segmented vs monolithic field after propagation')
                or same_view(pa['intensity'], pb['intensity'], 'segmented vs monolithic intensity after propagation')
                or coherent(pa['field'], pa['intensity'], 'segmented') or coherent(pb['field'], pb['intensity'], 'monolithic'))
    vs = impl['variants']
    ref = vs[0]
    for k, v in enumerate(vs[1:], 1):
        if 'err' in ref or 'err' in v:
            if ref.get('err') != v.get('err'):
                return f'whole array {ref.get("err", "ok")}, sub-array variant {k} {v.get("err", "ok")}'
            continue
        m = (same_view(ref['field'], v['field'], f'whole array vs sub-array variant {k}: field')
             or same_view(ref['intensity'], v['intensity'], f'whole array vs sub-array variant {k}: intensity')
             or coherent(v['field'], v['intensity'], f'variant {k}'))
        if m:
            return m
    return None



# ------------------------------------------------------------------ recorded finding
RECURSION_FIELDS = 800      # fewer overlapping fields than this and a RecursionError is NOT the recorded finding


def known_match(f, c, impl):
    """C03-reduce-recursion: Wavefront.intensity (field.reduce -> _disjoint, one recursion per merge) raises
    RecursionError on the segmented wavefront although it holds more than RECURSION_FIELDS fields, while the
    monolithic description of the same chain works; any other exception, or the same one with fewer fields, alarms"""
    if f['id'] != 'C03-reduce-recursion' or c.get('op') != 'seg' or not isinstance(impl, dict):
        return False
    sg, mo = impl.get('seg'), impl.get('mono')
    if not isinstance(sg, dict) or not isinstance(mo, dict) or 'err' in sg or 'err' in mo:
        return False
    return (sg.get('pre_intensity') == {'err': 'RecursionError'} and sg.get('nfields', 0) > RECURSION_FIELDS
            and 'err' not in mo.get('pre_intensity', {'err': 1}) and 'err' not in sg.get('pre_field', {'err': 1})
            and sg.get('pre_field') == mo.get('pre_field'))


# ------------------------------------------------------------------ WP-T3: translation layer (source -> Gallina)
# An ADDITIONAL tie (DESIGN 10.3): harness/gen_src.py (suite 'C03') translates the segment bookkeeping of lentil/plane.py (_plane_slice through helper.boundary_slice, helper.slice_offset, Plane.shape, Plane.size)
# from the CURRENT source text into coq/theories/Gen/SegmentSrc.v; Proofs/SegmentSrcP.v proves every translated term equal to the model for
# all integers; Properties/C03Src.v states it.  Policy: a function the translator refuses is only reported; a
# translated function whose equivalence lemma no longer compiles is compared with the model mirror on sampled points,
# an exhaustive small box and random points - a found disagreement is a VIOLATION with that witness (replayable: op
# 'src'), none found is reported as unproved.  The build of C03Src happens here, never in COQ_TARGETS.
def extra(tier, rng):
    from .. import gen_src as G
    return G.run_layer('C03', ID, tier, rng, C)


def _wrap_src_replay():
    from .. import gen_src as G
    return G.wrap_replay(run_impl, oracle, C)


run_impl, oracle = _wrap_src_replay()
